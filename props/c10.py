"""C10 — Bounded queues are FIFO, lossless, capacity-bounded and race-free (DESIGN §7 C10).

Layers: translator units `orders` (memory orders of the ring counters) and `bqskel` (lock/notify skeleton of the
blocking queue) -> Gen/*.lean consumed by `decide` obligations; Lean theorems over Model/RingBuffer, Model/RingSpsc,
Model/Monitor + Model/BlockingQueue; sequential lockstep of both ring classes and of the blocking queue; DetSched runs
of the real BlockingQueue with 2-4 threads whose recorded schedule is replayed step by step through the Lean monitor
model; implementation-only monitors (Python reference FIFO, per-producer order, each item once, capacity at every
scheduling point, nobody left blocked); thorough tier: ThreadSanitizer SPSC soak of both rings."""
import collections, json, os, re
from vlib.core import Ctx, VERIF, ddmin

ID = "C10"
MODULES = ["IoraModel.Props.C10"]
ANCHOR_FILES = ["include/iora/core/blocking_queue.hpp", "include/iora/core/ring_buffer.hpp"]
OBLIGATIONS = [
    {"id": "C10_R1", "theorem": "Iora.C10.R1_ring_refines_fifo", "kind": "proved",
     "statement": "every history of ring operations (both classes; wrap, batches across the wrap, clear, resize) answers like the bounded FIFO it stands for; hypothesis: counters < 2^64"},
    {"id": "C10_R1_bounded", "theorem": "Iora.C10.R1_ring_bounded", "kind": "proved",
     "statement": "a well-formed ring holds at most `capacity` items and never indexes outside the buffer"},
    {"id": "C10_R1_npot", "theorem": "Iora.C10.R1_nextPowerOfTwo", "kind": "proved",
     "statement": "nextPowerOfTwo(v) - the fold over the EXTRACTED shift list - is the least power of two >= v for every v <= 2^63"},
    {"id": "C10_R1_npot_wraps", "theorem": "Iora.C10.R1_nextPowerOfTwo_wraps", "kind": "proved",
     "statement": "for v > 2^63 the 64-bit computation wraps to 0 (as the code does): capacity 0, the ring refuses every push"},
    {"id": "C10_R1_tie", "theorem": "Iora.C10.R1_arithmetic_is_the_sources", "kind": "proved",
     "statement": "TIE: Ring.nextPowerOfTwo is DEFINED as a fold over the extracted shift list Gen.Orders.npotShifts, Ring.resize EVALUATES the extracted expression trees (count, toCopy, startTail, dropped, final stores); on this source they unfold (rfl) to the hand-written forms the R1 proofs use - a dropped shift or a changed window start fails to build"},
    {"id": "C10_R2_size", "theorem": "Iora.C10.R2_size_same_side", "kind": "proved",
     "statement": "size()/empty()/full() called concurrently by the producer or the consumer (two relaxed, possibly stale loads), every interleaving: producer's answer in [true count, C], consumer's in [0, true count]; never above C; full()==true at the consumer and empty()==true at the producer are genuine"},
    {"id": "C10_R2_size_third", "theorem": "Iora.C10.R2_size_third_thread_wraps", "kind": "proved",
     "statement": "OBSERVATION: a third thread's size() can see tail > head and wrap to 2^64-1 (witness schedule)"},
    {"id": "C10_R2_peek", "theorem": "Iora.C10.R2_peek_returns_oldest", "kind": "proved",
     "statement": "every interleaving: a completing peek returns exactly the oldest item in flight (or nothing) and consumes nothing"},
    {"id": "C10_RT_counters", "theorem": "Iora.C10.RT_throw_keeps_counters", "kind": "proved",
     "statement": "throwing element type: a ring call interrupted by an exception from the element assignment leaves _head/_tail/_capacity/_mask unchanged"},
    {"id": "C10_RT_partial", "theorem": "Iora.C10.RT_strong_guarantee_partial", "kind": "proved",
     "statement": "throwing tryPush/tryPop/peek change nothing; a throwing tryPushBatch leaves the FIFO content unchanged (copied items sit beyond _head)"},
    {"id": "C10_RT_refuted", "theorem": "Iora.C10.RT_strong_guarantee_refuted", "kind": "proved",
     "statement": "OBSERVATION (what the code does): the strong guarantee is FALSE for tryPopBatch and resize - a throw at the k-th move leaves k moved-from husks counted as items (tryPop returns them); resize additionally loses the k items moved into the abandoned buffer (witnesses)"},
    {"id": "C10_RT_unarmed", "theorem": "Iora.C10.RT_unarmed_agrees", "kind": "proved",
     "statement": "with no throw armed the throwing-element model answers like the plain ring model (same outputs and counters)"},
    {"id": "C10_Q5_refuted", "theorem": "Iora.C10.Q5_destroy_with_callers_inside_refuted", "kind": "proved",
     "statement": "OBSERVATION (C++ lifetime rule): 'when ~BlockingQueue() has returned every other thread is out of the object' is FALSE - the waiter close() woke still has to re-acquire _mutex (8-step witness)"},
    {"id": "C10_Q5_partial", "theorem": "Iora.C10.Q5_destroy_partial", "kind": "proved",
     "statement": "destruction is safe when every other thread is out: under every continuation (the destructor's close() included) no other thread ever moves again"},
    {"id": "C10_R2", "theorem": "Iora.C10.R2_spsc_fifo", "kind": "proved",
     "statement": "SPSC, every interleaving with each atomic and each slot access one step, stale counter reads allowed: received ++ in-flight = accepted, in-flight <= C, results = ghost logs"},
    {"id": "C10_R2_refusals", "theorem": "Iora.C10.R2_refusals_genuine", "kind": "proved",
     "statement": "a full/empty answer decided on a fresh counter read is genuine (refusals are conservative; partial batches are not linearizable to an atomic min(count, room) - counterexample in the docstring)"},
    {"id": "C10_R2_returned", "theorem": "Iora.C10.R2_returned_refusals_genuine", "kind": "proved",
     "statement": "a tryPush/tryPop call that RETURNS false after reading the latest counter saw a full/empty ring"},
    {"id": "C10_orders", "theorem": "Iora.C10.C10_orders", "kind": "proved",
     "statement": "OrdersOK Gen.Orders.ring: memory orders as required AND every method is exactly `load own counter, load other counter, slot access(es), one store` in source order, no extra/reordered rows (decide over the extracted event table incl. _buffer accesses)"},
    {"id": "C10_R3", "theorem": "Iora.C10.R3_ring_drf", "kind": "proved",
     "statement": "data-race freedom of both ring classes in the release/acquire view model with the extracted orders, every capacity, every pair of programs, every schedule"},
    {"id": "C10_R3_generic", "theorem": "Iora.C10.R3_drf_of_orders", "kind": "proved",
     "statement": "OrdersOK o -> DRF (cfgOf o C)"},
    {"id": "C10_R3_tight", "theorem": "Iora.C10.R3_tight", "kind": "proved",
     "statement": "each of the four orders is necessary: weakening any one admits a racy execution (first conjunct = F02, the ring as found)"},
    {"id": "C10_Q1", "theorem": "Iora.C10.Q1_fifo_lossless", "kind": "proved",
     "statement": "blocking queue, every schedule of every program set: puts = takes ++ queue (FIFO, each item at most once, nothing lost or invented)"},
    {"id": "C10_Q1_results", "theorem": "Iora.C10.Q1_results_are_the_logs", "kind": "proved",
     "statement": "per thread, every schedule: the values it pushed/popped (its entries of the global logs, in order) are exactly the arguments of its puts that returned true / the items its takes returned, in program order (per-producer order on return values)"},
    {"id": "C10_Q2", "theorem": "Iora.C10.Q2_capacity", "kind": "proved", "statement": "|queue| <= maxSize in every reachable state"},
    {"id": "C10_Q3a", "theorem": "Iora.C10.Q3_close_wakes_all", "kind": "proved",
     "statement": "after close() returned nobody is asleep on either condition variable"},
    {"id": "C10_Q3b", "theorem": "Iora.C10.Q3_closed_refuses", "kind": "proved", "statement": "once closed: closed for ever and no further push"},
    {"id": "C10_Q3b_step", "theorem": "Iora.C10.Q3_push_only_while_open", "kind": "proved",
     "statement": "EVERY reachable state, EVERY next step of ANY thread: with _closed set the step pushes nothing, the queue does not grow and stays closed (a push step starts from an open queue) - incl. a producer asleep on the full queue that is woken by take + another thread's close() (seed C10-e)"},
    {"id": "C10_Q3c", "theorem": "Iora.C10.Q3_retrievable", "kind": "proved",
     "statement": "a take that gets the mutex on a non-empty queue takes the oldest item without waiting, closed or not"},
    {"id": "C10_Q3d", "theorem": "Iora.C10.Q3_drain_after_close", "kind": "proved",
     "statement": "from a closed state on, under every schedule: items taken afterwards are exactly a prefix of the queue content at that moment, in order; the rest stays queued"},
    {"id": "C10_Q3e", "theorem": "Iora.C10.Q3_closed_empty_returns_false", "kind": "proved",
     "statement": "a take on a closed empty queue returns false without waiting"},
    {"id": "C10_Q4_every_state", "theorem": "Iora.C10.Q4_wakeup_pending_in_every_state", "kind": "proved",
     "statement": "EVERY reachable state: a sleeper whose condition holds has a wake-up in the pipeline (pending notifier / woken waiter / closer before notify_all); credit invariant #items <= #pipeline wake-ups (resp. free slots) exported"},
    {"id": "C10_members", "theorem": "Iora.C10.members_conform", "kind": "proved",
     "statement": "the data members PARSED from the class (declaration order) are the modelled ones (translator also asserts `const std::size_t _maxSize`, never assigned, and no unknown member function)"},
    {"id": "C10_Q4", "theorem": "Iora.C10.Q4_no_lost_wakeup", "kind": "proved",
     "statement": "if no thread can run, every sleeper's wait condition is false (no lost wake-up), for every schedule incl. time-outs and spurious wake-ups"},
    {"id": "C10_Q4_repaired", "theorem": "Iora.C10.Q4_repaired", "kind": "proved", "statement": "no schedule of the repaired class ends in a lost wake-up"},
    {"id": "C10_Q4_F01", "theorem": "Iora.C10.Q4_refuted_for_unrepaired_close", "kind": "proved", "finding": "F01",
     "statement": "the class as found (close() flips _closed outside the mutex) has a 6-step schedule ending in a lost wake-up"},
    {"id": "C10_broadcast_generic", "theorem": "Iora.C10.broadcast_no_lost_wakeup", "kind": "proved",
     "statement": "GENERIC (any monitor program over one mutex satisfying Monitor.Broadcast: waits under the mutex in the step that found the predicate false, data changed only by the holder, whoever makes a predicate true owes the notifyAll): after every schedule, in a dead-locked state every sleeper's predicate is false"},
    {"id": "C10_broadcast_inv", "theorem": "Iora.C10.broadcast_invariant", "kind": "proved",
     "statement": "GENERIC: in every reachable state every sleeper's predicate is false or a ready thread still owes the broadcast"},
    {"id": "C10_Q3_instance", "theorem": "Iora.C10.Q3_close_is_broadcast_instance", "kind": "proved",
     "statement": "the queue's close() path (predicate _closed, two notify_all) is an instance of the generic broadcast theorem: nobody sleeps on a closed queue in a dead-locked state"},
    {"id": "C10_skel_conforms", "theorem": "Iora.C10.skeleton_conforms", "kind": "proved",
     "statement": "the lock/notify skeleton extracted from blocking_queue.hpp - every event tagged with the mutexes held AND its enclosing control construct (if-cond / if-body / lambda / none), `_queue.size/empty/front` and `_maxSize` reads distinguished - equals the one the monitor model mirrors (decide)"},
    {"id": "C10_model_trace", "theorem": "Iora.C10.model_trace_is_skeleton", "kind": "proved",
     "statement": "TIE: the lock/wait/unlock/notify trace of every call of the monitor program BQ.prog itself (13 source methods) equals the projection of the EXTRACTED skeleton (decide) - the model the Q theorems are about is compared with the source, not only a hand-written list"},
    {"id": "C10_skel_disciplined", "theorem": "Iora.C10.skeleton_disciplined", "kind": "proved",
     "statement": "every write of a wait-predicate variable is under _mutex and followed by the matching notify; waits and deque accesses hold _mutex (decide over the extracted skeleton)"},
]
LEAN_MODULES = ["IoraModel.Props.C10", "IoraModel.Lemmas.RingThrow", "IoraModel.Lemmas.RingSpscObs", "IoraModel.Lemmas.BlockingQueueDestroy", "IoraModel.Lemmas.BlockingQueueClosedPush", "IoraModel.Model.RingThrow", "IoraModel.Model.BqSkelTrace", "IoraModel.Lemmas.RingBuffer", "IoraModel.Lemmas.RingSpsc", "IoraModel.Lemmas.BlockingQueue",
                "IoraModel.Lemmas.BlockingQueueLogs", "IoraModel.Lemmas.MonitorBroadcast", "IoraModel.Lemmas.BlockingQueueBroadcast", "IoraModel.Model.RingBuffer", "IoraModel.Model.RingSpsc", "IoraModel.Model.Monitor",
                "IoraModel.Model.BlockingQueue", "IoraModel.Model.BqSkel", "IoraModel.Gen.Orders", "IoraModel.Gen.BqSkel"]
NOT_PROVED = [
    "generic discipline theorem: PROVED for the broadcast (notify_all) discipline over any monitor program (Lemmas/MonitorBroadcast.lean; the queue's close() path is an instance). NOT generic: wake-ups by notify_one - their soundness is a counting argument over a class-specific resource (items resp. free slots vs. wake-ups in the pipeline, InvK.credNE/credNF), proved for the blocking-queue model only; the link from the extracted skeleton to the model is the decide-equality `skeleton_conforms` (+ `skeleton_disciplined`), not a theorem over all programs with that skeleton",
    "strict linearizability of a PARTIAL tryPushBatch to an atomic `push min(count, room)` is false (counterexample in the docstring of R2_refusals_genuine); proved instead: conservative refinement (prefix accepted, FIFO, bounded) for every interleaving incl. stale counter reads",
    "SPSC model uses natural-number counters (64-bit overflow excluded by hypothesis; sequential R1 uses UInt64 and states the hypothesis on the history)",
    "concurrent clear()/resize() of the rings (documented as requiring quiescence) is not part of the SPSC model; size()/empty()/full() by the producer or the consumer ARE (R2_size_same_side: theorem over reachable states, the two loads are not steps of the schedule); a third thread's size() can wrap (R2_size_third_thread_wraps)",
    "destruction with callers inside: refuted (Q5_destroy_with_callers_inside_refuted, C++ lifetime rule - an observation) and proved safe when everybody else is out (Q5_destroy_partial); the real destructor is only run with nobody inside (`bq destroy`)",
    "throwing element type: for histories WITHOUT an exception 'every returned element is live' is established by lockstep + the implementation-only monitor (500 cases), not by a theorem (RT_unarmed_agrees reduces answers and counters to R1, the husks tryPop/tryPopBatch leave in released slots are outside R1's abstraction); after an exception in tryPopBatch/resize the code hands out moved-from elements (RT_strong_guarantee_refuted, recorded as an observation)",
    "per-slot FastTrack epoch maps (the two-clock collapse of DESIGN 6.4 is what is proved)",
]

HARNESS = "harness/c10_queues.cpp"
DETSCHED = os.path.join(VERIF, "harness", "detsched", "detsched.cpp")


# ====================================================================================================== rings
class RefRing:
    """Independent reference: a bounded FIFO (Python deque). Knows nothing about counters, masks or slots."""
    def __init__(self, cap):
        self.cap = cap
        self.q = collections.deque()

    def expect(self, op):
        """Returns the expected answer (text before ' | ') for a ring op line, and applies it."""
        t = op.split()
        k = t[1]
        q = self.q
        if k in ("push", "pushm"):
            if len(q) >= self.cap:
                return "0"
            q.append(int(t[2]))
            return "1"
        if k == "pop":
            return "1 %d" % q.popleft() if q else "0"
        if k == "peek":
            return "1 %d" % q[0] if q else "0"
        if k == "pushb":
            xs = [] if t[2] == "-" else [int(x) for x in t[2].split(",")]
            n = min(len(xs), self.cap - len(q))
            q.extend(xs[:n])
            return str(n)
        if k == "popb":
            n = min(int(t[2]), len(q))
            out = [q.popleft() for _ in range(n)]
            return "%d %s" % (n, ",".join(map(str, out)) if out else "-")
        if k == "size":
            return str(len(q))
        if k == "empty":
            return "1" if not q else "0"
        if k == "full":
            return "1" if len(q) >= self.cap else "0"
        if k == "capacity":
            return str(self.cap)
        if k == "clear":
            q.clear()
            return "ok"
        if k == "resize":
            n = int(t[2])
            c = 1
            while c < n:
                c *= 2
            dropped = max(0, len(q) - c)
            for _ in range(dropped):
                q.popleft()
            self.cap = c
            return "%d cap=%d" % (dropped, c)
        return None


def npot(n):
    c = 1
    while c < n:
        c *= 2
    return c


BIG_REQ = [129, 255, 256, 257, 511, 513, 4097, 65535, 65536, 65537, 2 ** 17 + 1, 2 ** 20 - 1, 2 ** 20, 2 ** 20 + 1]
BATCH_MAX = 96      # batch sizes are bounded (a ring of 2^21 slots is not filled; its counters are seeded next to a multiple of the capacity)


def gen_npot_case(rng, idx):
    """The real `DynamicRingBuffer::nextPowerOfTwo` (private static, called directly by the harness) on boundary values of every
    power of two up to 2^64 - 1: independent of what can be allocated."""
    ops = []
    for _ in range(rng.range(4, 24)):
        k = rng.range(0, 64)
        n = rng.choice([2 ** k - 1, 2 ** k, 2 ** k + 1, 2 ** k + rng.range(0, 2 ** k), rng.range(0, 2 ** 64 - 1), 2 ** 63 + 1, 2 ** 64 - 1,
                        2 ** 32 + 1, 2 ** 33 - 1, 65537, 257, 2 ** 20 - 1, 0])
        ops.append("ring npot %d" % max(0, min(n, 2 ** 64 - 1)))
    return {"cat": "ring-npot", "ops": ops, "cap": 0, "base": 0}


def gen_ring_case(rng, idx, wrap64=False):
    dyn = rng.chance(1, 2)
    if dyn:
        req = rng.choice([0, 1, 2, 3, 4, 5, 7, 8, 9, 15, 16, 17, 31, 32, 33, 63, 64, rng.range(0, 64)])
        if rng.chance(1, 8):
            # requests whose rounding needs EVERY shift of nextPowerOfTwo below what the sandbox can allocate (>>8: 257.., >>16: 65537..;
            # >>32 needs a capacity above 2^32 = 64 GiB of uint64_t: reached through `ring npot`, the real function without a ring)
            req = rng.choice(BIG_REQ)
        cap = npot(req)
        ops = ["ring new d %d" % req]
    else:
        cap = rng.choice([1, 2, 4, 8, 16, 32, 64, rng.choice([64, 128, 1024, 65536])])
        ops = ["ring new s %d" % cap]
    base = 0
    if wrap64:
        base = 2 ** 64 - rng.range(1, 3 * cap + 2)
    elif rng.chance(1, 3):
        base = rng.choice([rng.range(1, 200), 2 ** 32 - rng.range(0, 70), 2 ** 63 - rng.range(0, 70), 2 ** 64 - 1000 - rng.range(0, 1000),
                           cap * rng.range(1, 1000) - rng.range(0, 2)])
        base = max(base, 0)
    if base:
        ops.append("ring seed %d" % base)
    nxt = idx * 100000 + 1
    nops = rng.range(5, 60)
    style = rng.below(4)   # 0 mixed, 1 fill/drain, 2 batch heavy, 3 near-full steady state
    cur_cap = cap
    for _ in range(nops):
        r = rng.below(100)
        if style == 1:
            r = rng.choice([0, 0, 0, 30, 30, 50, 60, 70, 85]) if rng.chance(1, 2) else r
        elif style == 2:
            r = rng.choice([50, 55, 60, 65, 30, 0])
        elif style == 3:
            r = rng.choice([0, 0, 30, 50, 60, 88])
        if r < 28:
            ops.append("ring %s %d" % (rng.choice(["push", "pushm"]), nxt))
            nxt += 1
        elif r < 48:
            ops.append("ring pop")
        elif r < 54:
            ops.append("ring peek")
        elif r < 66:
            k = rng.choice([0, 1, 2, cur_cap - 1, cur_cap, cur_cap + 1, 2 * cur_cap, rng.range(0, min(cur_cap, BATCH_MAX) + 2)])
            k = min(max(k, 0), BATCH_MAX + rng.range(0, 3))
            xs = list(range(nxt, nxt + k))
            nxt += k
            ops.append("ring pushb %s" % (",".join(map(str, xs)) if xs else "-"))
        elif r < 76:
            ops.append("ring popb %d" % min(BATCH_MAX + 5, max(0, rng.choice([0, 1, 2, cur_cap - 1, cur_cap, cur_cap + 3, rng.range(0, min(cur_cap, BATCH_MAX) + 2)]))))
        elif r < 88:
            ops.append("ring " + rng.choice(["size", "empty", "full", "capacity"]))
        elif r < 91:
            ops.append("ring clear")
        elif dyn and not wrap64:
            n = rng.choice([0, 1, 2, 3, cur_cap // 2, cur_cap, cur_cap + 1, cur_cap * 2, rng.range(0, 70)])
            if rng.chance(1, 10):
                n = rng.choice(BIG_REQ)
            n = min(n, 2 ** 21)
            ops.append("ring resize %d" % n)
            cur_cap = npot(n)
        else:
            ops.append("ring size")
    # the property's hypothesis (and R1's): the counters do not cross 2^64.  A history that COULD push past it from its seeded base
    # (large rings never fill, so pushes add up) is judged by correspondence only, like the deliberate wrap cases.
    could_push = sum(1 if o.split()[1] in ("push", "pushm") else (0 if o.split()[2] == "-" else o.split()[2].count(",") + 1) if o.split()[1] == "pushb" else 0
                     for o in ops[1:])
    if base + could_push >= 2 ** 64 and not any(o.split()[1] == "resize" for o in ops):
        wrap64 = True
    elif base + could_push >= 2 ** 64:
        ops = [o for o in ops if o.split()[1] != "seed"]      # (resize resets the counters: keep the history, drop the seed)
        base = 0
    return {"cat": "ring-wrap64" if wrap64 else ("ring-dyn" if dyn else "ring-static"), "ops": ops, "cap": cap, "base": base}


def gen_ringt_case(rng, idx):
    """Both ring classes instantiated with the throwing element type Tracked{id, alive} (harness `ringt …`): random histories in which
    about every fourth call is armed (`@K`: its K-th element assignment throws).  Lockstep against Model/RingThrow.lean."""
    dyn = rng.chance(2, 3)
    cap = npot(rng.choice([1, 2, 3, 4, 5, 8])) if dyn else 8
    ops = ["ringt new d %d" % cap if dyn else "ringt new s 8"]
    nxt = idx * 1000 + 1
    armed = rng.chance(3, 4)
    for _ in range(rng.range(4, 30)):
        r = rng.below(100)
        arm = " @%d" % rng.choice([1, 1, 2, 2, 3, 4, rng.range(1, cap + 1)]) if armed and rng.chance(1, 4) else ""
        if r < 22:
            ops.append("ringt %s %d%s" % (rng.choice(["push", "pushm"]), nxt, arm))
            nxt += 1
        elif r < 36:
            ops.append("ringt pop" + arm)
        elif r < 42:
            ops.append("ringt peek" + arm)
        elif r < 62:
            k = rng.choice([0, 1, 2, cap - 1, cap, cap + 1, rng.range(0, cap + 1)])
            xs = list(range(nxt, nxt + max(k, 0)))
            nxt += len(xs)
            ops.append("ringt pushb %s%s" % (",".join(map(str, xs)) if xs else "-", arm))
        elif r < 82:
            ops.append("ringt popb %d%s" % (max(0, rng.choice([0, 1, 2, cap - 1, cap, cap + 2, rng.range(0, cap + 1)])), arm))
        elif r < 94 and dyn:
            n = min(32, rng.choice([0, 1, 2, 3, cap // 2, cap, cap + 1, cap * 2]))     # (the harness shows windows of up to 64 elements)
            ops.append("ringt resize %d%s" % (n, arm))
            cap = npot(n)
        else:
            ops.append("ringt size")
    return {"cat": "ring-throw", "ops": ops, "cap": cap, "base": 0}


def ringt_monitor(c, impl, dist):
    """Implementation-only judgement of a `ringt` history against a Python FIFO of LIVE items.
    Until the first exception: bounded FIFO, every returned element live (never a moved-from husk).
    A call that throws: tryPush / tryPop / peek / tryPushBatch must leave the content untouched (strong guarantee - it holds);
    tryPopBatch / resize interrupted after k >= 1 assignments leave k moved-from husks counted as items (what the code does: recorded
    as an OBSERVATION, theorem `RT_strong_guarantee_refuted`, not judged here); after that the reference follows the code (husks are `M`)."""
    bad = []
    q = None
    cap = 0
    for op, l in zip(c["ops"], impl):
        if l.startswith("crash:"):
            bad.append("R1: ring of a throwing element type crashes: %s -> %s" % (op, l))
            break
        t = [w for w in op.split() if not w.startswith("@")]
        armed = op.split()[-1].startswith("@")
        a, _, tail = l.partition(" | ")
        m = re.search(r"w=(\S+)$", tail)
        if t[1] == "new":
            mm = re.match(r"ok cap=(\d+)$", l)
            cap = int(mm.group(1)) if mm else 0
            q = []
            continue
        win = [] if not m or m.group(1) == "-" else m.group(1).split(",")
        if win == ["?"]:
            win = list(q) if q is not None else win      # window too long to be shown: content not compared at this op
        if a.startswith("throw"):
            f = a.split()
            k = int(f[1])
            dist["throw:%s:after-%s" % (t[1], k if k < 2 else "2+")] += 1
            if t[1] in ("push", "pushm", "pop", "peek", "pushb") or k == 0:
                if win != q:
                    bad.append("R1: %s threw and changed the content: window %s, before the call %s" % (op, win, q))
                    break
            else:
                dist["throw:%s:husks-left-counted" % t[1]] += 1
                if t[1] == "popb" and (len(f) < 3 or f[2].split(",") != q[:k]):
                    bad.append("R1: %s threw after %d moves but the caller's array holds %s, not the oldest items %s" % (op, k, f[2:], q[:k]))
                    break
                if t[1] == "popb":
                    q = ["M"] * k + q[k:]
                else:
                    n = int(t[2])
                    nc = npot(n)
                    start = max(0, len(q) - nc)
                    q = q[:start] + ["M"] * k + q[start + k:]
                if win != q:
                    bad.append("R1: %s threw after %d assignments: window %s, expected %s" % (op, k, win, q))
                    break
            continue
        if armed:
            dist["armed-but-not-reached:%s" % t[1]] += 1
        want = None
        if t[1] in ("push", "pushm"):
            if len(q) >= cap:
                want = "0"
            else:
                q.append(t[2])
                want = "1"
        elif t[1] == "pop":
            want = "1 %s" % q.pop(0) if q else "0"
        elif t[1] == "peek":
            want = "1 %s" % q[0] if q else "0"
        elif t[1] == "pushb":
            xs = [] if t[2] == "-" else t[2].split(",")
            n = min(len(xs), cap - len(q))
            q.extend(xs[:n])
            want = str(n)
        elif t[1] == "popb":
            n = min(int(t[2]), len(q))
            out = q[:n]
            del q[:n]
            want = "%d %s" % (n, ",".join(out) if out else "-")
        elif t[1] == "resize":
            nc = npot(int(t[2]))
            dropped = max(0, len(q) - nc)
            del q[:dropped]
            cap = nc
            want = "%d cap=%d" % (dropped, nc)
        elif t[1] == "size":
            want = str(len(q))
        if want is not None and a != want:
            bad.append("R1: ring<Tracked> is not the bounded FIFO: %s -> `%s`, reference answers `%s`" % (op, a, want))
            break
        if win != q:
            bad.append("R1: ring<Tracked> content after %s is %s, reference holds %s" % (op, win, q))
            break
    return bad


SPSC_OPS = ("new", "push", "pushm", "pop", "peek", "pushb", "popb")


def gen_spsc_case(rng, idx):
    """Same real rings, but the model side is the one-call-at-a-time execution of the SPSC interleaving model (Model/RingSpsc.lean,
    fresh reads): ties its count formulas, `% C` slot addressing and data movement to the code."""
    c = gen_ring_case(rng, idx)
    ops = [o for o in c["ops"] if o.split()[1] in SPSC_OPS]
    return {"cat": "ring-spsc", "ops": ["spsc" + o[4:] for o in ops], "cap": c["cap"], "base": 0}


def ring_monitor(c, impl):
    """FIFO / lossless / capacity-bounded, judged against the Python deque (implementation output only)."""
    bad = []
    if c["cat"] == "ring-wrap64":
        return bad    # counters cross 2^64 here: outside the property's hypothesis (needs 2^64 pushes); correspondence only
    ref = None
    for op, l in zip(c["ops"], impl):
        if l.startswith("crash:") or l.startswith("throw"):
            bad.append("R1: ring operation crashes/throws: %s -> %s" % (op, l))
            break
        t = op.split()
        if t[1] == "npot":
            n = int(t[2])
            if n <= 2 ** 63 and l != str(npot(n)):
                bad.append("R1: nextPowerOfTwo(%d) = %s, the least power of two >= %d is %d (a DynamicRingBuffer of that request gets a capacity "
                           "that is not a power of two: `& mask` no longer addresses every slot, items are lost/duplicated)" % (n, l, n, npot(n)))
                break
            continue
        if t[1] == "new":
            m = re.match(r"ok cap=(\d+)$", l)
            want = int(t[3]) if t[2] == "s" else npot(int(t[3]))
            if not m or int(m.group(1)) != want:
                bad.append("R1: capacity after construction: %s -> %s (want %d)" % (op, l, want))
                break
            ref = RefRing(want)
            continue
        if t[1] == "seed":
            continue
        want = ref.expect(op)
        got = l.split(" | ")[0]
        if want is not None and got != want:
            bad.append("R1: ring is not the bounded FIFO: %s -> `%s`, a FIFO of capacity %d answers `%s`" % (op, got, ref.cap, want))
            break
        m = re.search(r"h=(\d+) t=(\d+)$", l)
        if m and (int(m.group(1)) - int(m.group(2))) % 2 ** 64 > ref.cap:
            bad.append("R1: ring holds more than its capacity after %s: %s" % (op, l))
            break
    return bad


# ====================================================================================================== blocking queue, one caller
class RefBq:
    def __init__(self, cap):
        self.cap = cap
        self.q = collections.deque()
        self.closed = False

    def blocks(self, k):
        return (k in ("q", "qm") and len(self.q) >= self.cap and not self.closed) or (k == "d" and not self.q and not self.closed)

    def expect(self, op):
        t = op.split()
        k = t[1]
        q = self.q
        if k in ("q", "qm", "tq", "tqm", "tqf", "tqfm"):
            if self.closed or len(q) >= self.cap:
                return "0"
            q.append(int(t[2]))
            return "1"
        if k in ("d", "df", "td"):
            return "1 %d" % q.popleft() if q else "0"
        if k == "close":
            self.closed = True
            return "ok"
        if k == "destroy":
            return "ok"
        if k == "closed":
            return "1" if self.closed else "0"
        if k == "size":
            return str(len(q))
        if k == "empty":
            return "1" if not q else "0"
        if k == "full":
            return "1" if len(q) >= self.cap else "0"
        if k == "cap":
            return str(self.cap)
        return None


def timeout_token(rng):
    """time-out of a one-caller timed op: small values, and the values whose `now() + timeout` inside wait_for leaves the 64-bit
    nanosecond range unless the class saturates it (fix FC10a): milliseconds::max()/min(), 2^63 ns + a little, negative"""
    if rng.chance(1, 4):
        return rng.choice(["max", "min", "-1", "-5", "9223372036855", "9223372036854775", "3153600000000", "3153600000001"])
    return str(rng.choice([0, 1, 5]))


def gen_bq_case(rng, idx):
    cap = rng.choice([1, 1, 2, 3, 4, 8, rng.range(1, 8)])
    if rng.chance(1, 40):
        return {"cat": "bq-seq", "ops": ["bq new 0", "bq size"], "cap": 0}
    ops = ["bq new %d" % cap]
    ref = RefBq(cap)
    nxt = idx * 1000 + 1
    close_at = rng.range(0, 40) if rng.chance(2, 3) else 10 ** 9
    for i in range(rng.range(4, 40)):
        if i == close_at:
            ops.append("bq close")
            ref.expect("bq close")
            continue
        r = rng.below(100)
        if r < 40:
            k = rng.choice(["q", "qm", "tq", "tqm", "tqf", "tqfm"])
            if ref.blocks(k):
                k = rng.choice(["tq", "tqm", "tqf", "tqfm"]) if not rng.chance(1, 60) else k
            op = "bq %s %d" % (k, nxt) + (" %s" % timeout_token(rng) if k.startswith("tqf") else "")
            nxt += 1
        elif r < 75:
            k = rng.choice(["d", "df", "td"])
            if ref.blocks(k):
                k = rng.choice(["df", "td"]) if not rng.chance(1, 60) else k
            op = "bq %s" % k + (" %s" % timeout_token(rng) if k == "df" else "")
        elif r < 95:
            op = "bq " + rng.choice(["size", "empty", "full", "cap", "closed"])
        elif r < 98:
            op = "bq close"
        else:
            # the destructor with nobody inside (open or closed, empty or not), then a fresh queue
            ops += ["bq destroy", "bq size", "bq new %d" % cap]
            ref = RefBq(cap)
            close_at = 10 ** 9
            continue
        ops.append(op)
        if ref.blocks(op.split()[1]):
            break       # the single caller would block for ever: both sides answer `blocks` and the case ends
        ref.expect(op)
    return {"cat": "bq-seq", "ops": ops, "cap": cap}


def bq_seq_monitor(c, impl):
    bad = []
    ref = None
    for op, l in zip(c["ops"], impl):
        if l.startswith("crash:"):
            t = op.split()
            if t[1] in ("tqf", "tqfm", "df") and not re.match(r"\d{1,3}$", t[-1]):
                bad.append("Q: timed %s with time-out `%s` ms aborts under UBSan: wait_for's `now() + timeout` overflows the signed 64-bit nanosecond "
                           "count (undefined behaviour; without the sanitizer the deadline lies in the past and the call reports a time-out at once "
                           "instead of waiting): %s -> %s" % ("put" if t[1] != "df" else "take", t[-1], op, l[:160]))
            else:
                bad.append("Q: blocking-queue operation crashes: %s -> %s" % (op, l))
            break
        t = op.split()
        if t[1] == "new":
            if int(t[2]) == 0:
                if l != "throw invalid_argument":
                    bad.append("Q: BlockingQueue(0) must throw invalid_argument, got %s" % l)
                return bad
            ref = RefBq(int(t[2]))
            continue
        if ref is None:
            if l != "no-queue":
                bad.append("Q: %s after the destructor answered %s" % (op, l))
            continue
        if t[1] == "destroy":
            if l != "ok":
                bad.append("Q: ~BlockingQueue() with nobody inside did not return: %s" % l)
                break
            ref = None
            continue
        if ref.blocks(t[1]):
            if l != "blocks":
                bad.append("Q: %s on a %s open queue must block, got `%s`" % (op, "full" if t[1] != "d" else "empty", l))
            break
        if l in ("blocks", "steplimit"):
            bad.append("Q3/Q4: caller stays blocked although its condition holds: %s -> %s (size %d/%d closed=%s)" % (op, l, len(ref.q), ref.cap, ref.closed))
            break
        want = ref.expect(op)
        got = l.split(" | ")[0]
        if want is not None and got != want:
            bad.append("Q1/Q3: blocking queue is not the bounded FIFO: %s -> `%s`, reference answers `%s`" % (op, got, want))
            break
        m = re.search(r"n=(\d+) c=([01])$", l)
        if m and int(m.group(1)) > ref.cap:
            bad.append("Q2: queue holds %s > maxSize %d after %s" % (m.group(1), ref.cap, op))
            break
    return bad


# ====================================================================================================== blocking queue under DetSched
def gen_sched_case(rng, idx):
    """2-4 worker threads. Termination on a correct queue is guaranteed by construction: whenever a call that can block for ever
    (`q`, `d`) occurs, one thread (the closer) performs only timed/non-blocking calls and then `close()`."""
    nw = rng.choice([2, 2, 3, 3, 4])
    cap = rng.choice([1, 1, 2, 2, 3, 3, 4])
    style = rng.below(9)
    progs = []
    blocking = False
    if style == 8:
        # no closer, blocked producers on a pre-filled queue, takers that never wait for ever (tryDequeue / timed dequeue) or - `d` - that
        # come with a guaranteed supply: the filler's own `q`s.  Producers are timed (`f`, 10 ms: values not divisible by 3), so the program
        # terminates on a correct queue under every schedule and a producer that is not woken although space became available shows as a
        # forced time-out with a true predicate (sched_monitor `stuck`).
        cap = rng.choice([1, 2, 2, 3])
        fill = ["t0"] * cap
        nprod = rng.range(1, 3)
        prods = [["f0"] * rng.range(1, 2) for _ in range(nprod)]
        ntk = rng.range(1, 2)
        takes = [[rng.choice(["y", "y", "e"]) for _ in range(rng.range(1, 3))] for _ in range(ntk)]
        if rng.chance(1, 3):
            fill = fill + [rng.choice(["s", "y", "e"])]
        progs = [fill] + prods + takes
        if rng.chance(1, 3):
            tail = progs[1:]
            rng.shuffle(tail)
            progs = [fill] + tail
        for t, p in enumerate(progs, 1):
            for i, call in enumerate(p):
                if call[0] in "tf":
                    v = t * 100 + 3 * i          # unique per call; `f` values not divisible by 3 (harness: 10 ms instead of 0 ms)
                    if call[0] == "f" and v % 3 == 0:
                        v += 1
                    p[i] = "%s%d" % (call[0], v)
        return {"cat": "bq-sched", "cap": cap, "progs": progs, "seed": rng.next() % (2 ** 32), "style": 8,
                "timeoutOneIn": rng.choice([0, 0, 0, 30]), "spuriousOneIn": rng.choice([0, 0, 20])}
    if style >= 6:
        # balanced, no close: terminates on a correct queue whatever the schedule, and ONLY if no wake-up between put and take is lost
        # (close() cannot come to the rescue).  Consumers are blocking `d` and - every other case - also timed `e` takes: with
        # N = #d + #e puts and #e <= maxSize, every `d` eventually gets an item even if every `e` times out empty-handed, and no
        # producer stays blocked (at most #e items are left over).  A `d` that sleeps next to an `e` depends on wake-ups being
        # passed on correctly (seeded change C10-c).
        cap = rng.choice([2, 2, 3])
        mixed = style == 7
        nd = rng.range(1, 3)
        ne = rng.range(1, min(cap, 2)) if mixed else 0
        total = nd + ne
        ncons = rng.range(1, min(3, nd + ne)) if not mixed else rng.range(2, min(3, nd + ne))
        takes = [[] for _ in range(ncons)]
        kinds = ["d"] * nd + ["e"] * ne
        rng.shuffle(kinds)
        for i, k in enumerate(kinds):
            takes[i % ncons].append(k)
        np_ = rng.range(1, 2)
        puts = [0] * np_
        for _ in range(total):
            puts[rng.below(np_)] += 1
        progs = [["q0"] * k for k in puts if k] + [t for t in takes if t]
        for p in progs:
            if rng.chance(1, 4):
                p.insert(rng.below(len(p) + 1), "s")
        if rng.chance(1, 2):
            rng.shuffle(progs)
        else:
            progs = progs[::-1]     # consumers first: they tend to park before the puts arrive
        for t, p in enumerate(progs, 1):
            for i, call in enumerate(p):
                if call[0] == "q":
                    p[i] = "q%d" % (t * 100 + i)
        return {"cat": "bq-sched", "cap": cap, "progs": progs, "seed": rng.next() % (2 ** 32),
                "timeoutOneIn": rng.choice([8, 0, 0, 30]), "spuriousOneIn": rng.choice([0, 0, 20])}
    for w in range(1, nw + 1):
        n = rng.range(1, 5)
        if style == 0:      # producers / consumers
            kinds = ["q", "q", "f", "t"] if w % 2 else ["d", "d", "e", "y"]
        elif style == 1:    # one blocked consumer + others (the F01 shape)
            kinds = ["d"] if w == 1 else ["t", "q", "y", "s"]
            n = rng.range(1, 3)
        elif style == 2:    # full queue, blocked producers
            kinds = ["q", "q", "q", "f"] if w < nw else ["d", "e", "y"]
        elif style == 3:    # timed only
            kinds = ["f", "e", "t", "y", "s"]
        else:
            kinds = ["q", "f", "t", "d", "e", "y", "s"]
        p = []
        for i in range(n):
            k = rng.choice(kinds)
            if k in "qft":
                p.append("%s%d" % (k, w * 100 + i))
            else:
                p.append(k)
            if k in "qd":
                blocking = True
        progs.append(p)
    if blocking or rng.chance(1, 2):
        # the closer: only calls that cannot block for ever, then close (at a random point of the others' progress - the scheduler decides)
        pre = []
        for i in range(rng.range(0, 3)):
            k = rng.choice(["t", "f", "y", "e", "s"])
            pre.append("%s%d" % (k, (nw + 1) * 100 + i) if k in "tf" else k)
        post = [rng.choice(["y", "t%d" % ((nw + 1) * 100 + 50), "s", "e", "d", "q%d" % ((nw + 1) * 100 + 51)]) for _ in range(rng.range(0, 2))]
        closer = pre + ["c"] + post
        if len(progs) >= 4:
            progs = progs[:3]
        if rng.chance(1, 5) and progs:
            progs[rng.below(len(progs))].append("c")      # a SECOND close(), possibly concurrent with the closer's (idempotent: first one wins)
        progs.insert(rng.below(len(progs) + 1), closer)
    # unique item values: thread*100 + index (so every taken item identifies its producer and its position)
    for t, p in enumerate(progs, 1):
        for i, call in enumerate(p):
            if call[0] in "qft":
                p[i] = "%s%d" % (call[0], t * 100 + i)
    return {"cat": "bq-sched", "cap": cap, "progs": progs, "seed": rng.next() % (2 ** 32),
            "timeoutOneIn": rng.choice([8, 8, 4, 20, 0]), "spuriousOneIn": rng.choice([0, 0, 0, 30, 10])}


def sched_line(c):
    ps = "/".join(["-"] + [",".join(p) if p else "-" for p in c["progs"]])
    if "choices" in c:
        how = "ch:" + ",".join(map(str, c["choices"]))
    else:
        how = "seed:%d" % c["seed"]
    return "bq sched %d %s %s %d %d" % (c["cap"], ps, how, c.get("timeoutOneIn", 8), c.get("spuriousOneIn", 0))


def parse_sched_out(line):
    parts = line.split(" | ")
    if len(parts) != 5:
        return None
    status, evs, rets, choices, stuck = parts
    return {"status": status, "events": [] if evs == "-" else evs.split(" "), "rets": rets.split("/"),
            "choices": [int(x) for x in choices.split(",")] if choices else [], "stuck": [] if stuck == "-" else stuck.split(",")}


def model_schedule(events):
    """DetSched trace -> schedule of the Lean monitor model (one choice per event of a worker thread)."""
    out = []
    for e in events:
        f = e.split(".")
        t, k, d = f[0], f[1], f[2]
        if k == "O":
            out.append("o" + t)
        elif k == "P":
            out.append("p" + t)
        elif k == "N" and d[1:] not in ("-", ""):
            out.append("r%sa%s" % (t, d[1:]))
        elif k == "R" and d == "1":
            out.append("r%sa1" % t)
        else:
            out.append("r" + t)
    return out


def sched_reach(res, dist):
    """branch counters of one DetSched trace (measured on the implementation's own events): waits per condition variable and timed flag,
    how many sleepers a notify_one chose among / a notify_all woke, time-outs, spurious wake-ups, late reacquisitions"""
    asleep = {}
    for ev in res["events"]:
        f = ev.split(".")
        if len(f) < 3:
            continue
        t, k, d = f[0], f[1], f[2]
        if k == "W" and len(d) >= 2:
            dist["wait:%s:%s" % (d[0], "timed" if d[1] == "1" else "untimed")] += 1
            asleep[t] = d[0]
            n = sum(1 for v in asleep.values() if v == d[0])
            dist["sleepers-on-%s:%s" % (d[0], n if n < 3 else "3+")] += 1
        elif k == "N" and d:
            cand = [x for x, v in asleep.items() if v == d[0]]
            if d[1:] in ("-", ""):
                dist["notify_one:%s:nobody" % d[0]] += 1
            else:
                dist["notify_one:%s:woke-1-of-%s" % (d[0], len(cand) if len(cand) < 3 else "3+")] += 1
                asleep.pop(d[1:], None)
        elif k == "B" and d:
            n = len([x for x, v in asleep.items() if v == d[0]])
            dist["notify_all:%s:woke-%s" % (d[0], n if n < 2 else "2+")] += 1
            for x in [x for x, v in asleep.items() if v == d[0]]:
                asleep.pop(x)
        elif k == "O":
            dist["wake:timeout"] += 1
            asleep.pop(t, None)
        elif k == "P":
            dist["wake:spurious"] += 1
            asleep.pop(t, None)
        elif k == "R":
            dist["reacquire:late=%s" % d] += 1


def sched_monitor(c, res):
    """Property monitors on the implementation's own trace and results."""
    bad = []
    if res is None:
        return ["Q: harness produced no parsable result"]
    cap = c["cap"]
    st = res["status"]
    if st == "deadlock":
        asleep = [e for e in res["events"][-12:]]
        bad.append("Q3/Q4: a caller stays blocked for ever (lost wake-up): after this schedule no thread can run, yet not all calls returned; rets=%s last events=%s"
                   % ("/".join(res["rets"]), " ".join(asleep)))
        return bad
    if st == "steplimit":
        bad.append("Q4: the run does not terminate within the step limit (live-lock)")
        return bad
    if st == "diverged":
        return bad
    # Q4 without an eternal sleeper: a FORCED time-out (DetSched fires it only when NO thread is enabled) of a sleeper whose wait
    # predicate already holds (queue non-empty resp. not full, or closed) = a caller that stayed blocked while its condition held; the
    # timed wait merely papers over the lost wake-up.  Cannot fire on a correct queue: the state in which a time-out is forced is a
    # dead-locked state of the monitor model (no thread can run), where every sleeper's predicate is false (Iora.C10.Q4_no_lost_wakeup);
    # more generally a sleeper whose predicate holds always has a wake-up in the pipeline, i.e. an enabled or soon-enabled thread
    # (Iora.C10.Q4_wakeup_pending_in_every_state), so the runnable set is not empty.
    if res.get("stuck"):
        bad.append("Q4: a caller stays blocked while its condition holds (only a forced time-out releases it; lost wake-up): %s; rets=%s"
                   % (" ".join(res["stuck"]), "/".join(res["rets"])))
        return bad
    # capacity and flag at every scheduling point
    prev_closed = 0
    prev_n = None
    for i, e in enumerate(res["events"]):
        f = e.split(".")
        if f[3] == "?":
            continue
        n, cl = int(f[3]), int(f[4])
        if n > cap:
            bad.append("Q2: queue holds %d items > maxSize %d at scheduling point `%s`" % (n, cap, e))
            break
        if cl < prev_closed:
            bad.append("Q3: closed flag went back to false at `%s`" % e)
            break
        # "closing refuses further items", across threads: once the flag was seen set at a scheduling point, no later step of ANY thread
        # may push (the flag is monotone and every push is made under _mutex after re-reading it: Iora.C10.Q3_push_only_while_open).
        # A put that pushed BEFORE the flag was set is fine - then the previous point still shows closed = 0.
        if prev_closed == 1 and prev_n is not None and n > prev_n:
            who = int(f[0])
            call = " (a step of thread %d: %s)" % (who, ",".join(c["progs"][who - 1]) if 0 < who <= len(c["progs"]) else "?")
            bad.append("Q3: an item is put into a CLOSED queue: at step %d `%s`%s the queue grows %d -> %d although close() had already taken "
                       "effect at the previous scheduling point (closing must refuse further items - also from a producer that was asleep "
                       "on the full queue and is woken by a take followed by close()); rets=%s"
                       % (i, e, call, prev_n, n, "/".join(res["rets"])))
            break
        prev_closed = cl
        prev_n = n
    # results per thread
    puts = {}   # value -> producer thread
    put_order = {}
    taken = []
    for t, (prog, rets) in enumerate(zip([[]] + c["progs"], res["rets"])):
        if t == 0:
            continue
        if rets.endswith("*"):
            bad.append("Q3: thread %d did not finish its calls (%s of %s)" % (t, rets, ",".join(prog)))
            continue
        rl = [] if rets == "-" else rets.split(",")
        if len(rl) != len(prog):
            bad.append("Q: thread %d returned %d results for %d calls" % (t, len(rl), len(prog)))
            continue
        closed_by_me = False
        for call, r in zip(prog, rl):
            k = call[0]
            if k in "qft":
                if r == "1":
                    v = int(call[1:])
                    puts[v] = t
                    put_order.setdefault(t, []).append(v)
                    if closed_by_me:
                        bad.append("Q3: thread %d put %s successfully after its own close() returned" % (t, call))
            elif k in "dey":
                if r.startswith("1:"):
                    taken.append((t, int(r[2:])))
            elif k == "c":
                closed_by_me = True
    seen = set()
    for t, v in taken:
        if v not in puts:
            bad.append("Q1: thread %d took item %d that no successful put delivered" % (t, v))
        if v in seen:
            bad.append("Q1: item %d was taken twice" % v)
        seen.add(v)
    # per-producer order at each consumer
    by_cons = {}
    for t, v in taken:
        by_cons.setdefault(t, []).append(v)
    for ct, vs in by_cons.items():
        for p, order in put_order.items():
            sub = [v for v in vs if puts.get(v) == p]
            pos = [order.index(v) for v in sub if v in order]
            if pos != sorted(pos):
                bad.append("Q1: consumer %d received the items of producer %d out of order: %s (put order %s)" % (ct, p, sub, order))
    # conservation: what was put and not taken is still in the queue at the end
    if res["events"]:
        f = res["events"][-1].split(".")
        if f[3] != "?" and not [b for b in bad if b.startswith("Q3: thread")]:
            left = int(f[3])
            if len(puts) - len(seen & set(puts)) != left:
                bad.append("Q1: %d items put, %d taken, but %d remain queued at the end" % (len(puts), len(seen), left))
    return bad


# ====================================================================================================== run
def load_corpus():
    d = os.path.join(VERIF, "corpus", "C10")
    out = []
    if os.path.isdir(d):
        for fn in sorted(os.listdir(d)):
            if fn.endswith(".json"):
                c = json.load(open(os.path.join(d, fn)))
                c["corpus_file"] = fn
                out.append(c)
    return out


def replay(ctx):
    """Re-run a replay file against the real code (and the model); exit 1 if the failure is still there."""
    import shutil
    obj = json.load(open(ctx.replay))
    ops = obj.get("ops") or []
    ctx.translate(["orders", "bqskel"])
    ok_build = ctx.lake_build(MODULES)
    still = bool(ctx.violations)
    dist = collections.Counter()
    if ops and ops[0].startswith("g++"):
        m = re.search(r"\./t (\d+) (\d+)", ops[0])
        n0 = len(ctx.violations)
        run_tsan(ctx, int(m.group(1)) if m else 300, dist)
        still = len(ctx.violations) > n0
    elif ops:
        hb = ctx.build_harness(HARNESS, sanitize=True, flags=[DETSCHED])
        if hb and ops[0].startswith("bq sched"):
            out, rc, err = ctx.run_lines([hb], ops[:1], timeout=300)
            print("op    %s\n impl  %s" % (ops[0][:300], (out[0] if out else "crash rc=%s" % rc)[:600]))
            res = parse_sched_out(out[0]) if out else None
            c = {"cat": "bq-sched", "cap": obj.get("maxSize", int(ops[0].split()[2])), "progs": obj.get("program") or
                 [[] if p == "-" else p.split(",") for p in ops[0].split()[3].split("/")[1:]]}
            fails = sched_monitor(c, res) if out else ["crash"]
            for f in fails:
                print("PROPERTY FAILS:", f[:400])
            still = still or bool(fails)
        elif hb:
            cat = obj.get("category", "ring-dyn" if ops[0].startswith("ring") else "bq-seq")
            c = {"cat": cat, "ops": ops}
            (c, impl, model), = ctx.lockstep("queues", hb, [c])
            for o, a, b in zip(ops, impl, model):
                print("op    %s\n impl  %s\n model %s" % (o[:200], a[:200], b[:200]))
            fails = ringt_monitor(c, impl, collections.Counter()) if ops[0].startswith("ringt") else ring_monitor(c, impl) if cat.startswith("ring") else bq_seq_monitor(c, impl)
            for f in fails:
                print("PROPERTY FAILS:", f[:400])
            still = still or bool(fails) or impl != model
    else:
        print("replay: no op list in this file (kind=%s): the broken obligation is named in `broken`; re-run the check" % obj.get("kind"))
    print("replay: %s" % ("still failing" if still else "no longer failing"))
    shutil.rmtree(ctx.work, ignore_errors=True)
    return 1 if still else 0


def run(ctx: Ctx):
    if ctx.replay:
        return replay(ctx)
    quick = ctx.tier == "quick"
    scale = 1 if quick else 20
    rng = ctx.rng
    ctx.translate(["orders", "bqskel"])
    ok_build = ctx.lake_build(MODULES + ["iora_model"])
    if ok_build:
        ctx.audit(MODULES, OBLIGATIONS)
        if not quick:
            ctx.leanchecker(LEAN_MODULES)
    else:
        ctx.cov["obligations"] = len(OBLIGATIONS)
    hb = ctx.build_harness(HARNESS, sanitize=True, flags=[DETSCHED])
    dist = collections.Counter()
    if hb:      # the model driver depends on Model/* and Gen/* only: the dynamic layers run even when a theorem no longer builds
        corpus = load_corpus()
        seq_cases = [c for c in corpus if c.get("cat") != "bq-sched" and "ops" in c]
        r1 = rng.fork("ring")
        for i in range(2500 * scale):
            seq_cases.append(gen_ring_case(r1, i, wrap64=(i % 25 == 24)))
        r1c = rng.fork("npot")
        for i in range(150 * scale):
            seq_cases.append(gen_npot_case(r1c, i))
        r1d = rng.fork("ringt")
        for i in range(500 * scale):
            seq_cases.append(gen_ringt_case(r1d, i))
        r1b = rng.fork("spsc")
        for i in range(600 * scale):
            seq_cases.append(gen_spsc_case(r1b, i))
        r2 = rng.fork("bqseq")
        for i in range(1200 * scale):
            seq_cases.append(gen_bq_case(r2, i))
        run_sequential(ctx, hb, seq_cases, dist)
        sched_cases = [c for c in corpus if c.get("cat") == "bq-sched"]
        r3 = rng.fork("sched")
        for i in range(2000 * scale):
            sched_cases.append(gen_sched_case(r3, i))
        run_sched(ctx, hb, sched_cases, dist)
        run_explore(ctx, hb, quick, dist)
    run_tsan(ctx, 150 if quick else 6000, dist)
    ctx.extra["input_distribution"] = dict(dist)
    ctx.extra["repo_tree_sha"] = ctx.repo_tree_sha(ANCHOR_FILES)
    ctx.extra["not_proved"] = NOT_PROVED
    ctx.assumptions += [
        "code between two pthread calls is one atomic step (DetSched granularity = Monitor.lean granularity); justified for the blocking queue because every access to _queue and every write of _closed is under _mutex (obligation skeleton_disciplined)",
        "pthread mutex/condvar semantics as modelled in Model/Monitor.lean (atomic release-and-sleep, notify wakes only current sleepers, spurious and timed wake-ups)",
        "ring counters do not overflow 2^64 (needs 2^64 pushes; tryPop's raw `tail >= head` test is not overflow-safe - recorded as an observation; the UInt64 model reproduces the code's behaviour there and is lockstep-checked in category ring-wrap64)",
        "destruction: ~BlockingQueue() is close(); C++ lifetime rules require that no thread is still inside a member function",
        "element type: uint64_t everywhere except the `ringt` cases (both ring classes with Tracked{id, alive}: move leaves a husk, the K-th assignment of a call can throw before modifying anything); an operator= that throws AFTER partially modifying its target, and a throwing element in the BlockingQueue (std::deque::push_back strong guarantee), are outside the check",
        "`now() + timeout` inside libstdc++'s wait_for is in range because the class clamps the caller's timeout to [0, 100 years] (fix FC10a, shape pinned by the translator); under DetSched a timed wait times out in virtual time, so the numeric deadline itself is not compared with the model",
        "blocking-queue race-freedom = every access to _queue and every write of _closed under _mutex (extracted skeleton, decide) + `const _maxSize` + no unknown member function (translator) + TSan MPMC soak of the real class as the search; it is not a theorem about the C++ memory model",
    ]
    return ctx.finish(level="proof", rule="a case = one self-contained op list on a fresh ring / blocking queue (lockstep with the model), or one multi-threaded program run under one "
                      "DetSched schedule (random schedules are replayed step by step through the Lean monitor model; enumerated schedules of the small `explore` "
                      "programs are judged by the implementation-only monitors), or one TSan soak configuration; distinct = distinct op lists resp. distinct "
                      "(program, schedule) pairs (an explore program counts once as distinct, its schedules count as evaluations); non-trivial = at least one "
                      "successful put and one take (sequential), resp. at least two context switches (schedules)")


EXPLORE = [
    # (maxSize, programs, preemption bound in quick, in thorough; None = EVERY schedule).  Every program terminates on a correct queue under
    # every schedule.  With a bound K the harness enumerates every schedule with at most K preemptions (choosing another thread, or a time-out,
    # while the thread that ran last is still enabled); which thread runs when the current one blocks/finishes and which sleeper a notify_one
    # wakes are free choices (harness/c10_queues.cpp `bq explore`).
    (4, "-/d/c", None, None), (1, "-/q1/d", None, None), (1, "-/e/t1", None, None), (1, "-/q1,q2/c", None, None),
    (1, "-/q1,c/d", 2, None), (2, "-/f1,c/y", 2, None), (1, "-/q1,q2/d,d", 2, None), (1, "-/q1,q2,q3/d,d,d", 2, 3),
    (1, "-/q1/q2/d,d", 1, 2), (1, "-/d/d/q1,c", 1, 2), (2, "-/q1,q3/d/c", 0, 2), (1, "-/q1/d/c", 0, 2),
    # several waiters parked on ONE condition variable with room for several items (maxSize >= 2): a put/take that skips its notify_one because
    # "the queue was not empty/full" strands the second waiter (seeded change C10-a and its producer-side mirror) - visible with 0 preemptions
    (2, "-/q1,q2/d/d", 1, 2), (2, "-/q1/q2/d/d", 0, 1), (3, "-/q1,q2,q3/d/d/d", 0, 0), (2, "-/q1,q2,c/d/d", 0, 1),
    (2, "-/t1,t2/q3/q4/d,d", 0, 1), (2, "-/t1,t2,d,d/q3/q4", 1, 2), (2, "-/e/e/q1,q2", 0, 1),
    # MIXED waiters (timed + untimed) on one condition variable, no closer, maxSize >= 2: a wake-up that lands on the timed waiter must
    # still reach the other one (seeded change C10-c: edge-triggered notify, cascade only in the untimed dequeue)
    (2, "-/e/d/q1,q2", 0, 1), (2, "-/d/e/q1,q2", 0, 1), (2, "-/e/d/q1/q2", 0, 1), (3, "-/e/d/d/q1,q2,q3", 0, 0),
    # blocked PRODUCERS on a pre-filled queue released by NON-BLOCKING / timed takers only (tryDequeue `y`, timed dequeue `e`): a take that
    # notifies only "when the queue was full" strands the second producer (review T2: conditional notify in tryDequeue).  Timed producers `f`
    # (10 ms, values not divisible by 3) make the programs terminate on a correct queue under EVERY schedule, also when the takers run before
    # the fill; the stranded producer shows as a forced time-out with a true predicate.  The `q` variants are explored from the fill on.
    (2, "-/t1,t2/f4/f5/y,y", 0, 1), (2, "-/t1,t2/f4/f5/e,e", 0, 1), (2, "-/t1,t2/f4/f5/y/y", 0, 1), (3, "-/t1,t2,t4/f5/f7/y,y,y", 0, 0),
    (2, "-/t1,t2,s,y,y/q4/q5", 1, 2), (2, "-/t1,t2,s,e,e/q4/q5", 1, 2),
]


def run_explore(ctx, hb, quick, dist):
    """Systematic enumeration of the schedules of small programs on the real class (all of them, or all with at most K preemptions):
    DetSched records the alternatives of every decision; the harness walks the tree depth-first, completing every prefix without
    preemptions, and judges every leaf with the implementation-only monitors."""
    lines = []
    bounds = []
    for cap, progs, kq, kt in EXPLORE:
        k = kq if quick else kt
        bounds.append(k)
        lines.append("bq explore %d %s %d%s" % (cap, progs, 3000 if quick else 12000, "" if k is None else " %d" % k))
    out, rc, err = ctx.run_lines([hb], lines, timeout=3000)
    total = 0
    complete = 0
    for (cap, progs, _, _), k, line, l in zip(EXPLORE, bounds, lines, out + ["crash:rc=%s" % rc] * (len(lines) - len(out))):
        m = re.match(r"explored=(\d+) bound=(\S+) complete=([01]) deadlocks=(\d+) bad=(\d+) maxn=(\d+) outcomes=(\d+) maxlen=(\d+) first=(\S+)$", l)
        if not m:
            ctx.violation("property", "Q: schedule enumeration of `%s` crashed the harness: %s" % (progs, l[:200]),
                          {"ops": [line], "observed": [l, err[-500:]]}, found_input=True)
            break
        n, comp, dl, bad = int(m.group(1)), int(m.group(3)), int(m.group(4)), int(m.group(5))
        total += n
        complete += comp
        dist["explore:schedules"] += n
        dist["explore:bound=%s" % m.group(2)] += 1
        ctx.cov["traces_validated_against_impl"] += n
        ctx.count_case("explore:%d:%s:%s:%d" % (cap, progs, m.group(2), n), nontrivial=True)
        ctx.cov["evaluations"] += n - 1
        if bad:
            why, _, ch = m.group(9).partition("@")
            ops = ["bq sched %d %s ch:%s 8 0" % (cap, progs, ch)]
            ctx.violation("property", "%s: %d of the %d enumerated schedules (%s) of the program `%s` (maxSize %d) violate the property on the real class; first: %s"
                          % ("Q3/Q4" if (dl or why.startswith("blocked")) else "Q1/Q2", bad, n, "all schedules" if k is None else "at most %d preemptions" % k, progs, cap, why.replace("_", " ")),
                          {"ops": ops, "program": [[] if p == "-" else p.split(",") for p in progs.split("/")[1:]], "maxSize": cap,
                           "schedule_choices": [int(x) for x in ch.split(",")] if ch else [], "observed": [l], "enumeration": line},
                          found_input=True, cls="property:enumeration")
    ctx.extra["explore_schedules_enumerated"] = total
    ctx.extra["explore_programs_exhausted"] = "%d of %d enumerations complete (all schedules, or all schedules within the stated preemption bound)" % (complete, len(EXPLORE))


def run_tsan(ctx, ms, dist):
    """Search for a real racing execution: SPSC soak of both ring classes built with ThreadSanitizer (no DetSched)."""
    tb = ctx.build_harness("harness/c10_ring_tsan.cpp", name="c10_ring_tsan", sanitize=False, flags=["-fsanitize=thread"])
    if not tb:
        return
    seed = ctx.rng.fork("tsan").next() % 10 ** 6
    rc, out = 0, ""
    try:
        import subprocess
        e = dict(os.environ)
        e["TSAN_OPTIONS"] = "exitcode=66 halt_on_error=0 report_signal_unsafe=0"
        p = subprocess.run([tb, str(ms), str(seed)], stdout=subprocess.PIPE, stderr=subprocess.PIPE, timeout=600 + ms // 100, env=e)
        rc, out, err = p.returncode, p.stdout.decode("utf-8", "replace"), p.stderr.decode("utf-8", "replace")
    except Exception as ex:
        raise RuntimeError("tsan soak could not run: %s" % ex)
    # machinery first: a sanitizer that could not start, or a harness that printed nothing, is not a verdict about the property
    if "FATAL: ThreadSanitizer" in err or not out.strip():
        raise RuntimeError("tsan soak did not run properly rc=%s: %s" % (rc, err[-400:]))
    items = 0
    cmd = "g++ -std=c++17 -O1 -g -fsanitize=thread -I$VERIF_REPO/include harness/c10_ring_tsan.cpp -o t -lpthread && TSAN_OPTIONS=exitcode=66 ./t %d %d" % (ms, seed)
    for l in out.splitlines():
        m = re.match(r"(\S+) items=(\d+) fifo=(.*) maxsize=(\d+) cap=(\d+)$", l)
        if not m:
            continue
        dist["tsan:" + m.group(1)] += 1
        items += int(m.group(2))
        ctx.count_case("tsan:%s:%d:%d" % (m.group(1), seed, ms), nontrivial=int(m.group(2)) > 0)
        tag = "Q1" if m.group(1).startswith("bq-") else "R2"
        if m.group(3) != "ok":
            ctx.violation("property", "%s: concurrent run of the real %s is not FIFO/lossless: %s" % (tag, "BlockingQueue" if tag == "Q1" else "ring", l),
                          {"ops": [cmd], "observed": out.splitlines()}, found_input=True)
        if int(m.group(4)) > int(m.group(5)):
            ctx.violation("property", "%s: size() sampled above capacity in a concurrent run: %s" % ("Q2" if tag == "Q1" else "R2", l),
                          {"ops": [cmd], "observed": out.splitlines()}, found_input=True)
    ctx.extra["tsan_items_transferred"] = items
    ctx.extra["tsan_ms_per_configuration"] = ms
    n = err.count("WARNING: ThreadSanitizer: data race")
    ctx.extra["tsan_reports"] = n
    ctx.extra["tsan_other_warnings"] = err.count("WARNING: ThreadSanitizer") - n   # (thread leak, signal-unsafe call …: not a verdict on the property)
    if n:
        first = err[err.find("WARNING: ThreadSanitizer: data race"):][:2500]
        where = [(a, "%s.hpp:%s" % (f, n)) for a, f, n in re.findall(r"#0 (iora::core::[^\n]*?)\s/\S*(ring_buffer|blocking_queue)\.hpp:(\d+)", first)]
        ctx.violation("property", "R3/Q: ThreadSanitizer reports a data race inside the stated contract (SPSC ring / MPMC blocking queue): %s"
                      % "; ".join("%s %s" % w for w in where[:2]),
                      {"ops": [cmd], "tsan_report": first, "reports": n, "observed": out.splitlines()}, found_input=True)
    elif rc != 0:
        ctx.violation("property", "R2/Q: the concurrent soak of the real classes crashed after producing output, rc=%d: %s" % (rc, err[-300:]),
                      {"ops": [cmd], "observed": out.splitlines()}, found_input=True)


def seq_reach(c, impl, dist):
    """branch counters of a sequential case, from the implementation's answers"""
    cap = None
    for op, l in zip(c["ops"], impl):
        t = op.split()
        a = l.split(" | ")[0]
        if t[0] in ("ring", "spsc"):
            if t[1] == "new":
                m = re.match(r"ok cap=(\d+)$", l)
                cap = int(m.group(1)) if m else None
                if cap is not None:
                    dist["ring:cap:%s" % ("<=64" if cap <= 64 else "<=512" if cap <= 512 else "<=65536" if cap <= 65536 else ">65536")] += 1
            elif t[1] == "npot":
                n = int(t[2])
                dist["npot:arg:%s" % ("<=2^8" if n <= 256 else "<=2^16" if n <= 65536 else "<=2^32" if n <= 2 ** 32 else "<=2^63" if n <= 2 ** 63 else ">2^63(wraps to 0)")] += 1
            elif t[1] == "resize":
                m = re.match(r"(\d+) cap=(\d+)", a)
                if m:
                    nc = int(m.group(2))
                    dist["resize:%s%s" % ("grow" if cap is not None and nc > cap else "shrink" if cap is not None and nc < cap else "same",
                                          ":drop" if int(m.group(1)) else "")] += 1
                    dist["resize:newcap:%s" % ("<=64" if nc <= 64 else "<=512" if nc <= 512 else "<=65536" if nc <= 65536 else ">65536")] += 1
                    cap = nc
            elif t[1] in ("push", "pushm"):
                dist["ring:push:%s" % ("ok" if a == "1" else "full")] += 1
            elif t[1] == "pop":
                dist["ring:pop:%s" % ("item" if a.startswith("1") else "empty")] += 1
            elif t[1] == "pushb":
                k = 0 if t[2] == "-" else t[2].count(",") + 1
                dist["ring:pushb:%s" % ("all" if a == str(k) else "none" if a == "0" else "partial")] += 1
            elif t[1] == "popb":
                dist["ring:popb:%s" % ("all" if a.split()[0] == t[2] else "none" if a.split()[0] == "0" else "partial")] += 1
        elif t[0] == "bq":
            if t[1] in ("tqf", "tqfm", "df"):
                to = t[-1]
                kind = "small" if re.match(r"\d{1,3}$", to) else "negative" if to.startswith("-") or to == "min" else "huge(>=100y)"
                dist["bq:timed:%s:timeout=%s:%s" % ("put" if t[1] != "df" else "take", kind, "ok" if a.startswith("1") else "refused" if a == "0" else a.split(":")[0])] += 1


def run_sequential(ctx, hb, cases, dist):
    res = ctx.lockstep("queues", hb, cases)
    n_mismatch = 0
    for c, impl, model in res:
        dist[c["cat"]] += 1
        nontrivial = any(l.startswith("1 ") for l in impl) and any(l.split(" | ")[0] == "1" for l in impl)
        ctx.count_case("\n".join(c["ops"]), nontrivial=nontrivial)
        for op in c["ops"]:
            dist["op:" + " ".join(op.split()[:2])] += 1
        seq_reach(c, impl, dist)
        if len(ctx.cov["samples"]) < 4 and ctx.rng.chance(1, 400):
            ctx.sample({"cat": c["cat"], "ops": c["ops"][:12], "impl": impl[:12]})
        fails = ringt_monitor(c, impl, dist) if c["cat"] == "ring-throw" else ring_monitor(c, impl) if c["cat"].startswith("ring") else bq_seq_monitor(c, impl) if c["cat"] == "bq-seq" else []
        mism = [(i, a, b) for i, (a, b) in enumerate(zip(impl, model)) if a != b]
        if fails:
            report_seq(ctx, hb, c, impl, model, fails)
        elif mism:
            n_mismatch += 1
            if n_mismatch <= 3:
                i, a, b = mism[0]
                ctx.violation("correspondence", "model and implementation disagree (no property monitor fails on this case): op `%s` impl=`%s` model=`%s`"
                              % (c["ops"][i][:120], a[:120], b[:120]),
                              {"broken": {"correspondence": "queues lockstep (harness/c10_queues.cpp vs Model/RingBuffer.lean, Model/BlockingQueue.lean)",
                                          "detail": "first differing op index %d" % i},
                               "ops": c["ops"], "observed": impl, "expected_by_model": model}, found_input=False)


def report_seq(ctx, hb, c, impl, model, fails):
    ops = c["ops"]
    if not ctx.violation_budget("property", fails[0]):
        ctx.violation("property", fails[0])
        return
    mon = (lambda cc, out: ringt_monitor(cc, out, collections.Counter())) if c["cat"] == "ring-throw" else ring_monitor if c["cat"].startswith("ring") else bq_seq_monitor
    head = ops[:2] if len(ops) > 1 and ops[1].split()[1] == "seed" else ops[:1]

    def still(sub):
        sub = head + sub
        out, rc, err = ctx.run_lines([hb], sub, timeout=60)
        out = out + ["crash:" + str(rc)] * (len(sub) - len(out))
        cc = dict(c)
        cc["ops"] = sub
        return bool([f for f in mon(cc, out) if f.split(":")[0] == fails[0].split(":")[0]])
    try:
        body = ops[len(head):]
        if len(body) > 1 and still(body):
            ops = head + ddmin(body, still, max_tests=80)
    except Exception:
        pass
    out, rc, err = ctx.run_lines([hb], ops, timeout=60)
    ctx.violation("property", fails[0], {"ops": ops, "observed": out, "expected_by_model": model if ops is c["ops"] else None,
                                         "failures": fails[:5], "category": c["cat"]}, found_input=True)


def run_sched(ctx, hb, cases, dist):
    lines = [sched_line(c) for c in cases]
    out, rc, err = ctx.run_lines([hb], lines, timeout=1200)
    pos = 0
    outs = list(out)
    # a harness crash inside a schedule: restart after the crashing case
    while len(outs) < len(lines):
        k = len(outs)
        outs.append("crash:" + ("rc=%s %s" % (rc, err[-300:].replace("\n", " "))))
        if k + 1 >= len(lines):
            break
        more, rc, err = ctx.run_lines([hb], lines[k + 1:], timeout=1200)
        outs += more
        if not more:
            while len(outs) < len(lines):
                outs.append("crash:repeated")
    replay_lines = []
    parsed = []
    for c, l in zip(cases, outs):
        res = parse_sched_out(l)
        parsed.append(res)
        if res is None or res["status"] != "ok":
            replay_lines.append("bq replay %d %s -" % (c["cap"], "/".join(["-"] + [",".join(p) if p else "-" for p in c["progs"]])))
        else:
            sch = model_schedule(res["events"])
            replay_lines.append("bq replay %d %s %s" % (c["cap"], "/".join(["-"] + [",".join(p) if p else "-" for p in c["progs"]]), ",".join(sch) if sch else "-"))
    mout, mrc, merr = ctx.run_lines(ctx.model_argv("queues"), replay_lines, timeout=1200)
    if mrc != 0 or len(mout) != len(replay_lines):
        raise RuntimeError("model driver failed on schedule replay rc=%s lines=%d/%d %s" % (mrc, len(mout), len(replay_lines), merr[-300:]))
    n_mismatch = 0
    steps = 0
    for c, l, res, ml in zip(cases, outs, parsed, mout):
        dist[c["cat"]] += 1
        dist["threads:%d" % len(c["progs"])] += 1
        if l.startswith("crash:"):
            ctx.violation("property", "Q: the real BlockingQueue crashes under a DetSched schedule: %s" % l[:200],
                          {"ops": [sched_line(c)], "observed": [l]}, found_input=True)
            continue
        if res is not None:
            dist["status:" + res["status"]] += 1
            steps += len(res["events"])
            for e in res["events"]:
                dist["ev:" + e.split(".")[1]] += 1
            sched_reach(res, dist)
            if "style" in c:
                dist["sched-style:%s" % c["style"]] += 1
            for prog, rets in zip(c["progs"], res["rets"][1:]):
                rl = [] if rets.rstrip("*") in ("-", "") else rets.rstrip("*").split(",")
                for call, r in zip(prog, rl):
                    dist["ret:%s=%s" % (call[0], r[0])] += 1
            ncl = sum(1 for p in c["progs"] for call in p if call == "c")
            if ncl >= 2:
                dist["sched:two-or-more-close-calls"] += 1
            dist["sched:maxSize=%d" % c["cap"]] += 1
            switches = sum(1 for a, b in zip(res["events"], res["events"][1:]) if a.split(".")[0] != b.split(".")[0])
            ctx.count_case(sched_line(c) + "|" + ",".join(map(str, res["choices"])), nontrivial=switches >= 2)
        else:
            ctx.count_case(sched_line(c), nontrivial=False)
        if res is not None and res["status"] != "diverged":
            ctx.cov["traces_validated_against_impl"] += 1
        if len(ctx.cov["samples"]) < 6 and ctx.rng.chance(1, 300) and res:
            ctx.sample({"cat": "bq-sched", "line": sched_line(c), "events": res["events"][:30], "rets": res["rets"]})
        is_corpus = "corpus_file" in c
        fails = sched_monitor(c, res)
        if is_corpus and res is not None and res["status"] == "diverged":
            fails = []   # a recorded witness schedule no longer applies to this tree: fine (it must not dead-lock)
        if fails:
            report_sched(ctx, hb, c, l, res, ml, fails)
            continue
        if res is None or res["status"] != "ok":
            continue
        mev, _, mrets = ml.partition(" | ")
        iev = " ".join(res["events"]) if res["events"] else "-"
        irets = "/".join(res["rets"])
        if mev != iev or mrets != irets:
            n_mismatch += 1
            if n_mismatch <= 3:
                me, ie = mev.split(" "), iev.split(" ")
                k = next((i for i, (a, b) in enumerate(zip(me, ie)) if a != b), min(len(me), len(ie)))
                ctx.violation("correspondence", "monitor model and real BlockingQueue disagree on a DetSched schedule (no property monitor fails): step %d impl=`%s` model=`%s`; results impl=%s model=%s"
                              % (k, ie[k] if k < len(ie) else "-", me[k] if k < len(me) else "-", irets, mrets),
                              {"broken": {"correspondence": "bq-sched trace replay (harness/c10_queues.cpp + detsched vs Model/Monitor.lean + Model/BlockingQueue.lean)",
                                          "detail": "first differing step %d" % k},
                               "ops": [sched_line(dict(c, choices=res["choices"]))], "observed": [l], "expected_by_model": [ml]}, found_input=False)
    ctx.extra["sched_steps_replayed_through_model"] = steps


def report_sched(ctx, hb, c, l, res, ml, fails):
    if not ctx.violation_budget("property", fails[0]):
        ctx.violation("property", fails[0])
        return
    cc = dict(c)
    if res is not None and res.get("choices"):
        cc["choices"] = res["choices"]
    line = sched_line(cc)
    # replay by choice list once more before reporting
    out, rc, err = ctx.run_lines([hb], [line], timeout=120)
    again = parse_sched_out(out[0]) if out else None
    reproduced = bool(sched_monitor(c, again)) if again is not None else None
    ctx.violation("property", fails[0], {"ops": [line], "program": c["progs"], "maxSize": c["cap"], "schedule_choices": cc.get("choices"),
                                         "observed": [l], "replayed_deterministically": reproduced, "failures": fails[:5],
                                         "model_replay": ml[:400]}, found_input=True)
