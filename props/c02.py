"""C02 — Every session gets exactly one close; nothing before announce or after close (DESIGN §7 C02)."""
import json, os, re, time
from vlib.core import Ctx, ddmin

ID = "C02"
MODULES = ["IoraModel.Props.C02"]
LEANCHECK = ["IoraModel.Model.LifecycleCore", "IoraModel.Model.EngineLifecycle", "IoraModel.Model.CloseFanout", "IoraModel.Model.LifecycleSites",
             "IoraModel.Lemmas.LifecycleCore", "IoraModel.Lemmas.LifecycleInv", "IoraModel.Lemmas.EngineLifecycle", "IoraModel.Lemmas.EngineSteps", "IoraModel.Lemmas.EngineStale",
             "IoraModel.Lemmas.EngineFlags", "IoraModel.Lemmas.EngineCloseReq", "IoraModel.Model.FdTags", "IoraModel.Lemmas.FdTags", "IoraModel.Lemmas.CloseFanout", "IoraModel.Model.CloseDeliver", "IoraModel.Lemmas.CloseDeliver", "IoraModel.Lemmas.CloseDeliverCompose",
             "IoraModel.Props.C02"]
OBLIGATIONS = [
    {"id": "C02_sites_tcp", "theorem": "Iora.C02.closeSites_covered_tcp", "kind": "proved",
     "statement": "the lifecycle sites of tcp_engine.hpp (function, kind, guard hash incl. every earlier jump-terminated block, source order) equal the model's table"},
    {"id": "C02_sites_udp", "theorem": "Iora.C02.closeSites_covered_udp", "kind": "proved",
     "statement": "the lifecycle sites of udp_engine.hpp equal the model's table"},
    {"id": "C02_sites_bij", "theorem": "Iora.C02.closeSites_bijective", "kind": "proved",
     "statement": "source close sites <-> close transitions of the model: injective per engine, every Site constructor covered"},
    {"id": "C02_skeletons", "theorem": "Iora.C02.skeletons_conform", "kind": "proved",
     "statement": "loop / dispatch / drain / connect / enqueue call orders, the epoll mask of a new connect (IN|OUT), the updateInterest formula (connectPending keeps OUT) and the "
                  "Transport close-handler / observe / unobserve / setSessionData call orders WITH their lock acquisitions are the ones the model assumes"},
    {"id": "C02_api_skeletons", "theorem": "Iora.C02.api_skeletons_conform", "kind": "proved",
     "statement": "translator: close(sid) of both engines is exactly `return enqueue(Close sid)`; the three TimerService handlers are exactly one enqueue of a Close with the "
                  "matching CloseOrigin; start() re-opens the queue and spawns the loop without touching session maps or the id counter; `_nextSessionId` has no textual use besides "
                  "its declaration (initial value = the model's) and the post-increments of the site table (no store / assignment: no id reuse across restart)"},
    {"id": "C02_peer_erase", "theorem": "Iora.C02.udp_peer_erase_guarded", "kind": "proved",
     "statement": "translator: both _peerIndex.erase sites of UdpEngine are guarded by `entry maps to the closing session` (F17) - the flags the driver instantiates the model with"},
    {"id": "C02_T2_close_req", "theorem": "Iora.C02.T2_close_request_honoured", "kind": "proved",
     "statement": "an accepted close() request is honoured: for every history is1, id seen by then, close(sid) while the queue accepts commands, and every continuation is2 "
                  "(API calls, timers, I/O events, faults, stop, restart) after which the I/O thread has no command left, the id has its close notification"},
    {"id": "C02_atomics", "theorem": "Iora.C02.atomics_and_callback_copies", "kind": "proved",
     "statement": "translator: _nextSessionId is std::atomic<SessionId> in both engines; every direct closeCb(...) call site has its own locked copy of _cbs.onClose"},
    {"id": "C02_reach", "theorem": "Iora.C02.reachable", "kind": "proved",
     "statement": "the lifecycle invariant (table, queues, id counter, gauge, peer index vs the emitted trace) holds after every history on both engines"},
    {"id": "C02_reach2", "theorem": "Iora.C02.reachable2", "kind": "proved",
     "statement": "after every history on both engines: no dangling access, a session's connect callback has fired iff its flag says so, and no second connect callback was ever delivered"},
    {"id": "C02_T1", "theorem": "Iora.C02.T1_at_most_one_close", "kind": "proved",
     "statement": "for every config and history, every id occurs in at most one close notification (TCP and UDP)"},
    {"id": "C02_T2", "theorem": "Iora.C02.T2_exactly_one_close_after_stop", "kind": "proved",
     "statement": "after the shutdown drain every id returned by connect()/connectViaListener() or announced is closed exactly once"},
    {"id": "C02_T2_running", "theorem": "Iora.C02.T2_open_ids_are_tracked", "kind": "proved",
     "statement": "while running, every seen and not yet closed id is pending in the queue or live in the table (the SAFETY rendering of `eventually closed`; no liveness claim)"},
    {"id": "C02_T3a", "theorem": "Iora.C02.T3_nothing_after_close", "kind": "proved",
     "statement": "trace level, unconditional: in every trace of every history, no accept/connect/data/close event for an id follows a close of that id"},
    {"id": "C02_T3b", "theorem": "Iora.C02.T3_announce_at_most_once", "kind": "proved",
     "statement": "trace level, unconditional: at most one accept callback and at most one connect callback per id"},
    {"id": "C02_T3c_udp", "theorem": "Iora.C02.T3_data_after_announce_udp", "kind": "proved",
     "statement": "UDP, unconditional: every data callback of an id is preceded by its accept/connect callback"},
    {"id": "C02_T3c_tcp", "theorem": "Iora.C02.T3_data_after_announce_tcp", "kind": "proved",
     "statement": "TCP: every data callback of an id is preceded by its accept/connect callback in every history whose INPUTS honour the environment contract "
                  "Tcp.envOkHistory (no payload is offered to a plain client socket whose connect completion has not been reported in the same or an earlier event)"},
    {"id": "C02_T3_state", "theorem": "Iora.C02.T3_live_entries_not_closed", "kind": "proved",
     "statement": "a live table entry has never been closed: no handler can emit for a closed id"},
    {"id": "C02_T4", "theorem": "Iora.C02.T4_ids_strictly_increase", "kind": "proved",
     "statement": "allocated ids strictly increase along every history; every id in any event is below the counter"},
    {"id": "C02_T5_shape", "theorem": "Iora.C02.T5_fanout_shape", "kind": "proved",
     "statement": "close fan-out = [global] ++ observers registered at snapshot time in registration order each once ++ [cleanup], whatever the callbacks do"},
    {"id": "C02_T5_once", "theorem": "Iora.C02.T5_fanout_once", "kind": "proved",
     "statement": "after a close the session's observers and user data are gone: a second close reaches the global callback only"},
    {"id": "C02_T5_order", "theorem": "Iora.C02.T5_observers_registration_order", "kind": "proved",
     "statement": "for every observe/unobserve/setSessionData/close history the observer list is strictly increasing in id (= registration order, each once) and agrees with the index"},
    {"id": "C02_deliver_tie", "theorem": "Iora.C02.delivery_skeletons_conform", "kind": "proved",
     "statement": "translator: the syncMutex block of the Transport close handler and the entry of Transport::setReadMode are statement by statement what Model/CloseDeliver.lean mirrors; "
                  "readModes.erase(sid) is unconditional (seed C02-c), setReadMode is vacuous (returns true, no effect) for a closed tombstone before touching readModes (repair FC02a), "
                  "and the handler runs that block BEFORE the global close callback and the observers (closeMarksBeforeCallbacks = true, repair FC03c)"},
    {"id": "C02_deliver_variant", "theorem": "Iora.C02.delivery_variant_sound", "kind": "proved",
     "statement": "the model instance the lockstep driver runs (three variant flags = the Gen facts, incl. the handler order) is the sound variant the T3 Transport theorems are about"},
    {"id": "C02_T3_transport", "theorem": "Iora.C02.T3_no_delivery_after_close_transport", "kind": "proved",
     "statement": "Transport level, repaired handler order (marked closed BEFORE the close callbacks): for every history of engine callbacks (accept/connect/data, and the close handler as its "
                  "two halves closeMark / closeCbs; any ids and payloads) and complete application calls (setReadMode to any mode, receiveSync of any length, on open, closed or unknown ids - "
                  "ALSO between the two halves of a handler run, i.e. on another thread while the close callbacks run) in which the engine honours `nothing after its close` (T3a), no "
                  "accept/connect/data callback for an id follows the start of its close callbacks - the buffered tail of a Sync/Disabled session is never flushed during or after the close"},
    {"id": "C02_T3_end_to_end", "theorem": "Iora.C02.T3_no_delivery_after_close_end_to_end", "kind": "proved",
     "statement": "engine o Transport: for every engine (TCP/UDP), config and engine history, and every Transport history (handler runs in the repaired order) whose engine-originated ops are "
                  "in order the callbacks of that engine history (the FIRST half of a handler run is the engine's close event, the other half maps to nothing; any payloads, any "
                  "setReadMode/receiveSync calls in between, also inside a handler run), no accept/connect/data callback follows the close callbacks of its id - no hypothesis about the engine is left"},
    {"id": "C02_T3_transport_state", "theorem": "Iora.C02.T3_closed_ids_cannot_flush", "kind": "proved",
     "statement": "state form: after every such history an id whose close callbacks have started has no read mode and a closed tombstone (setReadMode leaves it alone), or nothing buffered at all"},
    {"id": "C02_T3_window_refuted", "theorem": "Iora.C02.T3_window_refuted", "kind": "refuted",
     "statement": "the same statement for the OLD handler order (close callbacks first, closed mark / tombstone / readModes.erase afterwards) is FALSE: witness setReadMode(5,Sync); data aa bb; "
                  "closeCbs 5; setReadMode(5,Async) on another thread; closeMark 5 - the data callback follows the close callback (review finding F2; repair FC03c removes the order)"},
    {"id": "C02_T3_window_partial", "theorem": "Iora.C02.T3_window_partial", "kind": "proved",
     "statement": "whatever the handler order: if no op stands inside a window (at every op every id whose close callbacks have started has been marked closed, unless the op is that mark - "
                  "for the old order: the two halves of each handler run are adjacent, the former sequential model), nothing is delivered after the close"},
    {"id": "C02_T6", "theorem": "Iora.C02.T6_gauge", "kind": "proved",
     "statement": "sessionsCurrent = number of non-closed table entries after every history; announced open sessions are counted; 0 after the drain"},
    {"id": "C02_nostale", "theorem": "Iora.C02.no_dangling_session_access", "kind": "proved",
     "statement": "no history makes a handler touch a session that has been erased from the table (the model's `stale` flag is never set)"},
    {"id": "C02_restart_tie", "theorem": "Iora.C02.drainErasesTags", "kind": "proved",
     "statement": "translator: the shutdown drain erases the fd tag of every session it frees (restart starts from empty maps; F35)"},
    {"id": "C02_fd_tags", "theorem": "Iora.C02.fd_tags_point_at_live_owner", "kind": "proved",
     "statement": "fd reuse: for every history of session creations on fd numbers the kernel hands out (never a number still open), closeNows and shutdown drains (+ restarts), the "
                  "session handleFdEvent dispatches an event on fd to is in the map, not closed and owns exactly that fd; model instance defined from the fact drainErasesTags"},
    {"id": "C02_fd_tags_cover", "theorem": "Iora.C02.fd_tags_cover_open_sessions", "kind": "proved",
     "statement": "every open session is tagged under its own fd (events of an open session reach it)"},
    {"id": "C02_F35_refuted", "theorem": "Iora.C02.F35_refuted", "kind": "refuted",
     "statement": "the variant without the tag erase in the drain (code before repair F35) breaks it: session 1 on fd 5, drain, restart, session 2 on fd 5 is dispatched to freed session 1"},
    {"id": "C02_udp_index", "theorem": "Iora.C02.udp_index_points_at_live_sessions", "kind": "proved",
     "statement": "the UDP peer index only points at live announced sessions of that peer"},
]
ANCHOR_FILES = ["include/iora/network/detail/tcp_engine.hpp", "include/iora/network/detail/udp_engine.hpp",
                "include/iora/network/transport_impl.hpp"]
HERE = os.path.dirname(os.path.dirname(os.path.abspath(__file__)))


# ------------------------------------------------------------------ stepped-engine scripts (generator)
def gen_tcp_script(rng, idx):
    """A history of <= 40 events over <= 12 sessions on a stepped real TcpEngine: mostly-valid traffic + fault stream."""
    tls = rng.chance(1, 3)
    mwq = rng.choice([1, 2, 3, 1024])
    cob = 0 if rng.chance(1, 6) else 1
    et = 0 if rng.chance(1, 4) else 1
    hto = rng.choice([0, 1000]) if tls else 0
    vp = 1 if tls and rng.chance(1, 3) else 0
    ops = ["tcp reset mwq=%d cob=%d et=%d tls=%d nl=1 ntl=%d hto=%d idle=%d age=%d cto=%d wst=%d vp=%d" %
           (mwq, cob, et, 1 if tls else 0, 1 if tls else 0, hto, rng.choice([0, 5]), rng.choice([0, 0, 9]), rng.choice([0, 500]), rng.choice([0, 300]), vp),
           "peer listen", "peer listen 0"]
    nsess = 0
    n = rng.range(8, 40)
    for _ in range(n):
        k = rng.below(100)
        if k < 16 and nsess < 12:
            tgt = rng.choice(["P0", "P0", "E0", "closed", "P1", "P0s"] + (["E1t", "E1t", "E1", "E0t", "P0t", "nameE1t", "E1s"] if tls else ["P0t"]))
            ops.append("tcp connect " + tgt)
            nsess += 1
        elif k < 22 and nsess < 12:
            ops.append("peer connect %d" % (rng.below(2) if tls else 0))
            nsess += 1
        elif k < 44:
            ops.append("tcp poll")
        elif k < 50:
            ops.append("peer accept 0")
        elif k < 56:
            ops.append("peer send %d %d" % (rng.below(8), rng.choice([1, 16, 200])))
        elif k < 61:
            ops.append("peer %s %d" % (rng.choice(["fin", "rst", "shut", "fin"]), rng.below(8)))
        elif k < 68:
            ops.append("tcp send ~%d:%d" % (rng.below(12), rng.choice([1, 32, 4000])))
        elif k < 74:
            ops.append("tcp close ~%d" % rng.below(12))
        elif k < 78:
            ops.append("tcp timer ~%d:%s" % (rng.below(12), rng.choice(["connect", "handshake", "stall"])))
        elif k < 84:
            fn, code = rng.choice([("send", "EAGAIN"), ("send", "EAGAIN"), ("send", "EPIPE"), ("send", "PART"), ("recv", "ECONNRESET"), ("recv", "EAGAIN"),
                                   ("connect", "ECONNREFUSED"), ("connect", "EIO"), ("socket", "EMFILE"), ("so_error", "ECONNRESET"), ("so_error", "FAIL"),
                                   ("getpeername", "ECONNREFUSED"), ("getpeername", "ENOTCONN"), ("getpeername", "ENOTCONN"), ("accept4", "EMFILE"), ("SSL_new", "x"),
                                   ("getaddrinfo", "FAIL")] + ([("SSL_set1_host", "x"), ("SSL_read", "x"), ("SSL_write", "x"), ("SSL_write", "EAGAIN")] if tls else []))
            ops.append("tcp inject %s %s %d" % (fn, code, rng.choice([0, 0, 1])))
            if fn == "getaddrinfo" and nsess < 12:
                if rng.chance(1, 3):
                    ops[-1] = "tcp inject pthread_create EAGAIN"     # the resolver thread cannot be created (FC02b)
                ops.append("tcp connect nameP0")
                nsess += 1
                if rng.chance(1, 2):
                    ops.append("tcp close ~%d" % (nsess - 1))        # close() right behind its connect() (F3)
        elif k < 87 and tls:
            ops.append("tcp hookfail %s" % rng.choice(["hsBefore", "hsAfter", "hsAfterOk", "read", "write"]))
        elif k < 87 and nsess < 12 and rng.chance(1, 2):
            # the pending-connect window: the immediate check and/or the first writable event still see ENOTCONN, payload is on its way
            ops += ["tcp inject getpeername ENOTCONN", "tcp connect P0", "tcp poll"]
            if rng.chance(2, 3):
                ops += ["tcp inject getpeername ENOTCONN", "tcp poll"]
            if rng.chance(1, 2):
                ops.append("tcp send ~%d:%d" % (nsess, rng.choice([1, 32])))
            ops += ["peer accept 0", "peer send %d 5" % rng.below(8), "tcp poll"]
            nsess += 1
        elif k < 90:
            # spurious / stale epoll events (the harness refuses the one a kernel cannot report: IN without OUT on a plain socket whose
            # connect callback is still outstanding - that is the environment contract of T3c, never fabricated)
            ops.append("tcp ev ~%d %s" % (rng.below(12), rng.choice(["i", "o", "io", "h", "ih", "oh", "e"])))
        elif k < 93:
            ops.append("tcp clock %d" % rng.choice([600, 2000, 6000, 10000]))
            ops.append("tcp gc")
        elif k < 97:
            ops.append("tcp oncb %s %s" % (rng.choice(["K", "K", "D", "A", "N"]),
                                           rng.choice(["connect P0", "connect closed", "close self", "send self:8", "close ~%d" % rng.below(12), "stop"])))
            if rng.chance(1, 3):
                # a second application action armed for a later close callback (e.g. the one that closes a residual connect)
                ops.append("tcp oncb K %s" % rng.choice(["connect P0", "connect P0", "connect closed", "send self:8"]))
        elif k < 98:
            ops.append("tcp stop")
            if rng.chance(1, 2):
                # restart: drain, start() again, keep going on the same engine (fd numbers are reused)
                ops += ["tcp poll", "tcp poll", "tcp restart"]
        else:
            ops.append("tcp poll")
    for _ in range(rng.range(0, 3)):
        ops.append("tcp poll")
    ops.append("tcp end")
    return {"cat": "tcp-stepped", "ops": ops, "id": "tcp%d" % idx}


def gen_udp_script(rng, idx):
    mwq = rng.choice([1, 2, 1024])
    cob = 0 if rng.chance(1, 6) else 1
    maxs = rng.choice([0, 0, 3, 5])
    ops = ["udp reset mwq=%d cob=%d maxs=%d nl=%d idle=%d age=%d wst=%d" % (mwq, cob, maxs, rng.choice([1, 2]), rng.choice([0, 5]), rng.choice([0, 0, 9]), rng.choice([0, 300])),
           "peer udp", "peer udp", "peer udp"]
    nsess = 0
    for _ in range(rng.range(8, 40)):
        k = rng.below(100)
        if k < 12 and nsess < 12:
            ops.append("udp connect %s" % rng.choice(["P0", "P1", "P2", "closed"]))
            nsess += 1
        elif k < 22 and nsess < 12:
            ops.append("udp via %d:%s" % (rng.below(2), rng.choice(["P0", "P1", "P2", "P0", "bad", "v6"])))
            nsess += 1
        elif k < 36:
            ops.append("peer usend %d %d %d" % (rng.below(3), rng.below(2), rng.choice([1, 8, 0, 100])))
            nsess += 1
        elif k < 56:
            ops.append("udp poll")
        elif k < 62:
            ops.append("peer ureply %d %s" % (rng.below(3), rng.choice(["1", "1", "0"])))
        elif k < 70:
            ops.append("udp send ~%d:%d" % (rng.below(12), rng.choice([1, 32, 1000])))
        elif k < 77:
            ops.append("udp close ~%d" % rng.below(12))
        elif k < 85:
            fn, code = rng.choice([("send", "EAGAIN"), ("send", "EAGAIN"), ("send", "EPIPE"), ("sendto", "EAGAIN"), ("sendto", "EAGAIN"), ("sendto", "EPIPE"),
                                   ("recv", "ECONNREFUSED"), ("recvfrom", "EIO"), ("connect", "EIO"), ("socket", "EMFILE"), ("getaddrinfo", "FAIL"),
                                   ("getsockname", "FAIL"), ("getnameinfo", "FAIL"), ("getnameinfo", "FAIL")])
            ops.append("udp inject %s %s %d" % (fn, code, rng.choice([0, 0, 1])))
        elif k < 88:
            ops.append("peer uclose %d" % rng.below(3))
        elif k < 91:
            ops.append("udp ev ~%d %s" % (rng.below(12), rng.choice(["i", "o", "io"])))
        elif k < 94:
            ops.append("udp clock %d" % rng.choice([600, 6000, 10000]))
            ops.append("udp gc")
        elif k < 98:
            ops.append("udp oncb %s %s" % (rng.choice(["K", "K", "D", "N"]),
                                           rng.choice(["connect P0", "via 0:P1", "close self", "send self:8", "close ~%d" % rng.below(12), "stop"])))
            if rng.chance(1, 3):
                ops.append("udp oncb K %s" % rng.choice(["connect P0", "via 0:P1", "send self:8"]))
        elif k < 99:
            ops.append("udp stop")
            if rng.chance(1, 2):
                ops += ["udp poll", "udp poll", "udp restart"]
        else:
            ops.append("udp poll")
    ops.append("udp poll")
    ops.append("udp end")
    return {"cat": "udp-stepped", "ops": ops, "id": "udp%d" % idx}


FIXED_CASES = [
    # F30 witness: a connect() issued from a close callback of the shutdown drain lands in the residual queue
    {"cat": "tcp-stepped", "id": "F30-tcp", "ops": ["tcp reset", "peer listen", "tcp connect P0", "tcp poll", "tcp oncb K connect P0", "tcp end"]},
    {"cat": "udp-stepped", "id": "F30-udp", "ops": ["udp reset", "peer udp", "udp connect P0", "udp poll", "udp oncb K connect P0", "udp end"]},
    {"cat": "udp-stepped", "id": "F30-udp-via", "ops": ["udp reset", "peer udp", "udp connect P0", "udp poll", "udp oncb K via 0:P0", "udp end"]},
    # stale timer-originated closes (connect completed / nothing queued / not in handshake) must not close a healthy session
    {"cat": "tcp-stepped", "id": "stale-timers", "ops": ["tcp reset", "peer listen", "tcp connect P0", "tcp poll", "peer accept 0", "tcp poll",
                                                         "tcp timer ~0:connect", "tcp timer ~0:stall", "tcp timer ~0:handshake", "tcp poll", "peer send 0 5", "tcp poll", "tcp end"]},
    # a live timer close racing a peer FIN in the same wake-up: exactly one close
    {"cat": "tcp-stepped", "id": "timer-vs-fin", "ops": ["tcp reset", "peer listen 0", "tcp connect P0", "tcp poll", "tcp timer ~0:connect", "tcp ev ~0 h", "tcp poll", "tcp end"]},
    {"cat": "tcp-stepped", "id": "timer-then-fin", "ops": ["tcp reset", "peer listen 0", "tcp connect P0", "tcp poll", "tcp timer ~0:connect", "tcp poll", "tcp ev ~0 h", "tcp poll", "tcp end"]},
    # every connect failure path
    {"cat": "tcp-stepped", "id": "connect-failures", "ops": ["tcp reset tls=1 ntl=1", "peer listen", "tcp inject getaddrinfo FAIL", "tcp connect nameP0", "tcp poll",
                                                             "tcp inject connect ECONNREFUSED", "tcp connect P0", "tcp poll", "tcp inject socket EMFILE", "tcp connect P0", "tcp poll",
                                                             "tcp inject SSL_new x", "tcp connect P0t", "tcp poll", "tcp inject so_error FAIL 0", "tcp connect P0", "tcp poll",
                                                             "tcp inject so_error ECONNREFUSED", "tcp connect P0", "tcp poll", "tcp inject getpeername ECONNREFUSED", "tcp connect P0", "tcp poll",
                                                             "tcp connect closed", "tcp poll", "tcp poll", "tcp end"]},
    {"cat": "tcp-stepped", "id": "backpressure", "ops": ["tcp reset mwq=2", "peer listen", "tcp connect P0", "tcp poll", "peer accept 0", "tcp poll",
                                                         "tcp inject send EAGAIN", "tcp inject send EAGAIN", "tcp inject send EAGAIN", "tcp send ~0:10", "tcp send ~0:10", "tcp send ~0:10", "tcp poll", "tcp end"]},
    {"cat": "tcp-stepped", "id": "idle-gc", "ops": ["tcp reset idle=5", "peer listen", "tcp connect P0", "peer connect 0", "tcp poll", "tcp poll", "tcp clock 6000", "tcp gc", "tcp gc", "tcp end"]},
]
FIXED_CASES += [
    # F35 witness: stop, start again, the new session reuses the fd number of a session the drain freed
    {"cat": "tcp-stepped", "id": "F35-restart", "ops": ["tcp reset", "peer listen", "tcp connect P0", "tcp connect P0", "tcp poll", "peer accept 0", "peer accept 0", "tcp poll", "tcp stop", "tcp poll", "tcp restart", "tcp connect P0", "tcp connect P0", "tcp connect P0", "tcp connect P0", "tcp poll", "peer accept 0", "peer accept 0", "peer accept 0", "peer accept 0", "peer send 2 5", "peer send 3 5", "peer send 4 5", "peer send 5 5", "tcp poll", "tcp poll", "peer fin 2", "peer fin 3", "peer fin 4", "peer fin 5", "tcp poll", "tcp end"]},
    {"cat": "udp-stepped", "id": "restart-udp", "ops": ["udp reset", "peer udp", "udp connect P0", "udp poll", "udp send ~0:4", "udp poll", "udp stop", "udp poll", "udp restart",
                                                         "udp connect P0", "udp poll", "udp send ~1:4", "udp poll", "peer ureply 0", "udp poll", "udp end"]},
    # TLS: handshake, data both ways, hook faults, close_notify, garbage to a TLS listener, inline handshake timeout
    {"cat": "tcp-stepped", "id": "tls-life", "ops": ["tcp reset mwq=2 tls=1 nl=1 ntl=1 hto=1000", "tcp connect E1t", "tcp poll", "tcp poll", "tcp poll", "tcp poll", "tcp poll",
                                                      "tcp send ~0:20", "tcp poll", "tcp poll", "tcp send ~1:20", "tcp poll", "tcp poll", "tcp hookfail read", "tcp send ~0:5", "tcp poll", "tcp poll", "tcp poll",
                                                      "tcp connect E1t", "tcp poll", "tcp poll", "tcp hookfail hsBefore", "tcp poll", "tcp poll", "tcp poll", "peer connect 1", "tcp poll", "peer send 0 40", "tcp poll",
                                                      "tcp connect E1", "tcp poll", "tcp poll", "tcp send ~6:30", "tcp poll", "tcp poll", "tcp poll", "peer connect 1", "tcp poll", "tcp clock 2000", "tcp ev ~8 i",
                                                      "tcp connect E1t", "tcp poll", "tcp poll", "tcp poll", "tcp poll", "tcp close ~9", "tcp poll", "tcp poll", "tcp poll", "tcp end"]},
    {"cat": "tcp-stepped", "id": "tls-write-faults", "ops": ["tcp reset mwq=2 tls=1 nl=1 ntl=1", "tcp connect E1t", "tcp poll", "tcp poll", "tcp poll", "tcp poll", "tcp poll",
                                                              "tcp hookfail write", "tcp send ~0:20", "tcp poll", "tcp poll", "tcp poll", "tcp connect E1t", "tcp poll", "tcp poll", "tcp poll", "tcp poll", "tcp poll",
                                                              "tcp hookfail hsAfter", "tcp connect E1t", "tcp poll", "tcp poll", "tcp poll", "tcp poll", "tcp end"]},
    {"cat": "udp-stepped", "id": "udp-listener-backpressure", "ops": ["udp reset mwq=2", "peer udp", "peer usend 0 0 4", "udp poll", "udp inject sendto EAGAIN", "udp inject sendto EAGAIN", "udp inject sendto EAGAIN",
                                                                        "udp send ~0:4", "udp send ~0:4", "udp send ~0:4", "udp poll", "udp poll", "udp end"]},
    {"cat": "tcp-stepped", "id": "write-stall-timer", "ops": ["tcp reset mwq=8 wst=300", "peer listen", "tcp connect P0", "tcp poll", "peer accept 0", "tcp poll", "tcp inject send EAGAIN", "tcp send ~0:10", "tcp poll",
                                                               "tcp timer ~0:stall", "tcp poll", "tcp end"]},
]
FIXED_CASES += [
    # a connect() from the close callback that closes a residual connect: a residual of a residual (two nested application actions)
    {"cat": "tcp-stepped", "id": "residual-of-residual-tcp", "ops": ["tcp reset", "peer listen", "tcp connect P0", "tcp poll", "tcp oncb K connect P0", "tcp oncb K connect P0", "tcp end"]},
    {"cat": "tcp-stepped", "id": "residual-of-residual-x3", "ops": ["tcp reset", "peer listen", "tcp connect P0", "tcp poll", "tcp oncb K connect P0", "tcp oncb K connect closed",
                                                                     "tcp oncb K connect P0", "tcp end"]},
    {"cat": "udp-stepped", "id": "residual-of-residual-udp", "ops": ["udp reset", "peer udp", "udp connect P0", "udp poll", "udp oncb K connect P0", "udp oncb K via 0:P0", "udp end"]},
    # connect by NAME with a verified peer: SSL_set1_host fails (close `sni`, the session is never inserted), then succeeds
    {"cat": "tcp-stepped", "id": "sni-bind-failure", "ops": ["tcp reset tls=1 nl=1 ntl=1 vp=1", "tcp inject SSL_set1_host x", "tcp connect nameE1t", "tcp poll", "tcp poll",
                                                              "tcp connect nameE1t", "tcp poll", "tcp poll", "tcp poll", "tcp poll", "tcp poll", "tcp send ~1:8", "tcp poll", "tcp poll", "tcp end"]},
    # TlsMode::Server / TlsMode::Client without a client context on connect(): refused with a close for the returned id
    {"cat": "tcp-stepped", "id": "tls-mode-refused", "ops": ["tcp reset", "peer listen", "tcp connect P0s", "tcp connect P0t", "tcp poll", "tcp connect P0", "tcp poll", "tcp end"]},
    {"cat": "tcp-stepped", "id": "tls-server-mode-refused", "ops": ["tcp reset tls=1 nl=1 ntl=1", "tcp connect E1s", "tcp poll", "tcp connect E1t", "tcp poll", "tcp poll", "tcp poll", "tcp poll", "tcp end"]},
    # OpenSSL I/O failures after the handshake: read path, direct-send path, queued-write path (TLSIO/*)
    {"cat": "tcp-stepped", "id": "tls-io-read-error", "ops": ["tcp reset tls=1 nl=1 ntl=1", "tcp connect E1t", "tcp poll", "tcp poll", "tcp poll", "tcp poll", "tcp poll",
                                                               "tcp send ~1:20", "tcp inject SSL_read x", "tcp poll", "tcp poll", "tcp poll", "tcp end"]},
    {"cat": "tcp-stepped", "id": "tls-io-send-error", "ops": ["tcp reset tls=1 nl=1 ntl=1", "tcp connect E1t", "tcp poll", "tcp poll", "tcp poll", "tcp poll", "tcp poll",
                                                               "tcp inject SSL_write x", "tcp send ~0:20", "tcp poll", "tcp poll", "tcp poll", "tcp end"]},
    {"cat": "tcp-stepped", "id": "tls-io-queued-write-error", "ops": ["tcp reset mwq=8 tls=1 nl=1 ntl=1", "tcp connect E1t", "tcp poll", "tcp poll", "tcp poll", "tcp poll", "tcp poll",
                                                                       "tcp inject SSL_write EAGAIN", "tcp send ~0:20", "tcp poll", "tcp inject SSL_write x", "tcp ev ~0 o", "tcp poll", "tcp poll", "tcp end"]},
    # FC06a: key() fails (getnameinfo error). viaDo closes the id with Config/keyFail and creates nothing (close site `vKeyFail`); readFromListener drops
    # the datagram with an error event (no session, no accept); the same peer is served normally once key() works again
    {"cat": "udp-stepped", "id": "via-key-failure", "ops": ["udp reset", "peer udp", "peer udp", "udp inject getnameinfo FAIL", "udp via 0:P0", "udp poll", "udp via 0:P0", "udp poll",
                                                             "udp inject getnameinfo FAIL", "peer usend 1 0 4", "udp poll", "udp poll", "peer usend 1 0 4", "udp poll", "udp poll",
                                                             "udp inject getnameinfo FAIL 1", "peer usend 0 0 4", "peer usend 1 0 4", "udp poll", "udp poll", "udp end"]},
    # IPv6-only remote through an IPv4 listener
    {"cat": "udp-stepped", "id": "via-af-mismatch", "ops": ["udp reset", "peer udp", "udp via 0:v6", "udp poll", "udp via 0:P0", "udp poll", "udp via 0:v6", "udp poll", "udp end"]},
    # SSL_new failures, live connect-timeout and write-stall closes
    {"cat": "tcp-stepped", "id": "ssl-new-failures", "ops": ["tcp reset tls=1 nl=1 ntl=1", "tcp inject SSL_new x", "tcp connect E1t", "tcp poll", "tcp inject SSL_new x", "tcp connect nameE1t", "tcp poll",
                                                              "tcp inject SSL_new x 1", "tcp connect E1t", "tcp poll", "tcp poll", "tcp poll", "tcp end"]},
    {"cat": "tcp-stepped", "id": "connect-timeout-live", "ops": ["tcp reset cto=500", "peer listen 0", "tcp connect P0", "tcp connect P0", "tcp connect P0", "tcp poll", "tcp timer ~1:connect", "tcp timer ~2:connect",
                                                                  "tcp timer ~0:connect", "tcp poll", "tcp poll", "tcp end"]},
    {"cat": "tcp-stepped", "id": "write-stall-live", "ops": ["tcp reset mwq=8 wst=300", "peer listen", "tcp connect P0", "tcp connect P0", "tcp poll", "peer accept 0", "peer accept 0", "tcp poll",
                                                              "tcp inject send EAGAIN", "tcp send ~0:10", "tcp inject send EAGAIN 1", "tcp send ~1:10", "tcp poll", "tcp timer ~0:stall", "tcp timer ~1:stall", "tcp poll", "tcp end"]},
    # a writable event while the connect is still pending (getpeername says ENOTCONN) must keep EPOLLOUT in the interest mask: the
    # completion is then reported with (or before) the first payload, never after it
    {"cat": "tcp-stepped", "id": "pending-connect-keeps-writable-interest", "ops": ["tcp reset", "peer listen", "tcp inject getpeername ENOTCONN", "tcp connect P0", "tcp poll",
                                                                                     "tcp inject getpeername ENOTCONN", "tcp poll", "peer accept 0", "peer send 0 5", "tcp poll", "tcp poll", "tcp end"]},
    {"cat": "tcp-stepped", "id": "pending-connect-keeps-writable-interest-lt", "ops": ["tcp reset et=0", "peer listen", "tcp inject getpeername ENOTCONN", "tcp connect P0", "tcp poll",
                                                                                        "tcp inject getpeername ENOTCONN", "tcp poll", "peer accept 0", "peer send 0 5", "tcp poll", "tcp poll", "tcp end"]},
    # a send queued while the connect is pending, payload arriving with the connect completion: connect callback first, then data
    {"cat": "tcp-stepped", "id": "data-with-connect-completion", "ops": ["tcp reset", "peer listen", "tcp inject getpeername ENOTCONN", "tcp connect P0", "tcp poll", "tcp send ~0:8", "peer accept 0",
                                                                          "peer send 0 5", "tcp poll", "tcp poll", "peer send 0 5", "tcp poll", "tcp end"]},
    {"cat": "tcp-stepped", "id": "data-with-connect-completion-lt", "ops": ["tcp reset et=0", "peer listen", "tcp inject getpeername ENOTCONN", "tcp connect P0", "tcp poll", "tcp send ~0:8", "tcp poll", "peer accept 0",
                                                                             "peer send 0 5", "tcp poll", "tcp poll", "tcp end"]},
]
FIXED_CASES += [
    # FC02b witness: the resolver thread of a connect BY NAME cannot be created (std::async throws std::system_error): the id connect()
    # returned must get its close (unrepaired: onError only, the id is never closed - not even by the orderly stop)
    {"cat": "tcp-stepped", "id": "FC02b-resolver-thread", "ops": ["tcp reset", "peer listen", "tcp inject pthread_create EAGAIN", "tcp connect nameP0", "tcp poll",
                                                                   "tcp connect nameP0", "tcp poll", "tcp end"]},
    # F3 / seed C04-d: close() right behind connect(), both still queued: the Close finds the session its Connect created
    {"cat": "tcp-stepped", "id": "close-behind-connect-tcp", "ops": ["tcp reset", "peer listen", "tcp connect P0", "tcp close ~0", "tcp poll", "tcp end"]},
    {"cat": "udp-stepped", "id": "close-behind-connect-udp", "ops": ["udp reset", "peer udp", "udp connect P0", "udp close ~0", "udp poll", "udp via 0:P0", "udp close ~1", "udp poll", "udp end"]},
    # review F5: the close sites no case reached
    {"cat": "tcp-stepped", "id": "site-evSoErr", "ops": ["tcp reset", "peer listen", "tcp inject getpeername ENOTCONN", "tcp connect P0", "tcp poll",
                                                          "tcp inject so_error ECONNRESET 1", "tcp ev ~0 o", "tcp poll", "tcp end"]},
    {"cat": "tcp-stepped", "id": "site-evGsoFail", "ops": ["tcp reset", "peer listen", "tcp inject getpeername ENOTCONN", "tcp connect P0", "tcp poll",
                                                            "tcp inject so_error FAIL 1", "tcp ev ~0 o", "tcp poll", "tcp end"]},
    {"cat": "tcp-stepped", "id": "site-evPeerFail", "ops": ["tcp reset", "peer listen", "tcp inject getpeername ENOTCONN", "tcp connect P0", "tcp poll",
                                                             "tcp inject getpeername ECONNREFUSED", "tcp ev ~0 o", "tcp poll", "tcp end"]},
    {"cat": "tcp-stepped", "id": "site-sendErr", "ops": ["tcp reset mwq=8", "peer listen", "tcp connect P0", "tcp poll", "peer accept 0", "tcp poll", "tcp inject send EAGAIN", "tcp send ~0:10",
                                                          "tcp poll", "tcp inject send EPIPE", "tcp ev ~0 o", "tcp poll", "tcp end"]},
    {"cat": "tcp-stepped", "id": "site-wrHook", "ops": ["tcp reset mwq=8 tls=1 nl=1 ntl=1", "tcp connect E1t", "tcp poll", "tcp poll", "tcp poll", "tcp poll", "tcp poll",
                                                         "tcp inject SSL_write EAGAIN", "tcp send ~0:20", "tcp poll", "tcp hookfail write", "tcp ev ~0 o", "tcp poll", "tcp poll", "tcp end"]},
    {"cat": "tcp-stepped", "id": "site-hsHookAfterOk", "ops": ["tcp reset tls=1 nl=1 ntl=1", "tcp hookfail hsAfterOk", "tcp connect E1t", "tcp poll", "tcp poll", "tcp poll", "tcp poll",
                                                                "tcp poll", "tcp poll", "tcp connect E1t", "tcp poll", "tcp poll", "tcp poll", "tcp poll", "tcp poll", "tcp end"]},
    {"cat": "udp-stepped", "id": "site-ucRecvErr", "ops": ["udp reset", "peer udp", "udp connect P0", "udp poll", "udp inject recv ECONNREFUSED", "udp ev ~0 i", "udp poll", "udp end"]},
    {"cat": "udp-stepped", "id": "site-usBackpressure", "ops": ["udp reset mwq=1", "peer udp", "udp connect P0", "udp poll", "udp inject send EAGAIN", "udp inject send EAGAIN",
                                                                 "udp send ~0:4", "udp send ~0:4", "udp poll", "udp end"]},
]
FIXED_CASES += [
    # every close site of both tables is reached by a FIXED case (the reach check must not depend on what a seed happens to generate)
    {"cat": "tcp-stepped", "id": "site-evSoErrEarly", "ops": ["tcp reset", "peer listen", "tcp connect P0", "tcp poll", "peer accept 0", "tcp poll", "tcp inject so_error ECONNRESET", "tcp ev ~0 o", "tcp poll", "tcp end"]},
    {"cat": "tcp-stepped", "id": "site-procClose-handshakeTimeout", "ops": ["tcp reset tls=1 nl=1 ntl=1", "tcp connect E1t", "tcp poll", "tcp timer ~0:handshake", "tcp poll", "tcp poll", "tcp end"]},
    {"cat": "tcp-stepped", "id": "site-recvErr", "ops": ["tcp reset", "peer listen", "tcp connect P0", "tcp poll", "peer accept 0", "tcp poll", "tcp inject recv ECONNRESET", "tcp ev ~0 i", "tcp poll", "tcp end"]},
    {"cat": "tcp-stepped", "id": "site-dsSendErr", "ops": ["tcp reset", "peer listen", "tcp connect P0", "tcp poll", "peer accept 0", "tcp poll", "tcp inject send EPIPE", "tcp send ~0:10", "tcp poll", "tcp end"]},
    {"cat": "udp-stepped", "id": "site-udp-connect-failures", "ops": ["udp reset", "peer udp", "udp inject getaddrinfo FAIL", "udp connect P0", "udp poll", "udp inject socket EMFILE", "udp connect P0", "udp poll",
                                                                       "udp via 0:bad", "udp poll", "udp inject getsockname FAIL", "udp via 0:P0", "udp poll", "udp inject getaddrinfo FAIL", "udp via 0:P0", "udp poll", "udp end"]},
    {"cat": "udp-stepped", "id": "site-vCap", "ops": ["udp reset maxs=1", "peer udp", "peer udp", "udp connect P0", "udp poll", "udp via 0:P1", "udp poll", "udp end"]},
    {"cat": "udp-stepped", "id": "site-udp-gc", "ops": ["udp reset idle=5", "peer udp", "udp connect P0", "udp poll", "udp clock 6000", "udp gc", "udp gc", "udp end"]},
    {"cat": "udp-stepped", "id": "site-usSendErr", "ops": ["udp reset", "peer udp", "udp connect P0", "udp poll", "udp inject send EPIPE", "udp send ~0:4", "udp poll", "udp end"]},
    {"cat": "udp-stepped", "id": "site-ucWriteErr", "ops": ["udp reset mwq=8", "peer udp", "udp connect P0", "udp poll", "udp inject send EAGAIN", "udp send ~0:4", "udp poll", "udp inject send EPIPE", "udp ev ~0 o", "udp poll", "udp end"]},
    {"cat": "udp-stepped", "id": "site-usPeerSendErr", "ops": ["udp reset", "peer udp", "peer usend 0 0 4", "udp poll", "udp inject sendto EPIPE", "udp send ~0:4", "udp poll", "udp end"]},
]
FIXED_CASES += [
    # review F7 / mutant C: an id returned by connectSync is an ordinary session of the application: its close reaches the global callback,
    # the observers and the cleanup (a pendingConnects entry left behind would swallow it)
    {"cat": "fanout", "id": "connectsync-id-gets-its-close", "ops": ["fan reset 1", "fan csync 7", "fan observe 7", "fan setdata 7 3", "fan csync 8", "fan close 7", "fan tclose 8", "fan close 7"]},
    {"cat": "fanout", "id": "connectsync-id-observer-only", "ops": ["fan reset 0", "fan csync 5", "fan observe 5", "fan observe 5", "fan close 5"]},
]
# close sites of the model that no public-API history can reach (admitted; see not_proved)
ADMITTED_UNREACHED = {"tcp": set(), "udp": {"usListenerGone"}}
SLOW_CASE = {"cat": "tcp-stepped", "id": "dns-timeout", "ops": ["tcp reset", "peer listen", "tcp inject getaddrinfo SLOW", "tcp connect nameP0", "tcp poll", "tcp end"]}


# ------------------------------------------------------------------ fan-out histories (lockstep)
WINDOW_ACTS = ("tmode", "trecv", "mode", "recv")     # setReadMode / receiveSync scripted INSIDE a close callback (t* = on a helper thread)
FIXED_CASES += [
    # the window of review finding F2 / repair FC03c: a complete setReadMode(Async) of another thread while the close callbacks run
    {"cat": "fanout", "id": "window-global-sync", "ops": ["fan reset 1 1 1048576 1024", "fan connect 1", "fan mode 1 s", "fan data 1 aabb", "fan inside G tmode 1 a",
                                                          "fan close 1", "fan recv 1 8", "fan recv 1 8"]},
    {"cat": "fanout", "id": "window-observer-disabled", "ops": ["fan reset 0 1 1048576 1024", "fan accept 2", "fan observe 2", "fan observe 2", "fan mode 2 s", "fan data 2 01",
                                                                "fan mode 2 d", "fan inside O2 tmode 2 a", "fan inside O1 trecv 2 0", "fan close 2", "fan mode 2 a", "fan recv 2 8"]},
    {"cat": "fanout", "id": "window-io-thread-refused", "ops": ["fan reset 1 1 1048576 1024", "fan observe 1", "fan mode 1 s", "fan data 1 0102", "fan inside G mode 1 a",
                                                                "fan inside O1 recv 1 4", "fan inside G trecv 1 1", "fan close 1", "fan recv 1 8", "fan recv 1 8"]},
    {"cat": "fanout", "id": "window-no-switch", "ops": ["fan reset 1 1 1048576 1024 0", "fan mode 1 s", "fan data 1 aa", "fan inside G tmode 1 a", "fan close 1", "fan mode 1 s", "fan recv 1 8"]},
    # the public Transport::close(sid): forwarded to the engine, no local effect; the close that follows reaches global + observers + cleanup
    {"cat": "fanout", "id": "public-close", "ops": ["fan reset 1", "fan observe 1", "fan observe 1", "fan setdata 1 7", "fan observe 2", "fan tclose 1", "fan tclose 1", "fan tclose 2"]},
]


def gen_fan_case(rng, idx):
    ops = ["fan reset %d" % (0 if rng.chance(1, 5) else 1)]
    nobs = 0
    tags = 0
    sids = [1, 2, 3, 4]
    for _ in range(rng.range(4, 40)):
        k = rng.below(100)
        sid = rng.choice(sids)
        if k < 28:
            ops.append("fan observe %d" % sid)
            nobs += 1
        elif k < 40:
            ops.append("fan unobserve %d" % rng.range(1, max(nobs, 1) + 1))
        elif k < 52:
            tags += 1
            ops.append("fan %s %d %d" % (rng.choice(["setdata", "setdata", "setdata", "setdatanc"]), sid, 0 if rng.chance(1, 8) else tags))
        elif k < 57:
            ops.append("fan getdata %d" % sid)
        elif k < 78:
            # an action run from INSIDE a callback: the global close callback, observer n, or the cleanup of tag t
            where = rng.choice(["G", "G", "O%d" % rng.range(1, max(nobs, 1) + 1), "O%d" % rng.range(1, max(nobs, 1) + 1), "C%d" % rng.range(1, max(tags, 1))])
            a = rng.below(5)
            if a == 4:
                # setReadMode / receiveSync from inside the callback: on the I/O thread itself (refused) or on a helper thread
                act = rng.choice(["mode %d %s" % (sid, rng.choice("asd")), "recv %d %d" % (sid, rng.below(3)),
                                  "tmode %d %s" % (sid, rng.choice("asd")), "trecv %d %d" % (sid, rng.below(3))])
            elif a == 0:
                # the observer numbering is by call order: an observe inside a callback takes the next number when it RUNS
                act = "observe %d" % sid
            elif a == 1:
                act = "unobserve %d" % rng.range(1, max(nobs, 1) + 1)
            else:
                tags += 1
                act = "%s %d %d" % (rng.choice(["setdata", "setdatanc"]), sid, tags)
            ops.append("fan inside %s %s" % (where, act))
        else:
            ops.append("fan %s %d" % ("tclose" if rng.chance(1, 3) else "close", sid))
        if len(sids) < 6 and rng.chance(1, 12):
            # an id the application obtained from connectSync (review F7): observed / given data / closed like any other afterwards
            ns = len(sids) + 1
            ops.append("fan csync %d" % ns)
            sids.append(ns)
    for sid in sids:
        ops.append("fan %s %d" % ("tclose" if rng.chance(1, 3) else "close", sid))
        if rng.chance(1, 3):
            ops.append("fan close %d" % sid)       # a second close must not re-notify anybody
    return {"cat": "fanout", "ops": ops, "id": "fan%d" % idx}


# ------------------------------------------------------------------ Transport-level delivery around a close (lockstep + T3 monitor)
DELIVER_OPS = ("data", "mode", "recv", "connect", "accept")


def gen_deliver_case(rng, idx):
    """Engine callbacks (accept / connect / data / close; the ENGINE contract `nothing after its close` is honoured by construction) interleaved with application
    calls setReadMode / receiveSync on open, closed and unknown ids, plus observers (their callbacks mark the close when no global callback is installed).
    Half of the histories are built around the pattern that matters: Sync or Disabled with bytes left in the buffer when the session closes, then mode switches."""
    glob = 0 if rng.chance(1, 4) else 1
    dcb = 0 if rng.chance(1, 10) else 1
    maxbuf = rng.choice([6, 16, 1048576, 1048576])
    gcthr = rng.choice([1, 2, 3, 1024, 1024])
    ops = ["fan reset %d %d %d %d" % (glob, dcb, maxbuf, gcthr)]
    if rng.chance(1, 12):
        ops[0] += " 0"          # allowReadModeSwitch = false: every setReadMode is refused (returns false), nothing is ever buffered
    sids = [1, 2, 3, 4, 5, 6]
    closed = set()
    announced = set()
    nobs = [0]
    obs_of = {}             # sid -> numbers of the observers registered since its last close

    def observe(sid):
        ops.append("fan observe %d" % sid)
        nobs[0] += 1
        obs_of.setdefault(sid, []).append(nobs[0])

    def window(sid):
        # complete application calls of ANOTHER thread while the close callbacks of `sid` run (helper thread inside the callback)
        wheres = (["G"] if glob else []) + ["O%d" % n for n in obs_of.get(sid, [])]
        if not wheres:
            return
        for _ in range(rng.choice([1, 1, 1, 2, 3])):
            k = rng.below(10)
            w = rng.choice(wheres)
            if k < 6:
                ops.append("fan inside %s tmode %d %s" % (w, sid, rng.choice("aaaasd")))
            elif k < 8:
                ops.append("fan inside %s trecv %d %d" % (w, sid, rng.choice([0, 1, 2, 64])))
            elif k < 9:
                ops.append("fan inside %s tmode %d a" % (w, rng.choice(sids)))
            else:
                ops.append("fan inside %s %s" % (w, rng.choice(["mode %d a" % sid, "recv %d 1" % sid])))

    def payload():
        n = rng.choice([0, 1, 1, 2, 3, 5, 8]) if rng.chance(9, 10) else rng.range(6, 20)
        return "".join("%02x" % rng.below(256) for _ in range(n)) or "-"

    def engine_data(sid):
        if sid not in closed:
            ops.append("fan data %d %s" % (sid, payload()))

    def close(sid, win=None):
        if sid not in closed and (rng.chance(1, 3) if win is None else win):
            window(sid)
        ops.append("fan %s %d" % ("tclose" if rng.chance(1, 5) else "close", sid))
        closed.add(sid)
        obs_of.pop(sid, None)

    def tail_pattern(sid):
        # leave bytes in the buffer at close time, then switch modes / read late
        if sid in closed:
            return
        if sid not in announced:
            ops.append("fan %s %d" % (rng.choice(["accept", "connect"]), sid))
            announced.add(sid)
        if not glob or rng.chance(1, 2):
            observe(sid)
        ops.append("fan mode %d s" % sid)
        for _ in range(rng.range(1, 4)):
            engine_data(sid)
        if rng.chance(1, 3):
            ops.append("fan recv %d %d" % (sid, rng.range(0, 3)))
        if rng.chance(1, 4):
            ops.append("fan mode %d d" % sid)
            engine_data(sid)
        close(sid, win=rng.chance(2, 3))
        for _ in range(rng.range(1, 5)):
            k = rng.below(10)
            if k < 6:
                ops.append("fan mode %d %s" % (sid, rng.choice("asdaa")))
            elif k < 9:
                ops.append("fan recv %d %d" % (sid, rng.choice([0, 1, 2, 64])))
            else:
                close(rng.choice(sids))

    def flush_pattern(sid):
        # an OPEN session: buffer in Sync (or park in Disabled), then back to Async - the ordered flush the property allows
        if sid in closed:
            return
        ops.append("fan mode %d s" % sid)
        for _ in range(rng.range(1, 3)):
            engine_data(sid)
        if rng.chance(1, 3):
            ops.append("fan recv %d %d" % (sid, rng.range(1, 3)))
        if rng.chance(1, 3):
            ops.append("fan mode %d d" % sid)
            engine_data(sid)
        ops.append("fan mode %d a" % sid)
        engine_data(sid)

    for _ in range(rng.range(3, 30)):
        k = rng.below(100)
        sid = rng.choice(sids)
        if k < 9:
            tail_pattern(sid)
        elif k < 16:
            flush_pattern(sid)
        elif k < 22:
            if sid not in closed:
                ops.append("fan %s %d" % (rng.choice(["accept", "connect"]), sid))
                announced.add(sid)
        elif k < 42:
            engine_data(sid)
        elif k < 62:
            ops.append("fan mode %d %s" % (rng.choice(sids + [9]), rng.choice("assdda")))
        elif k < 76:
            ops.append("fan recv %d %d" % (rng.choice(sids + [9]), rng.choice([0, 1, 1, 2, 3, 64])))
        elif k < 84:
            observe(sid)
        elif k < 92:
            ops.append("fan setdata %d %d" % (sid, rng.range(1, 50)))
        else:
            close(sid)
    for sid in sids:
        if rng.chance(2, 3):
            close(sid)
        if rng.chance(1, 2):
            ops.append("fan mode %d %s" % (sid, rng.choice("asd")))
            ops.append("fan mode %d a" % sid)
        if rng.chance(1, 2):
            ops.append("fan recv %d 64" % sid)
    return {"cat": "fanout", "ops": ops, "id": "dlv%d" % idx}


def deliver_monitor(c, impl):
    """T3 at the Transport level, on the implementation's output alone: once a close callback (global `G<sid>` or observer `O<sid>.<n>`) has been seen for an id,
    no data (`D<sid>:<hex>`), connect (`N<sid>`) or accept (`A<sid>`) callback for that id may follow - unless the INPUT itself breaks the engine contract
    (an engine data/connect/accept op for an id the engine has already closed; the generator never does that).
    The tokens of ONE answer line are in callback order: a `D<sid>:..` that follows `G<sid>` / `O<sid>.n` on the line of the close itself is a delivery INSIDE the
    close handler - a setReadMode(Async) of another thread (scripted `fan inside <G|O<n>> tmode ..`) flushed the tail while / after the close callbacks ran
    (review finding F2, repair FC03c)."""
    bad = []
    closed_cb = set()       # ids whose close callback the application has seen
    eng_closed = set()      # ids the (scripted) engine has closed
    for op, got in zip(c["ops"][1:], impl[1:]):
        t = op.split()[1:]
        if not t or t[0] == "inside" or t[0] == "getdata":
            continue
        in_handler = t[0] in ("close", "tclose")
        excused = t[0] in ("data", "connect", "accept") and int(t[1]) in eng_closed
        for ev in got.split(","):
            m = re.match(r"^(?:D(\d+):[0-9a-f]*|N(\d+)|A(\d+))$", ev)
            if m:
                sid = int(m.group(1) or m.group(2) or m.group(3))
                if sid in closed_cb and not excused:
                    kind = "data" if ev[0] == "D" else "connect" if ev[0] == "N" else "accept"
                    if in_handler:
                        bad.append("T3 (Transport): during `%s` the %s callback was invoked for session %d (`%s`) AFTER its close callback (`%s`): a call made on another "
                                   "thread while the close callbacks ran was served as if the session were open (the handler had not yet marked it closed)" %
                                   (op, kind, sid, ev, got))
                    else:
                        bad.append("T3 (Transport): `%s` invoked the %s callback for session %d (`%s`) after its close callback had run" % (op, kind, sid, ev))
                continue
            m = re.match(r"^(?:G(\d+)|O(\d+)\.\d+)$", ev)
            if m:
                closed_cb.add(int(m.group(1) or m.group(2)))
        if in_handler:
            eng_closed.add(int(t[1]))
        if bad:
            break
    return bad


def deliver_count(c, impl, dlv_ops):
    """input distribution of the window / public-close shapes (into ctx.extra["delivery_op_distribution"])"""
    def inc(k, n=1):
        if n:
            dlv_ops[k] = dlv_ops.get(k, 0) + n
    if len(c["ops"][0].split()) > 6 and c["ops"][0].split()[6] == "0":
        inc("histories with allowReadModeSwitch=false")
    pending = {}
    for op, got in zip(c["ops"][1:], impl[1:]):
        w = op.split()
        if len(w) > 4 and w[1] == "inside" and w[3] in WINDOW_ACTS:
            inc("inside a close callback: %s" % {"tmode": "setReadMode on a helper thread", "trecv": "receiveSync on a helper thread",
                                                 "mode": "setReadMode on the I/O thread (refused)", "recv": "receiveSync on the I/O thread (refused)"}[w[3]])
        elif len(w) > 2 and w[1] == "tclose":
            inc("tclose (public Transport::close)")
        if len(w) > 2 and w[1] in ("close", "tclose"):
            toks = got.split(",")
            cb = [i for i, x in enumerate(toks) if re.match(r"^(G|O)%s\b" % w[2], x)]
            if cb:
                after = toks[cb[0] + 1:]
                inc("window: setReadMode answered inside a close handler run", sum(1 for x in after if re.match(r"^M\d+[+-]$", x)))
                inc("window: receiveSync answered inside a close handler run", sum(1 for x in after if re.match(r"^R\d+:[^!]", x)))
                inc("window: refused on the I/O thread", sum(1 for x in after if x.endswith("!")))
                inc("window: tail bytes still buffered when the handler ran (drained by a receiveSync inside it)", sum(1 for x in after if re.match(r"^R\d+:[0-9a-f]{2}", x)))


def shrink_deliver(ctx, hb, ops):
    """ddmin on the op list (the reset line is kept): the smallest history on which the monitor still fails"""
    head, rest = ops[0], ops[1:]

    def fails(sub):
        out = ctx.run_lines([hb], [head] + list(sub), timeout=60)[0]
        return bool(deliver_monitor({"ops": [head] + list(sub)}, out))
    try:
        return [head] + list(ddmin(rest, fails))
    except Exception:
        return ops


def fan_monitor(c, impl):
    """T5 on the implementation's output alone, against an independent reference (a plain Python re-statement of the property):
    global first, then the observers registered and not unregistered at snapshot time in registration order each once, then cleanup."""
    bad = []
    glob = c["ops"][0].split()[2] == "1"
    obs = {}            # sid -> [n] in registration order
    owner = {}          # n -> sid
    data = {}           # sid -> (tag, cleanup?)
    inside = []         # (where, act tokens)
    counter = [0]

    def act(t, out):
        if t[0] == "observe":
            counter[0] += 1
            obs.setdefault(int(t[1]), []).append(counter[0])
            owner[counter[0]] = int(t[1])
        elif t[0] == "unobserve":
            n = int(t[1])
            if n in owner:
                obs[owner[n]].remove(n)
                del owner[n]
                out.append("U%d+" % n)
            else:
                out.append("U%d-" % n)
        elif t[0] in ("setdata", "setdatanc"):
            data[int(t[1])] = (int(t[2]), t[0] == "setdata")

    def run_inside(where, out):
        mine = [a for w, a in inside if w == where]
        inside[:] = [(w, a) for w, a in inside if w != where]
        for a in mine:
            act(a, out)

    for op, got in zip(c["ops"][1:], impl[1:]):
        t = op.split()[1:]
        want = []
        if t[0] == "inside":
            if t[2] not in WINDOW_ACTS:       # setReadMode / receiveSync inside a callback: judged by deliver_monitor (T3)
                inside.append((t[1], t[2:]))
        elif t[0] == "getdata":
            want = ["D%d" % data.get(int(t[1]), (0, False))[0]]
        elif t[0] == "csync":
            want = ["S%d+" % int(t[1])]    # connectSync returns the id; no callback; the id's later close is an ordinary close (T2/T5)
        elif t[0] in DELIVER_OPS:
            continue        # judged by deliver_monitor (T3); T5 is about the close lines
        elif t[0] in ("close", "tclose"):
            sid = int(t[1])
            # the answers of the calls scripted inside the callbacks are not T5's business
            got = ",".join(x for x in got.split(",") if not re.match(r"^(M\d+[+\-!]|R\d+:.*|D\d+:[0-9a-f]*)$", x)) or "-"
            if t[0] == "tclose":
                want.append("X%d" % sid)      # the public close(sid) forwards the request to the engine and does nothing else
            if glob:
                want.append("G%d" % sid)
                run_inside("G", want)
            snap = list(obs.get(sid, []))
            for n in snap:
                owner.pop(n, None)
            obs[sid] = []
            for n in snap:
                want.append("O%d.%d" % (sid, n))
                run_inside("O%d" % n, want)
            if sid in data:
                tag, cl = data.pop(sid)
                if cl and tag != 0:
                    want.append("C%d.%d" % (sid, tag))
                    run_inside("C%d" % tag, want)
        else:
            act(t, want)
        w = ",".join(want) if want else "-"
        if got != w:
            bad.append("T5: `%s` -> callbacks %s, the property requires %s" % (op, got, w))
            break
    return bad


# ------------------------------------------------------------------ monitors on event logs (implementation only)
EV = re.compile(r"^([RANDKXS])(\d+|\?)(?::([^@]*))?(?:@(-?\d+))?$")


def life_monitor(events, final_known=None, final_cur=None, ordered_ids=True):
    """events: list of (kind, sid, extra, gauge or None) in observation order.  Returns property failures (T1/T2/T3/T4/T6)."""
    bad = []
    closed = {}
    announced = set()
    accepted_cb = set()
    connected_cb = set()
    returned = []
    allocs = []
    open_ann = 0
    for i, (k, sid, extra, cur) in enumerate(events):
        if k == "R":
            if extra and extra.startswith("1"):
                returned.append(sid)
                allocs.append(sid)
                # (threaded logs: the application thread logs the return AFTER connect() returned; the I/O thread may already have
                #  processed and closed the request by then - only the single-threaded stepped log orders these two)
                if sid in closed and ordered_ids:
                    bad.append("T3: connect() returned id %d after its close" % sid)
        elif k == "A":
            if sid in closed:
                bad.append("T3: accept callback for id %d after its close" % sid)
            if sid in announced or sid in returned:
                bad.append("T4: id %d announced by accept was already in use" % sid)
            if sid in accepted_cb:
                bad.append("T3: second accept callback for id %d" % sid)
            accepted_cb.add(sid)
            announced.add(sid)
            allocs.append(sid)
            open_ann += 1
        elif k == "N":
            if sid in closed:
                bad.append("T3: connect callback for id %d after its close" % sid)
            if sid in connected_cb:
                bad.append("T3: second connect callback for id %d" % sid)
            connected_cb.add(sid)
            if sid not in announced:
                open_ann += 1
            announced.add(sid)
        elif k == "D":
            if sid in closed:
                bad.append("T3: data for id %d after its close" % sid)
            elif sid not in announced:
                # no excuse: the harness never fabricates a readable-but-not-connected socket, so this is the engine's doing
                bad.append("T3: data for id %d before its accept/connect callback" % sid)
        elif k == "K":
            if sid in closed:
                bad.append("T1: id %d closed twice (%s, then %s)" % (sid, closed[sid], extra))
            else:
                closed[sid] = extra
                if sid in announced:
                    open_ann -= 1
        if cur is not None and k in "ANDK" and cur < open_ann:
            bad.append("T6: sessionsCurrent=%d under-counts: %d announced sessions are open (at event %d %s%d)" % (cur, open_ann, i, k, sid))
    if len(set(allocs)) != len(allocs):
        bad.append("T4: a session id was handed out twice: %s" % sorted(x for x in set(allocs) if allocs.count(x) > 1))
    if ordered_ids and allocs != sorted(allocs):
        bad.append("T4: ids not increasing in allocation order: %s" % allocs[:20])
    if final_known is not None:
        for sid in final_known:
            if sid not in closed:
                bad.append("T2: id %d was handed to the application and never closed although the engine was stopped in an orderly way" % sid)
        if final_cur is not None and final_cur != 0:
            bad.append("T6: sessionsCurrent=%d after every session has closed" % final_cur)
    return bad


def honour_monitor(parts):
    """the F3 monitor on a list of (model op, observation, index) records - used by the shrinker (same rule as in check_stepped)"""
    seen, closed, req, drained = set(), set(), {}, False
    for op, obs, idx in parts:
        if op is None:
            continue
        evs, _ = parse_obs(obs)
        for k, sid, extra, _x in evs:
            if k == "R" and extra.startswith("1") or k == "A":
                seen.add(sid)
            elif k == "K":
                closed.add(sid)
        k0 = op.split()[0]
        if k0 == "apiclose":
            s_ = int(op.split()[1])
            if s_ in seen and s_ not in closed and not drained:
                req.setdefault(s_, idx)
        elif k0 in ("proc", "drainfinish") and req:
            for s_ in sorted(req):
                if s_ not in closed:
                    return ["T2: close(%d) was accepted for an open id, the next complete process() did not close it" % s_]
            req.clear()
        if k0 == "drainfinish":
            drained = True
        elif k0 == "apistart":
            drained = False
    return []


def parse_obs(obs):
    """'A1,D1,K1:Code/cls|a,c,k,cur' -> (events, cur)"""
    cbs, _, st = obs.partition("|")
    cur = None
    if st and st != "-":
        cur = int(st.split(" ")[0].split(",")[3])
    evs = []
    if cbs and cbs != "-":
        for tok in cbs.split(","):
            m = EV.match(tok)
            if m:
                evs.append((m.group(1), -1 if m.group(2) == "?" else int(m.group(2)), m.group(3) or "", None))
    return evs, cur


def split_lines(impl_lines):
    """harness answer lines -> list of (model_op or None, obs, op_index)"""
    out = []
    for i, l in enumerate(impl_lines):
        for part in l.split(" ;; "):
            if " => " in part:
                a, b = part.split(" => ", 1)
                out.append((a, b, i))
            elif part not in ("-", ""):
                out.append((None, part, i))
    return out


def run_stepped(ctx, hb, cases, certdir):
    """Two passes: the real engines (answers + callbacks), then the model on the same answers."""
    env = {"C02_CERT_DIR": certdir}
    all_ops = []
    for c in cases:
        all_ops += c["ops"]
    out, rc, err = ctx.run_lines([hb], all_ops, timeout=900, env=env)
    if rc == 2 or (rc != 0 and "c02:" in err):
        raise RuntimeError("harness machinery failure rc=%s: %s" % (rc, err[-400:]))
    crashed_at = None
    if len(out) < len(all_ops) or rc != 0:
        crashed_at = len(out)
    res = []
    pos = 0
    for c in cases:
        n = len(c["ops"])
        lines = out[pos:pos + n]
        crash = None
        if crashed_at is not None and pos + n > crashed_at:
            from vlib.core import classify_crash
            crash = classify_crash(rc, err)
            lines = lines + ["crash:" + crash] * (n - len(lines))
        pos += n
        res.append((c, lines, crash))
        if crash:
            break
    rest = cases[len(res):]
    if rest and crashed_at is not None:
        res += run_stepped(ctx, hb, rest, certdir)
    return res


def check_stepped(ctx, hb, res, dist):
    """model pass + comparison + monitors"""
    model_ops = []
    spans = []
    for c, lines, crash in res:
        parts = split_lines(lines)
        a = len(model_ops)
        model_ops += [p[0] for p in parts if p[0] is not None]
        spans.append((a, len(model_ops), parts))
    mout, mrc, merr = ctx.run_lines(ctx.model_argv("life"), model_ops, timeout=600)
    if mrc != 0 or len(mout) != len(model_ops):
        raise RuntimeError("model driver failed rc=%s lines=%d/%d: %s" % (mrc, len(mout), len(model_ops), merr[-300:]))
    n_mis = 0
    for (c, lines, crash), (a, b, parts) in zip(res, spans):
        ctx.cov["traces_validated_against_impl"] += 1
        dist[c["cat"]] = dist.get(c["cat"], 0) + 1
        # ---- monitors (implementation output only)
        events = []
        final_known = None
        final_cur = None
        env_in = None
        mi = a
        mism = None
        sites = {}
        seen_ids, closed_ids, close_req, honour_fail, drained_flag = set(), set(), {}, None, [False]
        tag_fail = None
        for op, obs, idx in parts:
            if op is None:
                m = re.match(r"end known=(\S+) stats=(\S+)", obs)
                if m:
                    final_known = [] if m.group(1) == "-" else [int(x) for x in m.group(1).split(",")]
                    final_cur = int(m.group(2).split(",")[3])
                elif obs.startswith("tagbad") and tag_fail is None:
                    tag_fail = "T3: the engine's fd-tag map is inconsistent after `%s` (%s): a kernel event on that fd would be dispatched to a session that is freed, closed or not its owner" % (c["ops"][min(idx, len(c["ops"]) - 1)], obs[7:200])
                elif obs.startswith("tagchecks"):
                    ctx.extra["fd_tag_invariant_checks"] = ctx.extra.get("fd_tag_invariant_checks", 0) + int(obs.split()[1])
                elif obs.startswith("counters"):
                    # interposer fire / inject counts of the whole stepped run: `fn=fired/injected`
                    ctx.extra["interposers_fired_injected"] = dict(t.split("=") for t in obs.split()[1:])
                continue
            kinds = ctx.extra.setdefault("model_op_kinds", {})
            kinds[op.split()[0]] = kinds.get(op.split()[0], 0) + 1
            evs, cur = parse_obs(obs)
            if evs and cur is not None:
                evs[-1] = evs[-1][:3] + (cur,)
            events += evs
            mo = mout[mi]
            mi += 1
            if "!envin" in mo and env_in is None:
                env_in = (op, obs)
            for k, sid, extra, _ in evs:
                if k == "K":
                    sites[extra] = sites.get(extra, 0) + 1
            # ---- F3 monitor (implementation output only): an ACCEPTED close() request is honoured.  After `apiclose s` on an id the
            # application has seen (connect() returned it / accept callback) and that is still open, the next complete run of process()
            # (`proc`; on the stop path the whole drain, judged at `drainfinish`) must have closed s: the Close was queued FIFO behind the
            # id's own Connect, so process() finds the session (or the connect has failed and closed it).
            kind0 = op.split()[0]
            for k, sid, extra, _ in evs:
                if k == "R" and extra.startswith("1"):
                    seen_ids.add(sid)
                elif k == "A":
                    seen_ids.add(sid)
                elif k == "K":
                    closed_ids.add(sid)
            if kind0 == "apiclose":
                s_ = int(op.split()[1])
                if s_ in seen_ids and s_ not in closed_ids and not drained_flag[0]:
                    close_req.setdefault(s_, (op, idx))
                    ctx.extra["close_requests_on_open_ids"] = ctx.extra.get("close_requests_on_open_ids", 0) + 1
            elif kind0 in ("proc", "drainfinish") and close_req:
                for s_, (cop, cidx) in sorted(close_req.items()):
                    if s_ not in closed_ids and honour_fail is None:
                        honour_fail = ("T2: close(%d) was accepted for an open id the application holds (script op %d), but the next complete process() "
                                       "(`%s`) did not close it: the request was not honoured" % (s_, cidx, op[:60]))
                close_req.clear()
            if kind0 == "drainfinish":
                drained_flag[0] = True
            elif kind0 == "apistart":
                drained_flag[0] = False
            # ---- which close TRANSITIONS of the model the run went through (`~<site>` on the model's K tokens; stripped before comparing)
            eng = "udp" if c["cat"] == "udp-stepped" else "tcp"
            for tok in mo.split("|")[0].split(","):
                if tok.startswith("K") and "~" in tok:
                    sn = tok.rsplit("~", 1)[1]
                    reach = ctx.extra.setdefault("close_sites_reached", {"tcp": {}, "udp": {}})[eng]
                    reach[sn] = reach.get(sn, 0) + 1
                    if c["id"].startswith(("tcp", "udp")) and c["id"][3:].isdigit():
                        rr = ctx.extra.setdefault("close_sites_reached_by_random_cases", {"tcp": {}, "udp": {}})[eng]
                        rr[sn] = rr.get(sn, 0) + 1
            mo = re.sub(r"~[A-Za-z0-9.]+", "", mo)
            # ---- correspondence: same callbacks (with the close site's reason class), same gauges
            mcb, _, mrest = mo.partition("|")
            mstats = mrest.split(" ")[0]
            flags = mrest.split(" ")[1:]
            icb, _, istats = obs.partition("|")
            same = (icb == mcb) and (istats == "-" or istats == mstats) and not [f for f in flags if f != "!envin"]
            if not same and mism is None:
                mism = (op, obs, mo, idx)
        fails = []
        if crash:
            first = next((i for i, l in enumerate(lines) if l.startswith("crash:")), len(lines) - 1)
            fails.append("T0: the engine crashed (%s) in `%s`" % (crash, c["ops"][min(first, len(c["ops"]) - 1)]))
        fails += life_monitor(events, final_known, final_cur, ordered_ids=True)
        if honour_fail:
            fails.append(honour_fail)
        if tag_fail:
            fails.append(tag_fail)
        if env_in:
            # The kernel reported readable-without-writable for a plain socket whose connect callback is outstanding.  The harness
            # injects no such event (synthetic `ev` refuses it), so the engine's own epoll interest let it through: property failure.
            ctx.extra["env_contract_broken_cases"] = ctx.extra.get("env_contract_broken_cases", 0) + 1
            if not any(f.startswith("T3: data") for f in fails):
                fails.append("T3: payload reached a session whose connect callback is outstanding (`%s` -> `%s`): the engine's epoll interest on a pending connect "
                             "does not include EPOLLOUT (environment contract Tcp.envOk broken by the engine, not by an injected fault)" % env_in)
        for k, v in sites.items():
            ctx.extra.setdefault("close_reasons_seen", {})
            ctx.extra["close_reasons_seen"][k] = ctx.extra["close_reasons_seen"].get(k, 0) + v
        ctx.count_case("\n".join(c["ops"]), nontrivial=any(e[0] == "K" for e in events))
        if len(ctx.cov["samples"]) < 4 and c["id"].startswith(("tcp1", "udp1", "F30")):
            ctx.sample({"id": c["id"], "ops": c["ops"][:14], "trace": [p[0] + " => " + p[1] for p in parts if p[0]][:14]})
        if fails:
            report(ctx, hb, c, fails, lines)
        elif mism:
            n_mis += 1
            op, obs, mo, idx = mism
            ctx.violation("correspondence", "the lifecycle model cannot explain the real engine's trace (no property monitor fails): model op `%s` real=`%s` model=`%s`"
                          % (op[:120], obs[:160], mo[:160]),
                          {"broken": {"correspondence": "trace inclusion: harness/c02_life.cpp (stepped real engine) vs Model/EngineLifecycle.lean", "detail": "case %s, script op %d `%s`" % (c["id"], idx, c["ops"][idx])},
                           "ops": c["ops"], "observed": lines}, found_input=False)
    return n_mis


def report(ctx, hb, c, fails, lines, scn=False):
    ops = c["ops"]
    cls = fails[0].split(":")[0]
    if not ctx.violation_budget("property", fails[0]):
        ctx.violation("property", fails[0])
        return
    if not scn and len(ops) > 4:
        certdir = os.path.join(ctx.repo, "tests", "tls-certs")

        def still(sub):
            if not sub or not sub[0].split()[1:2] == ["reset"]:
                return False
            sub2 = list(sub)
            if not sub2[-1].endswith(" end"):
                sub2.append(ops[-1])
            out, rc, err = ctx.run_lines([hb], sub2, timeout=120, env={"C02_CERT_DIR": certdir})
            out = out + ["crash:x"] * (len(sub2) - len(out))
            parts = split_lines(out)
            events = []
            fk = fc = None
            for op, obs, idx in parts:
                if op is None:
                    m = re.match(r"end known=(\S+) stats=(\S+)", obs)
                    if m:
                        fk = [] if m.group(1) == "-" else [int(x) for x in m.group(1).split(",")]
                        fc = int(m.group(2).split(",")[3])
                    continue
                evs, cur = parse_obs(obs)
                if evs and cur is not None:
                    evs[-1] = evs[-1][:3] + (cur,)
                events += evs
            f2 = life_monitor(events, fk, fc) + honour_monitor(parts) + ["T3: the engine's fd-tag map is inconsistent" for op, obs, idx in parts if op is None and obs.startswith("tagbad")][:1]
            if rc not in (0,) and cls == "T0":
                return True
            if fails[0].startswith("T2: close("):
                return any(f.startswith("T2: close(") for f in f2)
            if fails[0].startswith("T3: the engine's fd-tag"):
                return any(f.startswith("T3: the engine's fd-tag") for f in f2)
            return any(f.split(":")[0] == cls for f in f2)
        try:
            if still(ops):
                ops = ddmin(ops, still, max_tests=80)
                if not ops[-1].endswith(" end"):
                    ops = ops + [c["ops"][-1]]
        except Exception:
            pass
    ctx.violation("property", fails[0], {"ops": ops, "case": c.get("id"), "failures": fails[:6], "observed": lines[:60] if ops is c["ops"] else None}, found_input=True)


def run_scenarios(ctx, hb, rng, n, dist):
    """threaded real engines: the engine's own thread and loop, application threads, stop at a random point; monitors only"""
    certdir = os.path.join(ctx.repo, "tests", "tls-certs")
    ops = []
    for i in range(n):
        proto = "udp" if i % 3 == 2 else "tcp"
        ops.append("scn %s seed=%d n=%d batch=%d et=%d stopms=%d racers=%d idle=%d cto=%d mwq=%d inj=%d nested=%d restart=%d" %
                   (proto, rng.below(1 << 30), rng.range(3, 12), rng.below(2), 0 if rng.chance(1, 4) else 1, rng.choice([5, 15, 30, 60, 1200 if i % 17 == 5 else 20]),
                    rng.choice([0, 1, 2, 3]), 1 if i % 17 == 5 else 0, rng.choice([200, 1000]), rng.choice([1, 2, 1024]), rng.choice([0, 0, 4, 40]), rng.below(2),
                    (1 + i % 2) if i % 3 != 1 else 0))     # two thirds of the scenarios stop and START AGAIN (the real start()) once or twice
    out, rc, err = ctx.run_lines([hb], ops, timeout=900, env={"C02_CERT_DIR": certdir})
    if rc == 2:
        raise RuntimeError("harness machinery failure: %s" % err[-300:])
    nev = 0
    for i, op in enumerate(ops):
        c = {"cat": "threaded", "ops": [op], "id": "scn%d" % i}
        dist["threaded"] = dist.get("threaded", 0) + 1
        if i >= len(out):
            from vlib.core import classify_crash
            report(ctx, hb, c, ["T0: the engine crashed or hung (%s) in a threaded scenario" % classify_crash(rc, err)], [err[-1500:]], scn=True)
            break
        l = out[i]
        if not l.startswith("scn"):
            report(ctx, hb, c, ["T0: scenario did not complete: %s" % l[:100]], [l], scn=True)
            continue
        body, _, fin = l.partition(" | final=")
        events = []
        known = []
        for tok in body.split()[1:]:
            m = EV.match(tok)
            if not m:
                continue
            k, sid, extra, cur = m.group(1), int(m.group(2)), m.group(3) or "", m.group(4)
            events.append((k, sid, extra, int(cur) if cur is not None else None))
            if k == "R" and extra.startswith("1"):
                known.append(sid)
            if k == "A":
                known.append(sid)
        nev += len(events)
        final_cur = int(fin.split(",")[3]) if fin else None
        fails = life_monitor(events, known, final_cur, ordered_ids=False)
        nrest = sum(1 for e in events if e[0] == "S" and e[2] == "restart")
        ctx.extra["threaded_restarts"] = ctx.extra.get("threaded_restarts", 0) + nrest
        if any(e[0] == "S" and e[2] == "restartFailed" for e in events):
            fails.append("T0: start() on the stopped engine failed (restart)")
        # T6 at every stop of the scenario, not only the last: the gauge read right after stop() returned
        for e in events:
            if e[0] == "S" and e[2] == "end" and e[3] not in (None, 0):
                fails.append("T6: sessionsCurrent=%d after an orderly stop" % e[3])
                break
        ctx.cov["traces_validated_against_impl"] += 1
        ctx.count_case(op, nontrivial=any(e[0] == "K" for e in events))
        if fails:
            report(ctx, hb, c, fails, [l[:3000]], scn=True)
    ctx.extra["threaded_events"] = nev


def load_corpus():
    d = os.path.join(HERE, "corpus", "C02")
    out = []
    if os.path.isdir(d):
        for fn in sorted(os.listdir(d)):
            if fn.endswith(".json"):
                c = json.load(open(os.path.join(d, fn)))
                c.setdefault("cat", "tcp-stepped" if c["ops"][0].startswith("tcp") else "udp-stepped" if c["ops"][0].startswith("udp") else "fanout")
                c.setdefault("id", fn[:-5])
                out.append(c)
    return out


def run(ctx: Ctx):
    quick = ctx.tier == "quick"
    scale = 1 if quick else 25
    rng = ctx.rng
    ctx.translate(["closesites"])
    ok_build = ctx.lake_build(MODULES)
    if ok_build:
        ctx.audit(MODULES, OBLIGATIONS)
        if not quick:
            ctx.leanchecker([m for m in LEANCHECK if os.path.exists(os.path.join(os.environ.get("VERIF_LEAN", os.path.join(HERE, "lean")), m.replace(".", "/") + ".lean"))])
    else:
        ctx.cov["obligations"] = len(OBLIGATIONS)
    hb = ctx.build_harness("harness/c02_life.cpp", sanitize=True)
    dist = {}
    if hb:
        ctx.model_argv("life")      # raises ModelBuildError (already a violation) if the driver does not build
        certdir = os.path.join(ctx.repo, "tests", "tls-certs")
        if ctx.replay:
            r = json.load(open(ctx.replay))
            first = r["ops"][0].split()[0]
            cat = {"tcp": "tcp-stepped", "udp": "udp-stepped", "fan": "fanout", "scn": "threaded"}.get(first, r.get("category", "tcp-stepped"))
            cases = [{"cat": cat, "ops": r["ops"], "id": "replay"}]
            corpus = []
        else:
            corpus = load_corpus()
            cases = corpus + [dict(c) for c in FIXED_CASES] + ([dict(SLOW_CASE)] if True else [])
            r1 = rng.fork("tcp")
            r2 = rng.fork("udp")
            cases += [gen_tcp_script(r1, i) for i in range(130 * scale)]
            cases += [gen_udp_script(r2, i) for i in range(90 * scale)]
        stepped = [c for c in cases if c["cat"] in ("tcp-stepped", "udp-stepped")]
        if not ctx.replay:
            stepped.append({"cat": "tcp-stepped", "id": "counters", "ops": ["tcp reset", "tcp end", "counters"]})
        fan = [c for c in cases if c["cat"] == "fanout"]
        scns = [c for c in cases if c["cat"] == "threaded"]
        t = time.time()
        res = run_stepped(ctx, hb, stepped, certdir)
        nm = check_stepped(ctx, hb, res, dist)
        ctx.log("stepped engines: %d histories, %d correspondence mismatches (%.1fs)" % (len(res), nm, time.time() - t))
        if not ctx.replay:
            # review F5: the evidence must PROVE which close transitions the correspondence run went through; a site of the model's tables
            # (asked from the driver) that no case reached is a hole in the generator, i.e. a machinery failure - never silently accepted
            so = ctx.run_lines(ctx.model_argv("life"), ["sites tcp", "sites udp"], timeout=60)[0]
            reach = ctx.extra.setdefault("close_sites_reached", {"tcp": {}, "udp": {}})
            missing = {}
            for eng, line in zip(("tcp", "udp"), so):
                for sn in line.split():
                    reach[eng].setdefault(sn, 0)
                    if reach[eng][sn] == 0 and sn not in ADMITTED_UNREACHED[eng]:
                        missing.setdefault(eng, []).append(sn)
            ctx.extra["close_sites_never_reached"] = missing
            ctx.extra["close_sites_admitted_unreachable"] = {k: sorted(v) for k, v in ADMITTED_UNREACHED.items()}
            if missing and not ctx.violations:
                raise RuntimeError("close sites of the model never reached by the correspondence run: %s" % missing)
        # ---- fan-out lockstep
        if not ctx.replay:
            r3 = rng.fork("fan")
            fan += [gen_fan_case(r3, i) for i in range(150 * scale)]
            r4 = rng.fork("deliver")
            fan += [gen_deliver_case(r4, i) for i in range(250 * scale)]
        dlv_ops = {}
        if fan:
            fres = ctx.lockstep("life", hb, fan)
            for c, impl, model in fres:
                dist["fanout"] = dist.get("fanout", 0) + 1
                ctx.count_case("\n".join(c["ops"]), nontrivial=any(l not in ("-", "bad-op") for l in impl))
                fails = fan_monitor(c, impl)
                dfails = deliver_monitor(c, impl)
                deliver_count(c, impl, dlv_ops)
                if any(op.split()[1] in DELIVER_OPS for op in c["ops"][1:] if len(op.split()) > 1):
                    dist["fanout-delivery"] = dist.get("fanout-delivery", 0) + 1
                    for op in c["ops"][1:]:
                        w = op.split()
                        if len(w) > 1 and w[1] in DELIVER_OPS + ("close",):
                            dlv_ops[w[1]] = dlv_ops.get(w[1], 0) + 1
                    dlv_ops["flushes (data callback from a setReadMode line)"] = dlv_ops.get("flushes (data callback from a setReadMode line)", 0) + \
                        sum(1 for op, l in zip(c["ops"], impl) if " mode " in op and l.startswith("D"))
                    seen_close = set()
                    for op in c["ops"][1:]:
                        w = op.split()
                        if len(w) > 2 and w[1] == "close":
                            seen_close.add(w[2])
                        elif len(w) > 2 and w[1] in ("mode", "recv") and w[2] in seen_close:
                            k = "%s on an id after its close" % ("setReadMode" if w[1] == "mode" else "receiveSync")
                            dlv_ops[k] = dlv_ops.get(k, 0) + 1
                if dfails and not fails:
                    if not ctx.violation_budget("property", dfails[0]):
                        ctx.violation("property", dfails[0])
                        continue
                    small = shrink_deliver(ctx, hb, c["ops"])
                    obs = ctx.run_lines([hb], small, timeout=60)[0]
                    sf = deliver_monitor({"ops": small}, obs) or dfails
                    ctx.violation("property", sf[0], {"ops": small, "category": "fanout", "observed": obs, "failures": sf[:5], "unshrunk_ops": c["ops"],
                                                      "unshrunk_failure": dfails[0]}, found_input=True)
                    continue
                if any(l.startswith(("crash:", "throw")) for l in impl):
                    fails.insert(0, "T0: the Transport crashed/threw in the close fan-out: %s" % [l for l in impl if l.startswith(("crash:", "throw"))][0])
                mism = [(i, a, b) for i, (a, b) in enumerate(zip(impl, model)) if a != b]
                if fails:
                    ctx.violation("property", fails[0], {"ops": c["ops"], "category": "fanout", "observed": impl, "failures": fails[:5]}, found_input=True)
                elif mism:
                    i, a, b = mism[0]
                    ctx.violation("correspondence", "close fan-out: model and Transport disagree on `%s`: impl=`%s` model=`%s`" % (c["ops"][i], a, b),
                                  {"broken": {"correspondence": "fan-out lockstep (harness/c02_life.cpp `fan` vs Model/CloseFanout.lean + Model/CloseDeliver.lean)", "detail": "op index %d" % i},
                                   "ops": c["ops"], "observed": impl, "expected_by_model": model}, found_input=False)
        # ---- threaded scenarios (monitors only)
        if not ctx.replay:
            t = time.time()
            run_scenarios(ctx, hb, rng.fork("scn"), 36 if quick else 900, dist)
            ctx.log("threaded scenarios done (%.1fs)" % (time.time() - t))
        # ---- thorough: the same threaded scenarios under ThreadSanitizer (a report that names engine / transport code is a finding)
        if not quick and not ctx.replay:
            tb = ctx.build_harness("harness/c02_life.cpp", name="c02_life_tsan", sanitize=False, flags=["-fsanitize=thread"])
            if tb:
                r5 = rng.fork("tsan")
                ops = []
                for i in range(120):
                    ops.append("scn %s seed=%d n=%d batch=%d et=1 stopms=%d racers=%d idle=0 cto=200 mwq=%d inj=%d nested=%d" %
                               ("udp" if i % 3 == 2 else "tcp", r5.below(1 << 30), r5.range(3, 10), r5.below(2), r5.choice([5, 15, 30]), r5.choice([1, 2, 3]),
                                r5.choice([1, 2, 1024]), r5.choice([0, 4]), r5.below(2)))
                out, rc, err = ctx.run_lines([tb], ops, timeout=1800, env={"C02_CERT_DIR": certdir, "TSAN_OPTIONS": "halt_on_error=0:exitcode=0:report_signal_unsafe=0"})
                reports = [r for r in err.split("==================") if "WARNING: ThreadSanitizer" in r and re.search(r"tcp_engine\.hpp|udp_engine\.hpp|transport_impl\.hpp", r)]
                ctx.extra["tsan_scenarios"] = len(out)
                ctx.extra["tsan_reports"] = len(reports)
                dist["threaded-tsan"] = len(out)
                if reports:
                    ctx.violation("property", "T0: ThreadSanitizer reports a data race in engine lifecycle code during a threaded scenario",
                                  {"ops": ops[:len(out) + 1][-3:], "category": "threaded", "tsan": reports[0][:3000]}, found_input=True)
                if len(out) < len(ops):
                    from vlib.core import classify_crash
                    ctx.violation("property", "T0: the engine crashed or hung under ThreadSanitizer (%s)" % classify_crash(rc, err),
                                  {"ops": ops[len(out):len(out) + 1], "category": "threaded", "stderr": err[-2000:]}, found_input=True)
    ctx.extra["input_distribution"] = dist
    ctx.extra["delivery_op_distribution"] = dlv_ops if hb else {}
    ctx.extra["repo_tree_sha"] = ctx.repo_tree_sha(ANCHOR_FILES)
    ctx.extra["not_proved"] = [
        "T3 at the Transport level (T3_no_delivery_after_close_transport) covers histories of COMPLETE calls: every engine callback half (closeMark / closeCbs) and every "
        "setReadMode / receiveSync call runs to completion before the next op starts; complete application calls INSIDE a close handler run (between the mark and the callbacks, "
        "on another thread) are covered since repair FC03c. A Sync->Async flush already IN PROGRESS on an application thread while the I/O thread runs the close handler (the flush has taken bytes "
        "under the lock, or keeps draining chunks that arrived during its own callback) can still hand those bytes to the data callback after the close callback - the window C03 "
        "models as flushTake/flushDeliver; closing it needs the close handler to wait for the flusher or the flusher to drop data, neither of which is a small repair. connectSync "
        "suppression (pendingConnects, C04) and teardown (shuttingDown) are outside this piece of model",
        "T3c on TCP (`data only after the connect callback`) is proved for histories whose INPUTS honour Tcp.envOkHistory (the kernel offers no payload to a plain client socket "
        "before reporting its connect completion); that the engine keeps EPOLLOUT registered so that the kernel can honour it is tied by the translated updateInterest/addEpoll "
        "skeleton and checked on the real engine by the unconditional monitor `no data before announce` - not proved about epoll itself. T3a/T3b and T3c on UDP carry no hypothesis",
        "T2 while running: the SAFETY rendering (every open id is still pending in the queue or live in the table) plus `an accepted close() request is honoured` "
        "(T2_close_request_honoured: once the I/O thread has taken every queued command the id is closed); that a running engine eventually processes its queue is a liveness "
        "fact of the I/O loop and is not stated. `Exactly one close` for ids nobody closes is proved at the end of an orderly stop",
        "fd reuse (review F6b): the lifecycle model keys I/O events by session id; which session an event on an fd NUMBER reaches is a separate layer "
        "(Model/FdTags.lean: insert / closeNow / drain over kernel-reused fd numbers) with its own theorems (fd_tags_point_at_live_owner, fd_tags_cover_open_sessions, "
        "F35_refuted). The two layers are not composed by a refinement theorem: their tie is the translator fact drainErasesTags the FdTags instance is defined from, the stepped "
        "harness labelling every real event through the engine's own tag map, and the tag-invariant monitor evaluated on the REAL engine after every stepped op "
        "(fd_tag_invariant_checks in the evidence); `emplace does not overwrite` and `closeNow erases the tag` are read off the source by hand, not regenerated",
        "the Role column of the site tables (which model transition plays a source site) is checked by the correspondence run (every close site reached at least once, per-site "
        "counters in close_sites_reached) and by the bijection theorem, not by a theorem that relates the C++ function name to the model function",
        "T6: the gauge is compared at handler boundaries. closeNow() decrements sessionsCurrent BEFORE it calls the close callback, so inside onClose (and for a concurrent getStats()) "
        "the closing session is already not counted; the model's gauge equation is about states between handlers, the monitor's `never under-counts announced open sessions` is "
        "evaluated after each callback batch",
        "the close site `listener gone` of UdpEngine::sendDo is unreachable through the public API (listeners are only removed by the drain, after every session is gone): "
        "it is a model transition tied by the site table, never exercised",
        "the EventBatchProcessor path (loopBatched) is tied by its call skeleton and exercised by the threaded scenarios only (monitors), not by the stepped acceptor",
        "the lock acquisitions of Transport::observe/unobserve/setSessionData/close handler and the atomicity of _nextSessionId are translator facts (token present in the "
        "source); the interleavings they exclude are explored only by the thorough-tier TSan scenarios on the engines, not on Transport",
    ]
    ctx.assumptions += [
        "callbacks are installed before the engine starts (Transport::Impl::setupEngineCallbacks always installs all five)",
        "no exception escapes an application callback; of the engine's own calls the one that can throw in a handler after connect() has returned the id - std::async in "
        "doConnect (resolver thread cannot be created) - is modelled (answer `throw`, close site resolveThrow, repair FC02b); bad_alloc in a handler is not modelled",
        "stop() followed by start() on the same engine instance is inside the MODEL (apiStart after a completed drain). Its tie to the source: the start() call skeletons "
        "(queue re-opened, fresh loop, maps and id counter untouched), the census `_nextSessionId has no use besides its declaration and the post-increments`, and the threaded "
        "scenarios that call the REAL start() after stop() once or twice (T1/T2/T4/T6 monitors across the restart); the stepped acceptor replays start() by hand (manualStart). "
        "Destroying an engine is not modelled",
        "kernel, OpenSSL and clocks are inputs of the model (answer lists): which event/answer follows which is not verified, except that the stepped harness never "
        "fabricates `readable without writable` for a plain socket whose connect callback is outstanding (the environment contract Tcp.envOk)",
        "the stepped acceptor derives three inputs from the implementation's own callbacks rather than independently: which sessions a GC pass picked (the ids it closed with "
        "reason gc), the set and order of sessions closed by the shutdown drain (unordered_map iteration order), and whether the inline handshake-timeout check fired (the close "
        "with reason hsTimeout inside a handshake step). For these the model checks that each such close is LEGAL (session live, not yet closed, in the right phase) and that "
        "nothing is missing at the end (T2/T6), not that the choice itself is the one a specification would make",
    ]
    return ctx.finish(level="proof", rule="a case = one scripted history over a stepped REAL TcpEngine/UdpEngine on loopback (model must explain its trace), one close fan-out "
                      "history over Transport+scripted engine (lockstep), or one threaded real-engine scenario (monitors); non-trivial = at least one close / callback")
