"""C20 — Static asset and template lookup never escapes its root directory (DESIGN §7 C20, partial by nature).

Lean model: Model/Assets.lean (lexical filter, containment, lookups, caches, the read loop of readFile, over a file-system model with
model functions for kernel path resolution, realpath, weakly_canonical, lexically_normal/relative, open(O_NOFOLLOW));
Model/AssetsRace.lean (N threads on the double-checked caches, lock skeleton from Gen); Model/AssetsServe.lean (serveStatic glue,
percentDecode).  Theorems: Props/C20.lean, Props/C20Race.lean, Props/C20Serve.lean.
Tie: translator units `assets` (constants, call order, operand skeleton, census of every file-system token, read-loop and lock
skeleton facts) and `assetserve`; lockstep of the real iora::web::Assets + real std::filesystem/kernel against the model on random
directory trees materialised under ctx.work (harness/c20_assets.cpp: interposed stat/realpath/open/read, schedules at every
system-call boundary, gated two-thread schedules) and of the real Application::serveStatic/render (harness/c20_serve.cpp, helper
props/c20_servelib.py); implementation-only monitors (content origin, by-location, OS realpath oracle, swap storm)."""
import os, json
from vlib.core import Ctx, hexs, unhex, ddmin, ModelBuildError
from props import c20_servelib as S

ID = "C20"
MODULES = ["IoraModel.Props.C20", "IoraModel.Props.C20Race"]
ANCHOR_FILES = ["include/iora/web/assets.hpp"]

W_TOKEN = b"@W@"          # placeholder for the sandbox directory in symbolic ops (corpus / replay files are portable)


# ------------------------------------------------------------------ symbolic ops
def H(b):
    return ("h", bytes(b))


def E(kind, path, data=b""):
    return ("e", kind, bytes(path), bytes(data))


def render_tok(tok, W):
    if isinstance(tok, str):
        return tok
    if tok[0] == "h":
        return hexs(tok[1].replace(W_TOKEN, W))
    if tok[0] == "e":
        k, p, d = tok[1], tok[2].replace(W_TOKEN, W), tok[3].replace(W_TOKEN, W)
        return "d:%s" % hexs(p) if k == "d" else "%s:%s:%s" % (k, hexs(p), hexs(d))
    if tok[0] == "l":      # comma list of colon records of byte strings / None
        if not tok[1]:
            return "-"
        return ",".join(":".join("~" if x is None else hexs(x.replace(W_TOKEN, W)) for x in rec) for rec in tok[1])
    raise ValueError(tok)


def render(sop, W):
    return " ".join(render_tok(t, W) for t in sop)


def sop_to_json(sop):
    out = []
    for t in sop:
        if isinstance(t, str):
            out.append(t)
        elif t[0] == "chain":
            out.append({"chain": 1})
        elif t[0] == "h":
            out.append({"h": t[1].decode("latin-1")})
        elif t[0] == "e":
            out.append({"e": [t[1], t[2].decode("latin-1"), t[3].decode("latin-1")]})
        else:
            out.append({"l": [[None if x is None else x.decode("latin-1") for x in rec] for rec in t[1]]})
    return out


def sop_from_json(js):
    out = []
    for t in js:
        if isinstance(t, str):
            out.append(t)
        elif "chain" in t:
            out.append(("chain",))
        elif "h" in t:
            out.append(("h", t["h"].encode("latin-1")))
        elif "e" in t:
            out.append(("e", t["e"][0], t["e"][1].encode("latin-1"), t["e"][2].encode("latin-1")))
        elif "erep" in t:          # a file whose content is <unit> repeated and cut to <size> bytes (keeps corpus files small)
            k, pth, unit, size = t["erep"]
            unit = unit.encode("latin-1")
            out.append(("e", k, pth.encode("latin-1"), (unit * (size // len(unit) + 1))[:size]))
        else:
            out.append(("l", [[None if x is None else x.encode("latin-1") for x in rec] for rec in t["l"]]))
    return out


# ------------------------------------------------------------------ tree generator
POOL_FILES = [b"a.txt", b"b.html", b"img.PNG", b"noext", b".hidden", b"x.tar.gz", b"s.css", b"y.js", b"%2e%2e", b"sp ace.txt",
              b"caf\xc3\xa9.txt", b"back\\slash.txt", b"..hidden", b"...", b"a..b", b"index.HTM", b"f.svg", b"q.json", b"%2f", b".. "]
POOL_DIRS = [b"d1", b"d2", b"d.dir", b"deep", b"img", b"..d", b"%2e"]
LONG255 = b"L" * 255


class Tree:
    """A physical directory tree below the sandbox: tuple of names -> ('d',) | ('f', content) | ('l', target)."""
    def __init__(self):
        self.ent = {(): ("d",)}
        self.order = []
        self.n = 0
        self.content_path = {}     # content -> physical path tuple (contents are unique)

    def free(self, p):
        return p not in self.ent and p[:-1] in self.ent and self.ent[p[:-1]][0] == "d" and len(p) <= 9

    def fresh(self, p, tag=b"C"):
        self.n += 1
        c = tag + b"%d:" % self.n + b"/".join(p)[-40:]
        self.content_path[c] = p
        return c

    def add_dir(self, p):
        if self.free(p):
            self.ent[p] = ("d",)
            self.order.append(p)
            return True
        return p in self.ent and self.ent[p][0] == "d"

    def add_file(self, p, content=None):
        if not self.free(p):
            return False
        c = content if content is not None else self.fresh(p)
        self.content_path.setdefault(c, p)
        self.ent[p] = ("f", c)
        self.order.append(p)
        return True

    def add_link(self, p, target):
        if not self.free(p) or not target or len(target) > 3000:
            return False
        self.ent[p] = ("l", target)
        self.order.append(p)
        return True

    def dirs(self):
        return [p for p in self.ent if self.ent[p][0] == "d"]

    def paths(self):
        return list(self.ent.keys())


def abs_of(p):
    return W_TOKEN + b"".join(b"/" + n for n in p)


def rel_target(frm_dir, to, rng):
    """a relative spelling of physical path `to` as seen from physical directory `frm_dir`"""
    k = 0
    while k < len(frm_dir) and k < len(to) and frm_dir[k] == to[k]:
        k += 1
    if rng.chance(1, 5) and k > 0:
        k -= 1          # go one level higher than necessary
    parts = [b".."] * (len(frm_dir) - k) + list(to[k:])
    if not parts:
        parts = [b"."]
    return parts


def up_from(dir_p, tail):
    """relative spelling of sandbox-relative `tail` as seen from the physical directory `dir_p` (a tuple below the sandbox)"""
    return b"../" * len(dir_p) + tail


def noise(parts, rng, absolute):
    out = b"/" if absolute else b""
    for i, c in enumerate(parts):
        if i:
            out += rng.choice([b"/", b"/", b"/", b"//", b"/./"])
        elif not absolute and rng.chance(1, 8):
            out += b"./"
        out += c
    if rng.chance(1, 8):
        out += rng.choice([b"/", b"/.", b"//"])
    return out


def gen_link_target(t, at_dir, rng):
    k = rng.below(20)
    allp = t.paths()
    if k < 11:
        to = rng.choice(allp)
        if rng.chance(1, 3):
            return abs_of(to) + (b"/" if rng.chance(1, 10) else b"")
        return noise(rel_target(at_dir, to, rng), rng, False)
    if k < 13:
        return rng.choice([b"nonexistent", b"../nonexistent/x", abs_of((b"outside", b"gone")), b"d1/missing"])
    if k < 15:
        return rng.choice([b".", b"..", b"../..", b"./", b"../", b"/", b"//", b"../../.."])
    if k < 17:
        to = rng.choice(allp)
        return noise(rel_target(at_dir, to, rng) + [rng.choice(POOL_FILES + POOL_DIRS)], rng, False)
    if k < 18:
        return rng.choice([b"self", b"loopA", b"loopB"])
    to = rng.choice(allp)
    return noise(rel_target(at_dir, to, rng) + [b"..", rng.choice(POOL_FILES + POOL_DIRS)], rng, False)


def gen_tree(rng):
    t = Tree()
    cfg = {}
    t.add_dir((b"app",))
    t.add_dir((b"outside",))
    t.add_file((b"outside", b"secret.txt"), t.fresh((b"outside", b"secret.txt"), b"SECRET"))
    t.add_dir((b"outside", b"dir"))
    t.add_file((b"outside", b"dir", b"secret2.txt"), t.fresh((b"outside", b"dir", b"secret2.txt"), b"SECRET"))
    t.add_file((b"outside", b"a.txt"), t.fresh((b"outside", b"a.txt"), b"SECRET"))
    t.add_file((b"outside", b"a.txt.gz"), t.fresh((b"outside", b"a.txt.gz"), b"SECRET"))
    t.add_dir((b"ext",))
    # the two roots, in several shapes
    for sub, key in ((b"static", "static"), (b"templates", "templates")):
        k = rng.below(40)
        p = (b"app", sub)
        if k < 30:
            t.add_dir(p)
            cfg[key] = p
        elif k < 32:
            cfg[key] = None                                   # missing at construction
        elif k < 35:
            real = (b"app", b"real-" + sub)
            t.add_dir(real)
            t.add_link(p, rng.choice([b"real-" + sub, b"./real-" + sub + b"/", abs_of(real)]))
            cfg[key] = real
        elif k < 37:
            t.add_link(p, rng.choice([b"../outside", abs_of((b"outside",)), b"../outside/dir/.."]))
            cfg[key] = (b"outside",)                          # configuration points the root outside the app dir: that IS the root
        elif k < 38:
            t.add_file(p)
            cfg[key] = None
        elif k < 39:
            t.add_link(p, b"nowhere")
            cfg[key] = None
        else:
            t.add_link(p, sub)                                # self loop
            cfg[key] = None
    # sibling-prefix decoys
    t.add_dir((b"app", b"static2"))
    t.add_file((b"app", b"static2", b"a.txt"), t.fresh((b"app", b"static2", b"a.txt"), b"SECRET"))
    t.add_file((b"app", b"staticx"), t.fresh((b"app", b"staticx"), b"SECRET"))
    t.add_file((b"app", b"top.txt"), t.fresh((b"app", b"top.txt"), b"SECRET"))
    bases = [b for b in (cfg["static"], cfg["templates"], (b"ext",)) if b is not None and b in t.ent and t.ent[b][0] == "d"]
    # populate
    for b in bases:
        for _ in range(rng.range(1, 3)):
            d = b
            for _ in range(rng.range(1, 3)):
                d = d + (rng.choice(POOL_DIRS),)
                t.add_dir(d)
        if rng.chance(1, 6):
            t.add_dir(b + (LONG255,))
            t.add_file(b + (LONG255, b"a.txt"))
            t.add_file(b + (LONG255[:200] + b".txt",))
    for _ in range(rng.range(6, 16)):
        d = rng.choice(t.dirs())
        t.add_file(d + (rng.choice(POOL_FILES),))
    for b in bases:
        t.add_file(b + (b"a.txt",))
        if rng.chance(1, 2):
            t.add_file(b + (b"s.css",))
    # gz siblings of every shape
    for p in [p for p in t.paths() if t.ent[p][0] == "f" and p[0] != b"outside"]:
        if rng.chance(1, 4):
            gz = p[:-1] + (p[-1] + b".gz",)
            k = rng.below(6)
            if k < 3:
                t.add_file(gz)
            elif k == 3:
                t.add_link(gz, noise(rel_target(gz[:-1], (b"outside", b"secret.txt"), rng), rng, False))
            elif k == 4:
                t.add_dir(gz)
            else:
                inside = [q for q in t.paths() if t.ent[q][0] == "f" and q[0] != b"outside"]
                t.add_link(gz, noise(rel_target(gz[:-1], rng.choice(inside), rng), rng, False))
    # symbolic links
    for i in range(rng.range(4, 12)):
        d = rng.choice(t.dirs())
        name = rng.choice([b"ln%d" % i, b"ln%d.txt" % i, b"ln%d.html" % i, b"self", b"loopA", b"loopB"])
        t.add_link(d + (name,), gen_link_target(t, d, rng))
    # a chain of links across the ELOOP boundary
    if rng.chance(1, 4) and bases:
        b = rng.choice(bases)
        n = rng.choice([38, 39, 40, 41, 42])
        if t.add_file(b + (b"chain-end.txt",)):
            for i in range(n):
                t.add_link(b + (b"c%d" % i,), b"c%d" % (i + 1) if i + 1 < n else b"chain-end.txt")
            cfg["chain"] = (b, n)
    # alternative spellings of the application root
    t.add_link((b"approot",), rng.choice([b"app", b"./app/", abs_of((b"app",)), b"app/."]))
    t.add_link((b"extlink",), b"ext")
    return t, cfg


def tree_op(t, cwd):
    chain = ("chain",)
    toks = ["tree", H(cwd), chain]
    for p in t.order:
        e = t.ent[p]
        toks.append(E(e[0], abs_of(p), e[1] if len(e) > 1 else b""))
    return toks


def render_tree_tok(tok, W):
    # the chain of real directories from `/` down to the sandbox (for the model only; the harness checks they exist)
    parts = [x for x in W.split(b"/") if x]
    out = []
    for i in range(1, len(parts) + 1):
        out.append("d:%s" % hexs(b"/" + b"/".join(parts[:i])))
    return " ".join(out)


def render_case(sops, W):
    out = []
    for sop in sops:
        toks = []
        for t in sop:
            if isinstance(t, tuple) and t[0] == "chain":
                toks.append(render_tree_tok(t, W))
            else:
                toks.append(render_tok(t, W))
        out.append(" ".join(toks))
    return out


# ------------------------------------------------------------------ name generator
def pin_dirlink(t, base, rng, tag):
    """The shape every run must reach in every mode (seed C20-a and its variants): a DIRECTORY link inside the root that
    points outside it — to the `outside` tree (relative or absolute spelling) and to a sibling whose name has the root's name as a
    prefix — and requests that go THROUGH it to a regular file.  Returns the request names (plain and noisy spellings)."""
    names = []
    sib = base[:-1] + (base[-1] + b"-evil",)
    t.add_dir(sib)
    t.add_file(sib + (b"e.txt",), t.fresh(sib + (b"e.txt",), b"SECRET"))
    sub = base + (b"pl-sub",)
    t.add_dir(sub)
    l1 = base + (b"pl-" + tag,)
    if rng.chance(1, 2):
        ok1 = t.add_link(l1, noise(rel_target(base, (b"outside",), rng), rng, False))
    else:
        ok1 = t.add_link(l1, abs_of((b"outside",)) + (b"/" if rng.chance(1, 4) else b""))
    l2 = sub + (b"sib",)
    ok2 = t.add_link(l2, noise(rel_target(sub, sib, rng), rng, False))
    if ok1:
        names += [l1[-1] + b"/secret.txt", l1[-1] + b"/dir/secret2.txt", rng.choice([b"./", b""]) + l1[-1] + rng.choice([b"//", b"/./"]) + b"secret.txt",
                  l1[-1] + b"/dir//secret2.txt"]
    if ok2:
        names += [b"pl-sub/sib/e.txt", b"pl-sub//sib/./e.txt"]
    return names


def rel_names(t, base):
    """relative spellings that lead (physically or through links) to something, seen from directory `base`"""
    out = []
    for p in t.paths():
        if len(p) > len(base) and p[:len(base)] == base:
            out.append(b"/".join(p[len(base):]))
    return out


def mutate_name(s, rng, t):
    k = rng.below(44)
    if k < 8 or rng.chance(1, 5):
        return s
    if k == 8:
        return s.replace(b"/", b"//")
    if k == 9:
        return s.replace(b"/", b"/./")
    if k == 10:
        return b"./" + s
    if k == 11:
        return b"/" + s
    if k == 12:
        return b"../" * rng.range(1, 4) + s
    if k == 13:
        return b"..\\" * rng.range(1, 3) + s
    if k == 14:
        return s + rng.choice([b"/", b"//", b"/.", b"/./", b"/./."])
    if k == 15:
        return s + b"/.."
    if k == 16:
        return s + b"/" + rng.choice(POOL_FILES + POOL_DIRS)
    if k == 17:
        parts = s.split(b"/")
        return b"/".join(parts[:-1] + [rng.choice(POOL_DIRS), b"..", parts[-1]])
    if k == 18:
        return b"%2e%2e/" * rng.range(1, 3) + s
    if k == 19:
        return s.replace(b"/", b"%2f").replace(b".", b"%2e")
    if k == 20:
        return s + b"\0" + rng.choice([b".png", b"", b"/../x"])
    if k == 21:
        return rng.choice([b"\0", b"\0/"]) + s
    if k == 22:
        return s.replace(b"/", b"\\") if b"/" in s else s + b"\\"
    if k == 23:
        return s.swapcase()
    if k == 24:
        return s + b".gz"
    if k == 25:
        return rng.choice([b"...", b"....", b".. ", b" ..", b"..;", b"..%00", b". .", b".", b"", b"./", b".//.", b"./.", b"..", b"../"])
    if k == 26:
        return s + b"/" + rng.choice([b"...", b".. ", b"..."]) + b"/" + s
    if k == 27:
        return rng.choice([b"A" * 255, b"A" * 256, b"A" * 300, LONG255, LONG255 + b"/a.txt", LONG255 + b"x/a.txt", LONG255[:200] + b".txt"])
    if k == 28:
        return s + b"/" + b"A" * rng.choice([255, 256])
    if k == 29:
        return b"./" * rng.choice([2040, 2100, 1800]) + s
    if k == 30:
        return b"d1/" * rng.choice([1400, 30]) + s
    if k == 31:
        return abs_of((b"outside", b"secret.txt"))
    if k == 32:
        return rng.choice([b"/etc/passwd", b"//etc/passwd", b"/", b"//"])
    if k == 33:
        links = [p for p in t.paths() if t.ent[p][0] == "l"]
        if links:
            return rng.choice(links)[-1] + rng.choice([b"", b"/", b"/secret.txt", b"/secret2.txt", b"/a.txt", b"/dir/secret2.txt", b"/."])
        return s
    if k == 34:
        return s.replace(b".", b"..", 1)
    if k == 35:
        return b"static/" + s
    if k == 36:
        i = rng.below(len(s) + 1)
        return s[:i] + bytes([rng.choice([0, 92, 47, 46, 37, 255, 128, 10, 32])]) + s[i:]
    if k == 37 and s:
        i = rng.below(len(s))
        return s[:i] + s[i + 1:]
    if k == 38:
        return s + rng.choice([b" ", b".", b"..", b"/ ", b"\t"])
    if k == 39:
        return rng.choice([b"../static/", b"../static2/", b"../templates/", b"./../"]) + s
    if k == 40:
        return rng.choice([b"..", b"../..", b"../../outside/secret.txt", b"d1/../../top.txt", b"..//top.txt", b"./../top.txt"])
    if k == 41:
        return b"c0"
    if k == 42:
        return s.replace(b"/", b"/" * rng.range(2, 5))
    return rng.choice(POOL_FILES)


def gen_names(t, base, rng, n):
    """list of (name, pristine): pristine = an unmutated relative spelling of something that exists"""
    cands = rel_names(t, base) if base is not None else []
    cands += [b"a.txt", b"s.css", b"d1/a.txt"]
    out = []
    for _ in range(n):
        s0 = rng.choice(cands)
        s = s0
        # spell the way through a symbolic link now and then
        if rng.chance(1, 5):
            links = [p for p in t.paths() if t.ent[p][0] == "l" and base is not None and p[:len(base)] == base]
            if links:
                l = rng.choice(links)
                s = b"/".join(l[len(base):]) + b"/" + rng.choice([b"a.txt", b"secret.txt", b"dir/secret2.txt", b"d1/a.txt", s])
        s1 = mutate_name(s, rng, t)
        if rng.chance(1, 12):
            s1 = mutate_name(s1, rng, t)
        out.append((s1, s1 == s0))
    return out


def boundary_names(root_len, rng):
    """names whose candidate string <root>/<name> is exactly around PATH_MAX"""
    out = []
    for total in (4094, 4095, 4096, 4097):
        pad = total - root_len - 1 - len(b"a.txt")
        if pad > 0:
            out.append(b"./" * (pad // 2) + (b"/" if pad % 2 else b"") + b"a.txt")
    return out


# ------------------------------------------------------------------ independent references (generator side)
def ref_lexrej(p):
    if not p:
        return False
    return p[:1] == b"/" or b"\0" in p or b"\\" in p or b".." in p.split(b"/")


def rand_lex_path(rng):
    parts = [rng.choice([b"a", b"b", b"..", b".", b"", b"c.txt", b"...", b"..a", b"static", b"static2"]) for _ in range(rng.range(0, 6))]
    s = b"/".join(parts)
    if rng.chance(1, 2):
        s = b"/" + s
    if rng.chance(1, 4):
        s += b"/"
    return s


def ref_contained_canonical(base, target):
    b = [x for x in base.split(b"/") if x]
    tt = [x for x in target.split(b"/") if x]
    return tt[:len(b)] == b


# ------------------------------------------------------------------ case generation
def gen_fs_case(rng, idx, quick, wlen):
    t, cfg = gen_tree(rng)
    pins = {}
    for key in ("static", "templates"):
        if cfg[key] is not None and cfg[key][0] == b"app":
            pins[key] = pin_dirlink(t, cfg[key], rng, key.encode()[:2])
    big = gen_big_files(t, cfg, rng) if idx % 8 == 3 else []
    cwd_p = rng.choice([(), (b"app",), (b"outside",)])
    sops = [tree_op(t, abs_of(cwd_p))]
    meta = {"cat": "fs", "tree": idx}
    # a few direct probes of the platform model
    for _ in range(rng.range(2, 6)):
        p = rng.choice(t.paths())
        s = abs_of(p)
        if rng.chance(1, 2):
            s = mutate_name(s, rng, t)
            if s[:1] != b"/" and not s.startswith(W_TOKEN):
                s = abs_of(()) + b"/" + s
        if b"\0" in s:
            s = s.replace(b"\0", b"")
        if not s.startswith(W_TOKEN):
            s = abs_of(()) + b"/" + s.lstrip(b"/")
        sops.append([rng.choice(["wc", "wc", "stat", "read"]), H(s)])
    for _ in range(rng.range(0, 3)):       # relative to the working directory
        names = rel_names(t, cwd_p) or [b"a.txt"]
        s = mutate_name(rng.choice(names), rng, t).replace(b"\0", b"")
        if not s.startswith(b"/"):
            sops.append([rng.choice(["wc", "stat"]), H(s)])
    # the instance
    root_spellings = [abs_of((b"app",)), abs_of((b"app",)) + b"/", abs_of((b"approot",)), abs_of(()) + b"//app/./", abs_of((b"app", b"static", b"..")),
                      abs_of((b"outside", b"..", b"app"))]
    if cwd_p == ():
        root_spellings += [b"app", b"./app", b"app/", b"approot", b"approot/."]
    elif cwd_p == (b"app",):
        root_spellings += [b".", b"./", b"../app", b"static/.."]
    else:
        root_spellings += [b"../app", b"../approot/"]
    if rng.chance(1, 12):
        root_spellings = [abs_of((b"app", b"top.txt")), abs_of((b"missing",)), b"", abs_of((b"app", b"static", b"a.txt", b"x"))]
    root = rng.choice(root_spellings)
    per = rng.chance(1, 3)
    sops.append(["newfs", H(root), "1" if per else "0"])
    meta["per_request"] = per
    nnames = 50 if quick else 70
    residual = []
    for kind, key in (("static", "static"), ("template", "templates")):
        base = cfg[key]
        names = gen_names(t, base if base is not None else (b"app", key.encode()), rng, nnames if kind == "static" else nnames // 3)
        names += [(n, False) for n in pins.get(key, [])]
        if kind == "static":
            names += [(n, True) for n in big]
        if base is not None and rng.chance(1, 3):
            # names whose candidate string <root>/<name> is exactly around PATH_MAX (the root is canonical: sandbox + base)
            names += [(n, False) for n in boundary_names(wlen + sum(len(x) + 1 for x in base), rng)]
        for nm, pristine in names:
            if rng.chance(1, 30):
                sops.append(["readcfg", str(rng.choice([0, 1, 7, 4096, 65535, 65536])), str(rng.choice([0, 0, 2, 3, 5]))])
                if base is not None and rng.chance(2, 3):
                    # a scripted read WHILE a readcfg is in force (the script alone must decide), with errors/EINTR after the data
                    sops.append(["readscript", H(abs_of(base) + b"/a.txt"), gen_script(rng, force=True)])
            if pristine and base is not None and rng.chance(1, 25) and b"\0" not in nm:
                sops.append(["readscript", H(abs_of(base) + b"/" + nm), gen_script(rng)])
            leafdir = (base if base is not None else (b"app", key.encode())) + tuple(c for c in nm.split(b"/")[:-1] if c not in (b"", b"."))
            swap_targets = [abs_of((b"outside", b"secret.txt")), up_from(leafdir, b"outside/secret.txt"), b"a.txt", b"nonexistent", abs_of((b"outside",)),
                            abs_of((b"outside", b"a.txt.gz"))]
            sops.append([kind, H(nm)])
            if rng.chance(1, 6):
                sops.append([kind, H(nm)])                      # hit the cache
            if rng.chance(1, 25):
                sops += gen_mutation(t, cfg, rng, kind, nm)
            if rng.chance(1, 6 if pristine else 30):
                # the schedule {resolve, swap the leaf for a link, open}; a reload first so that the open is reached
                if rng.chance(2, 3):
                    sops.append(["reload"])
                sops.append(["swap" + kind, H(nm), H(rng.choice(swap_targets))])
                sops.append([kind, H(nm)])
            if base is not None and rng.chance(1, 5 if pristine else 40):
                gen_sched(t, base, rng, kind, nm, pristine, sops, residual)
            if rng.chance(1, 40):
                sops.append(["reload"])
    return {"sops": sops, "tree_obj": t, "cfg": cfg, "residual": residual, **meta}


SCHED_N = [0]
BIG_SIZES = [0, 1, 65535, 65536, 65537, 131072, 200000]


def gen_script(rng, force=False):
    """answers of read(2): e = EINTR, x = another errno, k = at most k bytes.  `force`: sizes that cover a small file early, then
    EINTR / error answers that are only reached if something clamps the sizes (thorough seed 11 found exactly that)"""
    if force:
        toks = [rng.choice(["3", "64", "70000", "e"]) for _ in range(rng.range(1, 3))] + [rng.choice(["64", "70000", "4096"]), rng.choice(["1", "7"])]
        toks += [rng.choice(["e", "x", "7", "x"]) for _ in range(rng.range(1, 4))]
        if rng.chance(1, 4):
            toks.insert(rng.below(3), "x")             # an error BEFORE the data is complete: nullopt on both sides
        return ",".join(toks)
    n = rng.range(0, 8)
    toks = [rng.choice(["e", "e", "1", "2", "3", "7", "64", "4096", "65536", "70000"] + (["x"] if rng.chance(1, 4) else [])) for _ in range(n)]
    return ",".join(toks) if toks else "-"


def big_content(t, p, size):
    head = t.fresh(p, b"BIG")
    body = (head + b"|") * (size // (len(head) + 1) + 1)
    c = body[:size]
    if size >= len(head):
        t.content_path.setdefault(c, p)
    return c


def gen_big_files(t, cfg, rng):
    """files around the 64 KiB buffer of readFile's loop (0, 1, 65535, 65536, 65537, 131072, 200000 bytes), some with a `.gz` sibling"""
    base = cfg["static"]
    out = []
    if base is None:
        return out
    for size in rng.choice([[0, 65536, 65537], [0, 1, 65535, 200000], [65536, 131072], [0, 65537, 200000]]):
        p = base + (b"big%d.bin" % size,)
        if t.add_file(p, big_content(t, p, size)):
            out.append(p[-1])
            if rng.chance(1, 2):
                gz = base + (p[-1] + b".gz",)
                t.add_file(gz, big_content(t, gz, rng.choice([0, 65537, 70000])))
    return out



def gen_sched(t, base, rng, kind, nm, pristine, sops, residual):
    """One lookup with a change of the file system just before one of its system calls (points C R O G Z):
    (i) the LEAF of the request (or its .gz sibling) is replaced by a link / another file / removed — the property's quantifier;
    (ii) the leaf of a request that does not exist yet is created (as a link or as a file) while the lookup runs;
    (iii) RESIDUAL, outside the quantifier and tagged as such: a new INTERMEDIATE symbolic link appears (the code's documented
         limitation, witnessed in Lean by A4_residual_intermediate_link) — lockstep only, the content monitor is told."""
    SCHED_N[0] += 1
    n = SCHED_N[0]
    ldir = base + tuple(c for c in nm.split(b"/")[:-1] if c not in (b"", b"."))
    secret = [abs_of((b"outside", b"secret.txt")), up_from(ldir, b"outside/secret.txt"), abs_of((b"outside", b"a.txt.gz"))]
    pts = "CROGZ" if kind == "static" else "CRO"
    pt = rng.choice(pts)
    k = rng.below(10)
    comps = [c for c in nm.split(b"/") if c]
    ok_name = pristine and comps and all(len(c) <= 250 for c in comps)
    if k < 6 and ok_name:
        leaf = base + tuple(comps)
        which = rng.below(6)
        if which == 0:
            mut = ["f", H(abs_of(leaf)), H(t.fresh(leaf, b"SCH"))]
        elif which == 1:
            mut = ["r", H(abs_of(leaf))]
        elif which == 2 and kind == "static":
            mut = ["l", H(abs_of(leaf) + b".gz"), H(rng.choice(secret))]
        elif which == 3:
            mut = ["l", H(abs_of(leaf)), H(rng.choice([abs_of((b"outside",)), b"a.txt", b"nonexistent", b"."]))]
        else:
            mut = ["l", H(abs_of(leaf)), H(rng.choice(secret))]
        if leaf in t.ent and t.ent[leaf][0] == "d" and mut[0] != "l":
            mut = ["l", H(abs_of(leaf)), H(rng.choice(secret))]
        name = nm
    elif k < 8:
        dirs = [d for d in t.dirs() if d[:len(base)] == base]
        d = rng.choice(dirs) if dirs else base
        leafname = b"new%d.txt" % n
        leaf = d + (leafname,)
        name = b"/".join(leaf[len(base):])
        if rng.chance(1, 2):
            mut = ["l", H(abs_of(leaf)), H(rng.choice([abs_of((b"outside", b"secret.txt")), up_from(d, b"outside/secret.txt"), b"a.txt"]))]
        else:
            mut = ["f", H(abs_of(leaf)), H(t.fresh(leaf, b"SCHNEW"))]
        pt = rng.choice("RO" if kind == "template" else "ROG")
    else:
        nd = b"nd%d" % n
        name = nd + rng.choice([b"/secret.txt", b"/dir/secret2.txt", b"/a.txt"])
        mut = ["l", H(abs_of(base + (nd,))), H(rng.choice([abs_of((b"outside",)), up_from(base, b"outside")]))]
        pt = rng.choice("RO")
        residual.append(len(sops) + 1)
    # keep the generator's picture of the tree roughly in step (it only steers later picks)
    mp = tuple(comps_of(mut[1][1].replace(W_TOKEN, b"")))
    for q in [q for q in t.ent if len(q) > len(mp) and q[:len(mp)] == mp]:
        del t.ent[q]
    if mut[0] == "r":
        t.ent.pop(mp, None)
    elif mp[:-1] in t.ent and t.ent[mp[:-1]][0] == "d":
        t.ent[mp] = ("l", mut[2][1]) if mut[0] == "l" else ("f", mut[2][1])
    sops.append(["reload"])
    sops.append(["sched", kind, H(name), pt] + mut)
    sops.append([kind, H(name)])
    if len(sops) - 3 + 1 in residual:
        sops.append(["reload"])


def gen_mutation(t, cfg, rng, kind, nm):
    """environment steps between lookups: replace/remove/create objects, then look the same name up again (cache staleness)"""
    out = []
    base = cfg["static" if kind == "static" else "templates"]
    if base is None:
        return out
    comps = [c for c in nm.split(b"/") if c and c != b"."]
    if not comps or b".." in comps or b"\0" in nm or b"\\" in nm or any(len(c) > 255 for c in comps) or len(comps) > 5:
        return out
    p = base + tuple(comps)
    if p[:-1] not in t.ent or t.ent[p[:-1]][0] != "d":
        return out
    k = rng.below(5)
    old = t.ent.get(p)
    if old is not None and old[0] == "d":
        return out
    if k == 0:
        c = t.fresh(p, b"NEW")
        t.ent[p] = ("f", c)
        out.append(["put", "f", H(abs_of(p)), H(c)])
    elif k == 1:
        tgt = rng.choice([abs_of((b"outside", b"secret.txt")), up_from(p[:-1], b"outside/secret.txt"), b"a.txt", b"missing"])
        t.ent[p] = ("l", tgt)
        out.append(["put", "l", H(abs_of(p)), H(tgt)])
    elif k == 2 and old is not None:
        del t.ent[p]
        out.append(["rm", H(abs_of(p))])
    elif k == 3:
        gz = p[:-1] + (p[-1] + b".gz",)
        if (gz in t.ent and t.ent[gz][0] == "d") or len(gz[-1]) > 255:
            return out
        tgt = rng.choice([abs_of((b"outside", b"a.txt.gz")), b"a.txt"])
        t.ent[gz] = ("l", tgt)
        out.append(["put", "l", H(abs_of(gz)), H(tgt)])
    else:
        return out
    out.append([kind, H(nm)])
    if rng.chance(1, 2):
        out.append(["reload"])
        out.append([kind, H(nm)])
    return out


def gen_emb_case(rng, idx, quick):
    t, cfg = gen_tree(rng)
    pins = pin_dirlink(t, (b"ext",), rng, b"em")
    t.add_link((b"extloop",), b"extloop")
    cwd_p = rng.choice([(), (b"app",)])
    sops = [tree_op(t, abs_of(cwd_p))]
    good_ext = [abs_of((b"ext",)), abs_of((b"ext",)) + b"/", abs_of((b"extlink",)), abs_of((b"app", b"..", b"ext"))] + ([b"ext", b"./ext/", b"extlink"] if cwd_p == () else [b"../ext"])
    bad_ext = [abs_of((b"missing-ext",)), abs_of((b"missing-ext",)) + b"/", b"", abs_of((b"outside", b"secret.txt")), abs_of((b"extloop",)),
               abs_of((b"ext",)) + b"/" + b"./" * 2100, abs_of((b"ext", b"A" * 256))]
    resolves = not rng.chance(1, 5)
    extdir = rng.choice(good_ext if resolves else bad_ext)
    names = [n for n, _ in gen_names(t, (b"ext",), rng, 40)]
    pristine = dict(gen_names(t, (b"ext",), rng, 6))
    # registry tables must be SORTED (binary search): keys containing the sandbox placeholder would sort differently once rendered
    reg_ok = [n for n in names if W_TOKEN not in n]
    names_all = names
    names = reg_ok + [b"a.txt"] * (9 - len(reg_ok)) if len(reg_ok) < 9 else reg_ok
    emb_names = sorted(set([b"e1.txt", b"dir/e2.css", b"a.txt"] + [n for n in names[:6] if not ref_lexrej(n)]))
    statics = []
    for i, n in enumerate(emb_names):
        c = b"EMB%d:" % i + n[-20:]
        statics.append([n, c, (b"EMBGZ%d" % i) if rng.chance(1, 3) else None])
    templates = sorted([[n, b"EMBT:" + n[-20:]] for n in set([b"t.html", b"p/q.html"] + names[6:9])], key=lambda r: r[0])
    sched_names = [n for n, pr in pristine.items() if pr and W_TOKEN not in n and n not in emb_names]
    # every system-call boundary of the EXTERNAL_DIR path (the harness counts TWO realpaths: the base, then the candidate); generated
    # first because the names the schedules create must be in the externalised set
    tail, tail_res = [], []
    if resolves:
        for nm in sched_names[:4]:
            gen_sched_emb(t, rng, nm, tail)
        for _ in range(3):
            gen_sched(t, (b"ext",), rng, "static", b"a.txt", False, tail, tail_res)
        # and, deterministically, every one of the five points on a file that has a regular `.gz` sibling
        sch, schgz = (b"ext", b"sch.txt"), (b"ext", b"sch.txt.gz")
        for pt in "CROGZ":
            tail.append(["put", "f", H(abs_of(sch)), H(t.fresh(sch, b"SCHE"))])
            tail.append(["put", "f", H(abs_of(schgz)), H(t.fresh(schgz, b"SCHEGZ"))])
            tgt = rng.choice([abs_of((b"outside", b"secret.txt")), b"../outside/secret.txt", abs_of((b"outside", b"a.txt.gz"))])
            tail.append(["sched", "static", H(b"sch.txt"), pt, "l", H(abs_of(sch if pt in "CRO" else schgz)), H(tgt)])
            tail.append(["static", H(b"sch.txt")])
    sched_created = [x[2][1] for x in tail if x[0] == "sched"]
    externals = sorted(set(names[9:] + [b"a.txt", b"e1.txt"] + pins + sched_names + [n for n in sched_created if W_TOKEN not in n]))
    # records are comma/colon separated hex: any byte string is fine
    sops.append(["newemb", H(extdir), ("l", statics), ("l", templates), ("l", [[x] for x in externals])])
    residual = []
    for nm in pins:
        sops.append(["static", H(nm)])
        if rng.chance(1, 4):
            sops.append(["template", H(nm)])
    for nm in names_all + [b"e1.txt", b"dir/e2.css", b"t.html", b"a.txt"]:
        sops.append(["static", H(nm)])
        if rng.chance(1, 3):
            sops.append(["template", H(nm)])
        if rng.chance(1, 15):
            sops.append(["swapstatic", H(nm), H(rng.choice([abs_of((b"outside", b"secret.txt")), b"../outside/secret.txt"]))])
        if rng.chance(1, 20):
            sops.append(["reload"])                       # a literal no-op in embedded mode
        if rng.chance(1, 25):
            sops.append(["readcfg", str(rng.choice([0, 1, 7, 4096])), str(rng.choice([0, 2, 3]))])
    residual = [len(sops) + r for r in tail_res]
    sops += tail
    return {"sops": sops, "tree_obj": t, "cfg": cfg, "cat": "embedded", "tree": idx, "residual": residual, "ext_resolves": resolves,
            "emb_contents": [s[1] for s in statics] + [s[2] for s in statics if s[2]] + [x[1] for x in templates]}


def gen_sched_emb(t, rng, nm, sops):
    """the leaf of an externalised request (or its .gz sibling) is replaced just before one of the points C R O G Z"""
    comps = [c for c in nm.split(b"/") if c and c != b"."]
    if not comps or b".." in comps or any(len(c) > 250 for c in comps):
        return
    leaf = (b"ext",) + tuple(comps)
    if leaf in t.ent and t.ent[leaf][0] == "d":
        return
    secret = [abs_of((b"outside", b"secret.txt")), up_from(leaf[:-1], b"outside/secret.txt"), abs_of((b"outside", b"a.txt.gz"))]
    which = rng.below(5)
    if which == 0:
        mut = ["f", H(abs_of(leaf)), H(t.fresh(leaf, b"SCH"))]
    elif which == 1:
        mut = ["r", H(abs_of(leaf))]
    elif which == 2:
        mut = ["l", H(abs_of(leaf) + b".gz"), H(rng.choice(secret))]
    else:
        mut = ["l", H(abs_of(leaf)), H(rng.choice(secret))]
    mp = tuple(comps_of(mut[1][1].replace(W_TOKEN, b"")))
    for q in [q for q in t.ent if len(q) > len(mp) and q[:len(mp)] == mp]:
        del t.ent[q]
    if mut[0] == "r":
        t.ent.pop(mp, None)
    elif mp[:-1] in t.ent and t.ent[mp[:-1]][0] == "d":
        t.ent[mp] = ("l", mut[2][1]) if mut[0] == "l" else ("f", mut[2][1])
    sops.append(["sched", "static", H(nm), rng.choice("CROGZ")] + mut)
    sops.append(["static", H(nm)])


def gen_race_case(rng, idx):
    """Two threads on one filesystem-mode instance, deterministically gated: A is parked just before its first open(2) (validated,
    first cache probe missed), B runs to completion (a lookup of the same / another name, or reload), the file system changes, A
    finishes (build outside the lock, second probe + emplace).  Model: the small-step machine of Model/AssetsRace.lean."""
    for _ in range(20):
        t, cfg = gen_tree(rng)
        if all(cfg[k] is not None and cfg[k][0] == b"app" for k in ("static", "templates")):
            break
    else:
        return None
    sops = [tree_op(t, abs_of(()))]
    sops.append(["newfs", H(abs_of((b"app",))), "1" if rng.chance(1, 5) else "0"])
    for r in range(rng.range(6, 10)):
        kindA = rng.choice(["static", "static", "template"])
        base = cfg["static" if kindA == "static" else "templates"]
        files = [p for p in t.paths() if t.ent[p][0] == "f" and p[:len(base)] == base and len(p) > len(base) and all(len(c) < 200 for c in p)]
        if not files:
            continue
        pa = rng.choice(files)
        nA = b"/".join(pa[len(base):])
        if rng.chance(1, 8):
            nA = mutate_name(nA, rng, t)
            if b"\0" in nA or len(nA) > 600:
                nA = b"a.txt"
        bop = rng.choice(["static", "template", "reload", "none", kindA, kindA, kindA])
        nB = nA if rng.chance(3, 4) else b"a.txt"
        k = rng.below(6)
        if k < 3:
            mut = ["f", H(abs_of(pa)), H(t.fresh(pa, b"RACE"))]
        elif k == 3:
            mut = ["l", H(abs_of(pa)), H(rng.choice([abs_of((b"outside", b"secret.txt")), up_from(pa[:-1], b"outside/secret.txt")]))]
        elif k == 4:
            mut = ["r", H(abs_of(pa)), H(b"")]
        else:
            mut = ["n", H(b""), H(b"")]
        if rng.chance(1, 3):
            sops.append(["reload"])
        sops.append(["race", kindA, H(nA), bop, H(nB)] + mut)
        sops.append([kindA, H(nA)])
        if mut[0] in ("l", "r"):
            c = t.fresh(pa, b"BACK")
            sops.append(["put", "f", H(abs_of(pa)), H(c)])
        if rng.chance(1, 2):
            sops.append(["reload"])
            sops.append([kindA, H(nA)])
    return {"sops": sops, "tree_obj": t, "cfg": cfg, "cat": "race", "tree": idx}


def gen_pure_case(rng):
    sops = []
    for _ in range(60):
        k = rng.below(3)
        if k == 0:
            sops.append(["norm", H(rand_lex_path(rng))])
        elif k == 1:
            if rng.chance(1, 2):
                parts = [rng.choice([b"r", b"static", b"static2", b"a", b"..a", b"a.txt"]) for _ in range(rng.range(0, 4))]
                more = [rng.choice([b"static", b"static2", b"x", b"a.txt"]) for _ in range(rng.range(0, 3))]
                b1 = b"/" + b"/".join(parts)
                t1 = rng.choice([b"/" + b"/".join(parts + more), b"/" + b"/".join(parts[:-1] + more), b"/" + b"/".join(parts)[:-1] + b"2/x" if parts else b"/x"])
                sops.append(["cont", H(b1), H(t1)])
            else:
                sops.append(["cont", H(rand_lex_path(rng)), H(rand_lex_path(rng))])
        else:
            n = mutate_name(rng.choice([b"a.txt", b"d1/a.txt", b"x/y/z"]), rng, Tree())
            sops.append(["lexrej", H(n if len(n) < 600 else n[:600])])
    return {"sops": sops, "cat": "pure"}


def gen_storm_case(rng, idx, iters):
    for _ in range(20):
        t, cfg = gen_tree(rng)
        if all((b"app", sub) in t.ent and t.ent[(b"app", sub)][0] == "d" for sub in (b"static", b"templates")):
            break
    else:
        return None
    sops = [tree_op(t, abs_of(()))]
    good = b"GOOD-CONTENT-%d" % idx
    victims = [(b"app", b"static", b"victim.txt"), (b"app", b"templates", b"victim.txt")]
    for v in victims:
        sops.append(["put", "f", H(abs_of(v)), H(good)])
    sops.append(["put", "f", H(abs_of((b"app", b"static", b"victim.txt.gz"))), H(good)])
    sops.append(["newfs", H(abs_of((b"app",))), "1" if rng.chance(1, 2) else "0"])
    target = rng.choice([abs_of((b"outside", b"secret.txt")), b"../../outside/secret.txt"])
    for v in victims + [(b"app", b"static", b"victim.txt.gz")]:
        sops.append(["storm", str(iters), H(b"victim.txt"), H(abs_of(v)), H(good), H(target)])
        sops.append(["static", H(b"victim.txt")])
        sops.append(["template", H(b"victim.txt")])
    return {"sops": sops, "tree_obj": t, "cfg": cfg, "cat": "storm", "tree": idx}


# ------------------------------------------------------------------ monitors (implementation output only + what the generator created)
def split_oracle(line):
    if " # " in line:
        a, b = line.split(" # ", 1)
        return a, dict(kv.split("=", 1) for kv in b.split() if "=" in kv)
    return line, {}


def comps_of(b):
    return [x for x in b.split(b"/") if x]


def under(root_comps, path_comps):
    return path_comps[:len(root_comps)] == root_comps


def monitor_case(c, ops, impl, W):
    """Property failures visible in the implementation's own answers: (a) bytes that are not the content of a file the generator
    created physically inside the configured root; (b) the OS says <root>/<name> really lives outside the root; (c) a storm leak."""
    bad = []
    contents = {}
    emb_ok = set(c.get("emb_contents", []))
    roots = {"static": None, "template": None}
    mode = None
    for idx, (sop, line) in enumerate(zip(c["sops"], impl)):
        main, orc = split_oracle(line)
        op = sop[0]
        if op == "newfs":
            mode = "fs-perreq" if sop[2] == "1" else "fs-cached"
        elif op == "newemb":
            mode = "emb"
        if (main.startswith("throw") and not (op == "newfs" and main == "throw")) or main.startswith("crash:"):
            bad.append((idx, "C20: lookup throws/crashes: %s -> %s" % (op, main[:80])))
            continue
        if op == "tree":
            contents = {}
            for tok in sop:
                if isinstance(tok, tuple) and tok[0] == "e" and tok[1] == "f":
                    contents.setdefault(tok[3], []).append(tuple(comps_of(tok[2].replace(W_TOKEN, b""))))
        if op == "put" and sop[1] == "f":
            contents.setdefault(sop[3][1], []).append(tuple(comps_of(sop[2][1].replace(W_TOKEN, b""))))
        if op == "newfs":
            roots = {"static": None, "template": None}
            f = main.split()
            if f[0] == "ok":
                # the roots are computed INDEPENDENTLY of the implementation: the OS's realpath of <root argument>/static (and
                # /templates) where it exists, else realpath(<root argument>) + the sub-directory name; what the implementation
                # canonicalised must be exactly that, and content is judged against the independent root
                rp = orc.get("rp")
                for k, sub, key in (("static", b"static", "srp"), ("template", b"templates", "trp")):
                    mine = comps_of(unhex(f[1 if k == "static" else 2]))
                    ind = None
                    if orc.get(key, "~") != "~":
                        ind = comps_of(unhex(orc[key]))
                    elif rp and rp != "~":
                        ind = comps_of(unhex(rp)) + [sub]
                    if ind is None:
                        bad.append((idx, "C20: fromDirectory succeeded for a root the OS cannot resolve"))
                        ind = mine
                    elif ind != mine:
                        bad.append((idx, "C20: configured %s root %r is not the canonical path %r of <root>/%s" %
                                    (k, b"/" + b"/".join(mine), b"/" + b"/".join(ind), sub.decode())))
                    roots[k] = ind
        if op == "newemb":
            ext = sop[1][1].replace(W_TOKEN, W)
            erp = orc.get("erp", "~")
            roots = {"static": (comps_of(unhex(erp)) if erp != "~" else "none"), "template": None, "extdir": ext}
            emb_ok = set()
            for rec in sop[2][1]:
                emb_ok.update(x for x in rec[1:] if x is not None)
            for rec in sop[3][1]:
                emb_ok.add(rec[1])
        if op == "sched" and sop[4] == "f":
            contents.setdefault(sop[6][1], []).append(tuple(comps_of(sop[5][1].replace(W_TOKEN, b""))))
        if op in ("static", "template", "swapstatic", "swaptemplate", "sched"):
            kind = ("static" if "static" in op else "template") if op != "sched" else sop[1]
            nm_tok = sop[1] if op != "sched" else sop[2]
            f = main.split()
            got = []
            if f and f[0] == "found":
                got = [unhex(f[1])] + ([unhex(f[2].replace("!gzflag", ""))] if not f[2].startswith("~") else [])
                if "!gzflag" in f[2]:
                    bad.append((idx, "C20: gzipVariantExists disagrees with gzipBytes"))
            elif f and f[0] == "some":
                got = [unhex(f[1])]
            if idx in c.get("residual", []):
                # outside the property's quantifier (a NEW intermediate link appeared mid-lookup): reported as an observation
                if any(g not in emb_ok and g in contents and not any(roots.get(kind) not in (None, "none") and under(roots[kind], comps_of(W) + list(w))
                                                                      for w in contents[g]) for g in got):
                    c["_residual_leaks"] = c.get("_residual_leaks", 0) + 1
                got = []
            for g in got:
                if g in emb_ok:
                    continue
                wheres = contents.get(g)
                if wheres is None:
                    bad.append((idx, "C20: %s %r returned bytes that are no file's content: %r" % (op, nm_tok[1][:60], g[:60])))
                    continue
                r = roots.get(kind)
                if r == "none":
                    r = None          # EXTERNAL_DIR does not resolve: nothing may be served from it
                if r is None or not any(under(r, comps_of(W) + list(w)) and comps_of(W) + list(w) != r for w in wheres):
                    bad.append((idx, "C20: %s %r returned the content of %r which is OUTSIDE the %s root %r" %
                               (op, nm_tok[1][:80], [b"/".join(w) for w in wheres][:3], kind, b"/" + b"/".join(r) if r else None)))
            if got and op == "static" and mode in ("fs-perreq", "emb") and orc.get("rp", "~") != "~" and idx not in c.get("residual", []):
                # BY LOCATION (theorem A4_every_point_located): nothing is cached in these modes and the file system is at rest, so the
                # bytes must be the content the generator put AT realpath(<root>/<name>) and the gzip bytes those of <that path>.gz
                where = tuple(comps_of(unhex(orc["rp"]))[len(comps_of(W)):])
                for j, g in enumerate(got):
                    if g in emb_ok and not (mode == "emb" and j == 0 and False):
                        continue
                    loc = where if j == 0 else where[:-1] + (where[-1] + b".gz",)
                    if loc not in contents.get(g, []):
                        bad.append((idx, "C20: %s %r returned bytes that are not the content of the file AT %r (they are the content of %r)" %
                                    (op, nm_tok[1][:80], b"/".join(loc)[-80:], [b"/".join(w) for w in contents.get(g, [])][:3])))
            if got and op in ("static", "template") and "rp" in orc:
                r = roots.get(kind)
                if r == "none":
                    r = None
                if orc["rp"] == "~":
                    bad.append((idx, "C20: %s %r served but the OS cannot resolve <root>/<name>" % (op, nm_tok[1][:80])))
                elif r is not None and not under(r, comps_of(unhex(orc["rp"]))):
                    bad.append((idx, "C20: %s %r served but realpath(<root>/<name>) = %r is outside the root" % (op, nm_tok[1][:80], unhex(orc["rp"])[-80:])))
        if op == "race" and sop[5] == "f":
            contents.setdefault(sop[7][1], []).append(tuple(comps_of(sop[6][1].replace(W_TOKEN, b""))))
        if op == "race" and " | " in main:
            ra, rb = main.rsplit(" gated=", 1)[0].split(" | ", 1)
            for kind, txt in ((sop[1], ra), (sop[3], rb)):
                f = txt.split()
                got = []
                if f and f[0] == "found":
                    got = [unhex(f[1])] + ([unhex(f[2].replace("!gzflag", ""))] if not f[2].startswith("~") else [])
                elif f and f[0] == "some":
                    got = [unhex(f[1])]
                r = roots.get(kind if kind in ("static", "template") else "static")
                for g in got:
                    wheres = contents.get(g)
                    if wheres is None:
                        bad.append((idx, "C20: race returned bytes that are no file's content: %r" % g[:60]))
                    elif r in (None, "none") or not any(under(r, comps_of(W) + list(w)) and comps_of(W) + list(w) != r for w in wheres):
                        bad.append((idx, "C20: race (%s) returned the content of %r which is OUTSIDE the %s root" % (kind, [b"/".join(w) for w in wheres][:3], kind)))
        if op == "storm" and not main.startswith("storm ok"):
            bad.append((idx, "C20: swap storm: %s" % main[:120]))
        if op == "cont" and main in ("0", "1"):
            bb, tt = sop[1][1].replace(W_TOKEN, W), sop[2][1].replace(W_TOKEN, W)

            def canonical(x):
                return x[:1] == b"/" and (x == b"/" or (not x.endswith(b"/") and all(c not in (b"", b".", b"..") for c in x[1:].split(b"/"))))
            if canonical(bb) and canonical(tt) and (main == "1") != ref_contained_canonical(bb, tt):
                bad.append((idx, "A2: isContained(%r, %r) = %s, component-wise prefix reference says %s" % (bb[:60], tt[:60], main, ref_contained_canonical(bb, tt))))
        if op == "lexrej" and main in ("0", "1"):
            nm = sop[1][1].replace(W_TOKEN, W)
            if (main == "1") != ref_lexrej(nm):
                bad.append((idx, "A1: lexicallyRejected(%r) = %s, reference says %s" % (nm[:60], main, ref_lexrej(nm))))
    return bad


OBLIGATIONS = [
    {"id": "C20_A1", "theorem": "Iora.C20.A1_lexical_filter", "kind": "proved",
     "statement": "for ALL byte strings: not rejected <-> no leading '/', no NUL, no backslash, no '..' segment (constants from Gen)"},
    {"id": "C20_A1_segments", "theorem": "Iora.C20.A1_segments", "kind": "proved",
     "statement": "splitSlash is the unique decomposition into '/'-separated segments (join . split = id, split . join = id)"},
    {"id": "C20_A2", "theorem": "Iora.C20.A2_containment", "kind": "proved",
     "statement": "canonical absolute base/target: isContained <-> names(base) is a component-wise prefix of names(target)"},
    {"id": "C20_A2_root", "theorem": "Iora.C20.A2_root_itself", "kind": "proved",
     "statement": "the rel == '.' corner: the root itself passes isContained (refused later: Inside is strict)"},
    {"id": "C20_WC", "theorem": "Iora.C20.WC_missing_is_no_file", "kind": "proved",
     "statement": "weakly_canonical of a non-existing absolute path without '..' never names a regular file in the same file system"},
    {"id": "C20_A4_open", "theorem": "Iora.C20.A4_open_nofollow", "kind": "proved",
     "statement": "readFile (open O_NOFOLLOW, flags from Gen) on the canonical name of a location with a real parent directory returns only that location's own regular-file bytes"},
    {"id": "C20_A3_static", "theorem": "Iora.C20.A3_static", "kind": "proved",
     "statement": "every Fs, every name (file system at rest): the bytes returned by getStatic are the content of THE regular file realpath(<static root>/<name>), strictly inside the root; gzip bytes are those of the regular file <that file>.gz"},
    {"id": "C20_A3_named", "theorem": "Iora.C20.NamedFile.inside", "kind": "proved",
     "statement": "the named-file conclusion implies 'a regular file strictly inside the root' for bytes and gzip bytes"},
    {"id": "C20_A3_template", "theorem": "Iora.C20.A3_template", "kind": "proved",
     "statement": "same for getTemplate and the template root (the file realpath(<template root>/<name>))"},
    {"id": "C20_A3_embedded", "theorem": "Iora.C20.A3_embedded", "kind": "partial",
     "statement": "embedded mode, one snapshot per system call: registry entry of exactly this path, or (externalised set only) a regular file strictly inside an absolute, '..'-free EXTERNAL_DIR that resolves to a canonical directory"},
    {"id": "C20_A4", "theorem": "Iora.C20.A4_every_point", "kind": "proved",
     "statement": "one file-system snapshot per system call (status, realpath, is_regular_file, open, .gz test, .gz open); environment LeafOnly between them: bytes returned are strictly inside the root in the snapshot of the open that read them"},
    {"id": "C20_A4_admissible", "theorem": "Iora.C20.A4_leaf_swap_admissible", "kind": "proved",
     "statement": "replacing a non-directory by a non-directory (leaf -> symlink) just before ANY of the five points is LeafOnly (if the request did not exist at resolution time: only at the resolved leaf / its .gz sibling)"},
    {"id": "C20_A4_swap", "theorem": "Iora.C20.A4_swap_is_dirs_preserving", "kind": "proved",
     "statement": "replacing a non-directory by anything is directory-preserving"},
    {"id": "C20_A4_residual", "theorem": "Iora.C20.A4_residual_intermediate_link", "kind": "proved",
     "statement": "witness of what A4 does NOT cover: a NEW intermediate symlink appearing after weakly_canonical of a non-existing path makes the lookup return an outside file (directory-preserving change, not confined to the leaf)"},
    {"id": "C20_A5", "theorem": "Iora.C20.A5_history", "kind": "proved",
     "statement": "from any fromDirectory result, for EVERY history of lookups (one snapshot per system call, LeafOnly)/reloads/environment changes: all bytes ever returned (fresh or cached) were strictly inside the root at an open of some lookup"},
    {"id": "C20_A5_reval", "theorem": "Iora.C20.A5_revalidated", "kind": "proved",
     "statement": "a cache hit is re-validated: the name currently resolves to a regular file strictly inside the root"},
    {"id": "C20_A5_stale", "theorem": "Iora.C20.A5_cache_can_be_stale", "kind": "proved",
     "statement": "witness: a cached entry outlives a rewrite of its file until reload() (stale but once-inside bytes)"},
    {"id": "C20_A0", "theorem": "Iora.C20.A0_fromDirectory", "kind": "proved",
     "statement": "fromDirectory returns canonical absolute roots (ordinary NUL-free names) and empty caches"},
    {"id": "C20_total", "theorem": "Iora.C20.Model_walk_total", "kind": "proved",
     "statement": "the model of stat/open/realpath never answers 'out of fuel' (walkFuel is always enough)"},
    {"id": "C20_Gen_flags", "theorem": "Iora.C20.Gen_open_flags", "kind": "gen-conformance", "statement": "readFile opens with O_RDONLY|O_NOFOLLOW|O_CLOEXEC"},
    {"id": "C20_Gen_filter", "theorem": "Iora.C20.Gen_filter", "kind": "gen-conformance", "statement": "forbidden bytes/segments of the lexical filter"},
    {"id": "C20_Gen_contained", "theorem": "Iora.C20.Gen_contained", "kind": "gen-conformance", "statement": "isContained compares the first element of rel with '..' using !="},
    {"id": "C20_Gen_order", "theorem": "Iora.C20.Gen_call_order", "kind": "gen-conformance",
     "statement": "order of security-relevant calls: filter -> weakly_canonical -> isContained -> is_regular_file -> cache -> open"},
    {"id": "C20_Gen_skel", "theorem": "Iora.C20.Gen_skeleton", "kind": "gen-conformance",
     "statement": "operands of the checked calls: base/candidate/resolved/gz definitions and argument lists of weakly_canonical/isContained/is_regular_file/buildEntry/readFile"},
    {"id": "C20_Gen_roots", "theorem": "Iora.C20.Gen_roots", "kind": "gen-conformance", "statement": "static / templates / .gz"},
    {"id": "C20_A3_embedded_template", "theorem": "Iora.C20.A3_embedded_template", "kind": "proved",
     "statement": "embedded getTemplate: the bytes are those of the registry entry of EXACTLY this (lexically accepted) name; no file system is consulted (same answer in every file-system state); the Assets value is unchanged"},
    {"id": "C20_A4_template", "theorem": "Iora.C20.A4_every_point_template", "kind": "proved",
     "statement": "getTemplate, filesystem mode, one snapshot per system call, environment LeafOnly: fresh bytes are strictly inside the template root in the snapshot of the open"},
    {"id": "C20_A4_located", "theorem": "Iora.C20.A4_every_point_located", "kind": "proved",
     "statement": "by LOCATION: the bytes were read from the very location realpath(<root>/<name>) ended at (prefix = root), the gzip bytes from the location <last>.gz next to it"},
    {"id": "C20_A6", "theorem": "Iora.C20.A6_read_loop", "kind": "proved",
     "statement": "readFile's read loop, for EVERY sequence of read(2) answers before the EOF (full buffers, short reads, EINTR failures): the result is the concatenation of the data chunks; nothing after the EOF is read"},
    {"id": "C20_A6_chunking", "theorem": "Iora.C20.A6_chunking_irrelevant", "kind": "proved",
     "statement": "any chunking carrying the bytes d gives the same result as the model's kernelReads(bufSize from Gen) run, namely d"},
    {"id": "C20_A6_error", "theorem": "Iora.C20.A6_read_error", "kind": "proved",
     "statement": "an errno other than EINTR before the EOF: nullopt, never a partial content"},
    {"id": "C20_M1", "theorem": "Iora.C20.M1_mime_from_table", "kind": "proved",
     "statement": "the MIME type is the default or the second component of an entry of the source's table"},
    {"id": "C20_Gen_mime", "theorem": "Iora.C20.Gen_mime", "kind": "gen-conformance", "statement": "MIME table: 21 entries, pairwise distinct lower-case keys starting with '.', default application/octet-stream"},
    {"id": "C20_Gen_read", "theorem": "Iora.C20.Gen_read_loop", "kind": "gen-conformance", "statement": "read loop: buffer 65536, n>0 append, n==0 break, EINTR continue, other errno return nullopt"},
    {"id": "C20_Gen_census", "theorem": "Iora.C20.Gen_census", "kind": "gen-conformance",
     "statement": "census of EVERY fs::/std::filesystem:: call, path-typed local, ::open/::read/::close, stream, swap and /= token of the ten functions on the lookup paths (in-place mutation of a checked path variable is refused by the translator)"},
    {"id": "C20_R0", "theorem": "Iora.C20.R0_shape_of_source", "kind": "gen-conformance",
     "statement": "the lock skeleton extracted from the source (Shape.gen, built from the Gen lock facts) is the double-checked shape: probe under lock, build outside, second probe + emplace in ONE critical section, emplace, reload under lock clearing both caches"},
    {"id": "C20_R1", "theorem": "Iora.C20.R1_sequential_refinement", "kind": "proved",
     "statement": "the small-step machine refines the sequential model: one thread's steps back-to-back from any pool with the mutex free = getStaticFilesystemAt / getTemplateFilesystemAt / reload (result and caches)"},
    {"id": "C20_R2", "theorem": "Iora.C20.R2_mutual_exclusion", "kind": "proved",
     "statement": "N threads, EVERY schedule: no cache map is ever accessed by a thread that does not own _fs->mutex, a thread is in a critical section iff it owns the mutex (at most one), and a thread doing file I/O (build) never owns it"},
    {"id": "C20_R2_step", "theorem": "Iora.C20.R2_invariant_step", "kind": "proved", "statement": "the mutex invariant is inductive (preserved by every step of every thread)"},
    {"id": "C20_R3", "theorem": "Iora.C20.R3_cache_good_invariant", "kind": "proved",
     "statement": "for ANY lock skeleton and any goodness predicates keyed by the NAME that every successful build establishes: caches, thread-locals and every returned value are good after EVERY schedule"},
    {"id": "C20_R3_step", "theorem": "Iora.C20.R3_invariant_step", "kind": "proved", "statement": "the cache-goodness invariant is inductive: every step of every thread preserves it (the FsInv step lemma, two caches + reload)"},
    {"id": "C20_R3_key", "theorem": "Iora.C20.R3_no_cross_key", "kind": "proved",
     "statement": "a value returned for name k was initially cached under k or was built by a thread looking up k: never another key's entry"},
    {"id": "C20_R4", "theorem": "Iora.C20.R4_winner_or_own", "kind": "proved",
     "statement": "the second critical section returns the entry another thread inserted under the SAME key, or inserts and returns its own; that value is the key's entry afterwards"},
    {"id": "C20_R4_emplace", "theorem": "Iora.C20.R4_emplace_never_overwrites", "kind": "proved", "statement": "without reload in the pool a present cache entry never changes along any schedule"},
    {"id": "C20_R4_agree", "theorem": "Iora.C20.R4_threads_agree", "kind": "proved",
     "statement": "cached mode, no reload: two lookups of the same key that returned a value returned THE SAME value (the cache entry)"},
    {"id": "C20_R5", "theorem": "Iora.C20.R5_concurrent_history_inside", "kind": "proved",
     "statement": "C20 under concurrency: canonical roots, every thread's snapshots LeafOnly for its own candidate: every blob/template returned by ANY thread under ANY interleaving (fresh, own, or another thread's entry) consists of bytes that were strictly inside the root at an open of some lookup of the schedule"},
    {"id": "C20_R6", "theorem": "Iora.C20.R_second_find_matters", "kind": "proved",
     "statement": "witness: A validates+misses, B inserts [7], the file changes, A builds [8] and returns B's [7] (the `chosen = it->second` branch)"},
    {"id": "C20_R7", "theorem": "Iora.C20.R7_gatedRace_is_schedule", "kind": "proved",
     "statement": "what the lockstep `race` op computes IS a run of the small-step machine for Shape.gen on an explicit schedule (A* B^8 A^8)"},
    {"id": "C20_Gen_locks", "theorem": "Iora.C20.Gen_lock_skeleton", "kind": "gen-conformance",
     "statement": "critical sections of the two caches (probe | build outside | probe+emplace in one section, emplace never overwrites, no unguarded access) and of reload"},
]
LEANCHECK = ["IoraModel.Props.C20", "IoraModel.Props.C20Race", "IoraModel.Lemmas.AssetsRace", "IoraModel.Model.AssetsRace", "IoraModel.Lemmas.AssetsRead", "IoraModel.Lemmas.AssetsHistory", "IoraModel.Lemmas.AssetsPhases", "IoraModel.Lemmas.AssetsRoots", "IoraModel.Lemmas.AssetsWc", "IoraModel.Lemmas.AssetsLookup",
             "IoraModel.Lemmas.AssetsFuel", "IoraModel.Lemmas.AssetsWalk", "IoraModel.Lemmas.AssetsPath", "IoraModel.Model.Assets", "IoraModel.Gen.Assets"]
NOT_PROVED = [
    "agreement of the model functions (kernel path walk, realpath, status, weakly_canonical, lexically_normal, lexically_relative, open(O_NOFOLLOW)) with libstdc++/glibc/Linux — partial by nature, checked by lockstep only",
    "SNAPSHOT ASSUMPTION: each path-taking system call of a lookup has its own file-system snapshot EXCEPT (a) the prefix loop + realpath(prefix) that weakly_canonical runs when the candidate does not exist, and (b) the inside of one realpath / one open — these are assumed atomic",
    "environment changes that are not LeafOnly while a lookup runs: a directory replaced, or a NEW intermediate symbolic link appearing between weakly_canonical and the open (Lean witness A4_residual_intermediate_link; reproduced on the real code by the `sched` residual cases) — the code's documented residual ('intermediate-component swaps would need openat() chains'); outside the property's quantifier (only the LEAF is replaced while the lookup runs)",
    "A3_embedded for a relative / non-existent / trailing-slash EXTERNAL_DIR or one spelled with '..' (lockstep only)",
    "concurrency: the lock skeleton (Model/AssetsRace.lean) takes validation and build (all file I/O of one lookup) as one step each on the thread's own snapshots; deadlock freedom / termination under fair schedules, agreement of threads across a reload, and the C++ memory model below the mutex (std::mutex acquire/release is assumed sequentially consistent for the maps) are not proved; the real code is driven through ONE family of two-thread schedules (A parked before its build, B complete, A finishes) — other interleavings rest on the theorems only",
    "lifetime of the std::string_view returned by getTemplate: it dangles after reload() (ASan: heap-use-after-free when held across reload; the header documents the contract H-5/N-5 'copy before any reload') — a memory-lifetime matter outside C20's statement; the harness copies immediately",
]


def strip_oracles(lines):
    return [split_oracle(l)[0] for l in lines]


STATEFUL = ("tree", "put", "rm", "newfs", "newemb", "reload", "swapstatic", "swaptemplate", "storm", "sched", "readcfg", "race")


def run_impl_only(ctx, hb, env, W, sops):
    ops = render_case(sops, W)
    out, rc, err = ctx.run_lines([hb], ops, timeout=300, env=env)
    return out + ["crash:%s" % rc] * (len(ops) - len(out))


def shrink(ctx, hb, env, W, c, fail_idx, cls):
    """smallest op list (tree + state-changing ops + the failing lookup) on which the SAME monitor class still fails on the real code"""
    sops = c["sops"]

    def fails(sub):
        cc = dict(c)
        cc["sops"] = sub
        cc["residual"] = [i for i, s in enumerate(sub) if any(s is sops[j] for j in c.get("residual", []) if j < len(sops))]
        return any(m.split(":")[0] == cls for _, m in monitor_case(cc, None, run_impl_only(ctx, hb, env, W, sub), W))
    try:
        cand = [s for i, s in enumerate(sops[:fail_idx]) if s[0] in STATEFUL] + [sops[fail_idx]]
        if not fails(cand):
            cand = sops[:fail_idx + 1]
            if not fails(cand):
                return sops
        head, tail = cand[:1], cand[1:]
        if len(tail) > 1:
            tail = ddmin(tail, lambda sub: fails(head + sub), max_tests=40)
        return head + tail
    except Exception:
        return sops


def report(ctx, hb, env, W, c, impl, model, fails):
    idx, msg = fails[0]
    if not ctx.violation_budget("property", msg):
        ctx.violation("property", msg)
        return
    small = shrink(ctx, hb, env, W, c, idx, msg.split(":")[0])
    obs = run_impl_only(ctx, hb, env, W, small) if small is not c["sops"] else impl
    ctx.violation("property", msg, {"sops": [sop_to_json(s) for s in small], "ops_readable": [describe(s) for s in small][-12:],
                                    "failures": [m for _, m in fails[:5]], "category": c["cat"], "observed": obs[-12:],
                                    "expected_by_model": (model[idx] if model else None), "shrunk_from_ops": len(c["sops"])}, found_input=True)


def evaluate(ctx, hb, env, W, cases, acc):
    """lockstep + monitors for one batch of cases"""
    for c in cases:
        c["ops"] = render_case(c["sops"], W)
    try:
        res = ctx.lockstep("assets", hb, cases, impl_env=env, timeout=2400)
    except ModelBuildError:
        # the model driver does not build (a changed Gen fact broke the model): still search for a failing input with the
        # implementation-only monitors (DESIGN §5.2)
        res = [(c, run_impl_only(ctx, hb, env, W, c["sops"]), None) for c in cases]
    for c, impl, model in res:
        acc["dist"][c["cat"]] = acc["dist"].get(c["cat"], 0) + 1
        core = strip_oracles(impl)
        mode = "-"
        reach = acc.setdefault("reach", {})
        for sop, full in zip(c["sops"], impl):
            l, orc = split_oracle(full)
            if sop[0] == "newfs":
                mode = "fs-perreq" if sop[2] == "1" else "fs-cached"
            elif sop[0] == "newemb":
                mode = "emb" if c.get("ext_resolves", True) else "emb-unresolved"
            if sop[0] in ("static", "template"):
                nm = sop[1][1]
                ans = (l.split() or ["?"])[0]
                if ans in ("rejected", "none", "notfound") and sop[0] == "static" and ans == "rejected":
                    ans = "rejected(lexical)" if ref_lexrej(nm) else "rejected(containment)"
                if sop[0] == "template" and ans == "none":
                    ans = "none(lexical)" if ref_lexrej(nm) else ("none(escape)" if orc.get("esc") == "1" else "none(other)")
                k2 = "%s:%s:%s" % (mode, sop[0], ans)
                acc["modestat"][k2] = acc["modestat"].get(k2, 0) + 1
                if not ref_lexrej(nm) and orc.get("esc") == "1" and orc.get("reg") == "1":
                    # measured on the implementation side, independently of the library's verdict
                    shape = "through an escaping directory link" if orc.get("lf") == "f" else "an escaping leaf link" if orc.get("lf") == "l" else None
                    if shape:
                        m0 = "embedded" if mode.startswith("emb") else "filesystem"
                        k3 = "%s %s lookups %s" % (m0, sop[0], shape)
                        reach[k3] = reach.get(k3, 0) + 1
            if sop[0] == "race":
                k4 = "race:%s/%s gated=%s" % (sop[1], sop[3], l.rsplit("gated=", 1)[-1])
                acc["modestat"][k4] = acc["modestat"].get(k4, 0) + 1
        for sop, l in zip(c["sops"], core):
            if sop[0] in ("norm", "tree", "put", "rm", "reload", "readcfg", "selftest"):
                k = sop[0]
            else:
                if sop[0] == "sched":
                    k = "sched%s:%s@%s:%s %s" % ("-embedded" if c["cat"] == "embedded" else "", sop[1], sop[3], (l.split()[0] if l else ""), l.split()[-1])
                else:
                    k = sop[0] + ":" + (l.split()[0] if l else "") + ((" " + l.split()[-1]) if "swapped=" in l else "")
            acc["opstat"][k] = acc["opstat"].get(k, 0) + 1
        ctx.count_case("\n".join(c["ops"]), nontrivial=any(l.startswith("found") or l.startswith("some") for l in core))
        if len(ctx.cov["samples"]) < 6 and ctx.rng.chance(1, 8):
            ctx.sample({"cat": c["cat"], "ops": [describe(o) for o in c["sops"][1:7]], "impl": [l[:160] for l in impl[1:7]]})
        fails = monitor_case(c, None, impl, W)
        acc["residual_ops"] = acc.get("residual_ops", 0) + len(c.get("residual", []))
        acc["residual_leaks"] = acc.get("residual_leaks", 0) + c.pop("_residual_leaks", 0)
        mism = [(i, a, b) for i, (a, b) in enumerate(zip(core, model)) if a != b] if model is not None else []
        if fails:
            report(ctx, hb, env, W, c, impl, model, fails)
        elif mism:
            acc["mismatch"] += 1
            if acc["mismatch"] <= 3:
                i, a, b = mism[0]
                keep = [s for s in c["sops"][:i] if s[0] in STATEFUL] + [c["sops"][i]]
                ctx.violation("correspondence", "model and implementation disagree (no property monitor fails on this case): op `%s` impl=`%s` model=`%s`"
                              % (describe(c["sops"][i]), a[:140], b[:140]),
                              {"broken": {"correspondence": "assets lockstep (harness/c20_assets.cpp vs Model/Assets.lean)", "detail": "first differing op index %d" % i},
                               "sops": [sop_to_json(s) for s in keep], "observed": a, "expected_by_model": b, "category": c["cat"]}, found_input=False)
        c.pop("ops", None)
        c.pop("tree_obj", None)


def setup(ctx, quick):
    # the serve-layer harness (application.hpp + http_server.hpp, ~45 s with sanitizers) compiles while Lean builds
    import threading
    serve = {}
    th = threading.Thread(target=lambda: serve.update(hb=ctx.build_harness("harness/c20_serve.cpp", sanitize=True)))
    th.start()
    ctx._c20_serve = (th, serve)
    ctx.translate(["assets"] + S.SERVE_TRANSLATE)
    ok_build = ctx.lake_build(MODULES + S.SERVE_MODULES)
    if ok_build:
        ctx.audit(MODULES + S.SERVE_MODULES, OBLIGATIONS + S.SERVE_OBLIGATIONS)
        if not quick:
            ctx.leanchecker(LEANCHECK + S.SERVE_LEANCHECK)
    else:
        ctx.cov["obligations"] = len(OBLIGATIONS + S.SERVE_OBLIGATIONS)
    hb = ctx.build_harness("harness/c20_assets.cpp", sanitize=True)
    sandbox = os.path.join(os.path.realpath(ctx.work), "sb")
    os.makedirs(sandbox, exist_ok=True)
    stats = os.path.join(os.path.realpath(ctx.work), "stats.txt")
    env = {"C20_SANDBOX": sandbox, "C20_STATS": stats}
    if hb:
        # L7: do the interposers see what std::filesystem does on THIS toolchain?  A libstdc++ that went through statx()/fstatat()
        # directly would leave the schedules of `sched` silently disabled: that is a failure of the machinery (exit 2), not of the code.
        out, rc, err = ctx.run_lines([hb], ["selftest"], timeout=60, env=env)
        st = split_oracle(out[0])[1] if out else {}
        ctx.extra["interposer_selftest"] = st
        if not ctx.violations and (not out or any(st.get(k) != "1" for k in ("stat", "realpath", "open", "read", "sane"))):
            raise RuntimeError("C20 harness self-test: interposers of stat/realpath/open/read are not reached on this toolchain: %r %r" % (out[:1], err[-300:]))
    return hb, env, sandbox.encode(), stats


def replay(ctx):
    """Re-run the symbolic op list of a replay / corpus file on the real code and the model; exit 1 if it still fails."""
    obj = json.load(open(ctx.replay))
    hb, env, W, _ = setup(ctx, True)
    ctx._c20_serve[0].join()
    if S.is_serve_replay(obj):                      # serve-layer replays run on harness/c20_serve.cpp
        still = S.replay_serve(ctx, obj, env, W) or bool(ctx.violations)
        print("replay: %s" % ("still failing" if still else "no longer failing"))
        import shutil
        shutil.rmtree(ctx.work, ignore_errors=True)
        return 1 if still else 0
    if not hb or not obj.get("sops"):
        print("replay: nothing to run (kind=%s)" % obj.get("kind"))
        return 1 if ctx.violations else 0
    c = {"cat": obj.get("category", "replay"), "sops": [sop_from_json(x) for x in obj["sops"]], "residual": obj.get("residual", [])}
    c["ops"] = render_case(c["sops"], W)
    try:
        (c, impl, model), = ctx.lockstep("assets", hb, [c], impl_env=env)
    except ModelBuildError:
        impl, model = run_impl_only(ctx, hb, env, W, c["sops"]), None
    for i, sop in enumerate(c["sops"]):
        print("op    %s\n impl  %s\n model %s" % (describe(sop), impl[i][:200], (model[i][:200] if model else "-")))
    fails = monitor_case(c, None, impl, W)
    for _, f in fails:
        print("PROPERTY FAILS:", f[:300])
    still = bool(fails) or (model is not None and strip_oracles(impl) != model)
    print("replay: %s" % ("still failing" if still else "no longer failing"))
    import shutil
    shutil.rmtree(ctx.work, ignore_errors=True)
    return 1 if still else 0


def run(ctx: Ctx):
    if ctx.replay:
        return replay(ctx)
    quick = ctx.tier == "quick"
    rng = ctx.rng
    hb, env, W, stats = setup(ctx, quick)
    acc = {"dist": {}, "opstat": {}, "mismatch": 0, "modestat": {}, "reach": {}}
    if not hb:
        ctx._c20_serve[0].join()
    if hb:
        n_fs, n_emb, n_pure, n_storm, storm_iters, n_race = (200, 50, 30, 3, 3000, 16) if quick else (2600, 600, 300, 20, 40000, 300)
        r1, r2, r3, r4, r5 = rng.fork("fs"), rng.fork("emb"), rng.fork("pure"), rng.fork("storm"), rng.fork("race")
        plan = [("corpus", None)] + [("race", i) for i in range(n_race)] + [("fs", i) for i in range(n_fs)] + [("emb", i) for i in range(n_emb)] + \
               [("pure", i) for i in range(n_pure)] + [("storm", i) for i in range(n_storm)]
        batch = []

        def flush():
            if batch:
                evaluate(ctx, hb, env, W, batch, acc)
                del batch[:]
        for kind, i in plan:
            if kind == "corpus":
                batch += load_corpus()
            elif kind == "fs":
                batch.append(gen_fs_case(r1, i, quick, len(W)))
            elif kind == "emb":
                batch.append(gen_emb_case(r2, i, quick))
            elif kind == "pure":
                batch.append(gen_pure_case(r3))
            elif kind == "race":
                c = gen_race_case(r5, i)
                if c:
                    batch.append(c)
            else:
                c = gen_storm_case(r4, i, storm_iters)
                if c:
                    batch.append(c)
            if len(batch) >= 200:
                flush()
        flush()
        ctx._c20_serve[0].join()
        if ctx._c20_serve[1].get("hb"):
            S.run_serve(ctx, env, W, 60 if quick else 700, acc, hb=ctx._c20_serve[1]["hb"])
            ctx.extra["serve_layer"] = {k: dict(sorted(acc.get(k, {}).items())) for k in ("serve_status", "serve_shape", "render", "serve_probe")}
        ctx.extra["op_outcomes"] = dict(sorted(acc["opstat"].items()))
        ctx.extra["op_outcomes_per_mode_and_reason"] = dict(sorted(acc["modestat"].items()))
        must = ["embedded static lookups through an escaping directory link", "filesystem static lookups through an escaping directory link",
                "filesystem template lookups through an escaping directory link", "embedded static lookups an escaping leaf link",
                "filesystem static lookups an escaping leaf link", "filesystem template lookups an escaping leaf link"]
        ctx.extra["generator_reach"] = {k: acc["reach"].get(k, 0) for k in must}
        sched_r = sum(v for k, v in acc["opstat"].items() if k.startswith("sched") and "@R:" in k and k.endswith("fired=1"))
        sched_g = sum(v for k, v in acc["opstat"].items() if k.startswith("sched") and "@G:" in k and k.endswith("fired=1"))
        ctx.extra["embedded_mode_scheduled_mutations_fired"] = {pt: sum(
            v for k, v in acc["opstat"].items() if k.startswith("sched-embedded:") and ("@%s:" % pt) in k and k.endswith("fired=1")) for pt in "CROGZ"}
        ctx.extra["generator_reach"]["embedded-mode scheduled mutations that fired (any point)"] = sum(ctx.extra["embedded_mode_scheduled_mutations_fired"].values())
        ctx.extra["generator_reach"]["scheduled mutations that fired at R"] = sched_r
        ctx.extra["generator_reach"]["scheduled mutations that fired at G"] = sched_g
        if any(k.startswith("race:") for k in acc["modestat"]):
            ctx.extra["generator_reach"]["two-thread schedules where A was parked before its build"] = sum(
                v for k, v in acc["modestat"].items() if k.startswith("race:") and k.endswith("gated=1"))
        if not ctx.violations:
            zero = [k for k, v in ctx.extra["generator_reach"].items() if v == 0]
            if zero:
                raise RuntimeError("C20 generator reach: these shapes were not reached at all in this run (machinery failure): %s" % zero)
        ctx.extra["residual_intermediate_link"] = {"scheduled": acc.get("residual_ops", 0), "outside_bytes_returned_by_real_code_and_model": acc.get("residual_leaks", 0),
                                                   "note": "outside the property's quantifier (only the LEAF is replaced while the lookup runs); the code documents it; Lean witness A4_residual_intermediate_link"}
        if os.path.exists(stats):
            lines = open(stats).read().splitlines()
            ctx.extra["storm_stats"] = [l for l in lines if l.startswith("storm")][:40]
            tot = {}
            for l in lines:
                if l.startswith("reads "):
                    for kv in l.split()[1:]:
                        k, v = kv.split("=")
                        tot[k] = tot.get(k, 0) + int(v)
            ctx.extra["read_loop_counters"] = tot
            if not ctx.violations and tot and (tot.get("second_data_read_same_fd", 0) == 0 or tot.get("eintr", 0) == 0 or tot.get("full64k", 0) == 0):
                raise RuntimeError("C20 generator reach: the read loop never iterated / never saw EINTR / never filled its buffer: %r" % tot)
    ctx.extra["input_distribution"] = acc["dist"]
    ctx.extra["repo_tree_sha"] = ctx.repo_tree_sha(ANCHOR_FILES + S.SERVE_ANCHOR_FILES)
    ctx.extra["not_proved"] = NOT_PROVED + S.SERVE_NOT_PROVED
    ctx.assumptions += ["the file-system model functions (kernel path walk, realpath, status, weakly_canonical, lexically_normal/relative, open(O_NOFOLLOW)) are assumptions about libstdc++/glibc/Linux; "
                        "their agreement with the real ones is checked by lockstep on generated trees, not proved",
                        "all directories searchable and files readable (no permission errors); only regular files, directories and symbolic links; hard links, mount points and /proc magic links are out of scope",
                        "embedded registry tables are sorted by key (the build generator's contract)",
                        "existing absolute paths stay below PATH_MAX (realpath's long-path fallback of libstdc++ is not modelled)"]
    return ctx.finish(level="proof", rule="a case = one generated directory tree (materialised under .work) + one Assets instance + its list of lookups / direct probes; "
                      "distinct = distinct op lists; non-trivial = at least one lookup returned bytes")


def describe(sop):
    out = []
    for t in sop:
        if isinstance(t, str):
            out.append(t)
        elif t[0] == "h":
            out.append(repr(t[1][:80]))
        else:
            out.append("…")
    return " ".join(out)[:200]


def load_corpus():
    d = os.path.join(os.path.dirname(os.path.dirname(os.path.abspath(__file__))), "corpus", "C20")
    out = []
    if os.path.isdir(d):
        for fn in sorted(os.listdir(d)):
            if fn.endswith(".json"):
                c = json.load(open(os.path.join(d, fn)))
                c["sops"] = [sop_from_json(s) for s in c["sops"]]
                c.setdefault("cat", "corpus")
                out.append(c)
    return out
