"""C15 — HTTP/1.1 message framing is exact, segmentation-independent and bounded (DESIGN §7 C15)."""
import os, json
from vlib.core import Ctx, hexs, unhex, ddmin, load_known_findings

ID = "C15"
MODULES = ["IoraModel.Props.C15"]
OBLIGATIONS = []          # filled from props/c15_obligations.json-like list below (kept in this file)
ANCHOR_FILES = ["include/iora/network/http_client.hpp", "include/iora/network/http_server.hpp",
                "include/iora/parsers/http_message.hpp"]

MAX_BUFFER = 1024 * 1024
MAX_HEADER = 64 * 1024
MAX_BODY = 10 * 1024 * 1024
METHODS = ["GET", "POST", "PUT", "DELETE", "HEAD", "OPTIONS", "PATCH", "CONNECT", "TRACE"]
TOKEN_CHARS = b"abcdefghijklmnopqrstuvwxyzABCDEFGHIJKLMNOPQRSTUVWXYZ0123456789-_.!#$%&'*+^`|~"
BOUNDARY_SIZES = [2 ** 31 - 1, 2 ** 31, 2 ** 32 - 1, 2 ** 32, 2 ** 32 + 1, 2 ** 63 - 1, 2 ** 63, 2 ** 63 + 1] + [2 ** 64 - k for k in range(20, 0, -1)] + \
                 [2 ** 64, 2 ** 64 + 1, 2 ** 64 + 16, 2 ** 65, 10 ** 20, 10 ** 30]


# ------------------------------------------------------------------ canonical forms shared with the harness / driver
def fnv(b):
    h = 0xcbf29ce484222325
    for x in b:
        h = ((h ^ x) * 0x100000001b3) & 0xFFFFFFFFFFFFFFFF
    return h


def digest(b):
    return "%d:%016x" % (len(b), fnv(b))


def lower(b):
    return bytes(c + 32 if 65 <= c <= 90 else c for c in b)


def show_headers(pairs):
    if not pairs:
        return "-"
    return ";".join("%s:%s" % (hexs(k), hexs(v)) for k, v in sorted(pairs, key=lambda kv: lower(kv[0])))


def trim(b):
    return b.strip(b" \t")


def ref_params(target):
    """req.params as an independent reading of the request target: everything after the first `?`, pieces cut at `&`, the first
    `=` splits key and value, a piece without `=` is dropped, a repeated key keeps its last value; canonical form = sorted by key."""
    if b"?" not in target:
        return "-"
    d = {}
    for piece in target.split(b"?", 1)[1].split(b"&"):
        if b"=" in piece:
            k, v = piece.split(b"=", 1)
            d[k] = v
    if not d:
        return "-"
    return "&".join("%s=%s" % (hexs(k), hexs(d[k])) for k in sorted(d))


def rev(mi, target, fields_map, body):
    """the handler event for a request: method index, query-stripped path, header map, body digest, req.params"""
    return "R/%d/%s/%s/%s/%s" % (mi, hexs(target.split(b"?", 1)[0]), show_headers(fields_map), digest(body), ref_params(target))


# ------------------------------------------------------------------ reference encoder (generator side, independent of the code under test)
def rand_token(rng, lo=1, hi=10):
    return bytes(rng.choice(TOKEN_CHARS) for _ in range(rng.range(lo, hi)))


def rand_value(rng):
    n = rng.choice([0, 1, 2, 5, 12, 30])
    k = rng.below(10)
    if k < 6:
        alphabet = b"abcXYZ019 ,;:=/\t\"()-_"
    elif k < 9:
        alphabet = bytes(range(0x21, 0x7F)) + b"  \t"
    else:
        alphabet = bytes(range(0x80, 0x100)) + b"az ,"
    return bytes(rng.choice(alphabet) for _ in range(n))


def rand_body(rng, n):
    k = rng.below(5)
    if k == 0:
        return bytes([rng.choice(b"a\r\n0:")]) * n
    if k == 1:
        return (b"0\r\n\r\nHTTP/1.1 200 OK\r\n\r\n5\r\n" * (n // 20 + 1))[:n]     # body bytes that look like framing
    return rng.bytes(n)


class Fields:
    """Field lines in wire order + the map a recipient must end up with (computed from the structured lines, not by re-parsing)."""
    def __init__(self, response=False):
        self.items = []      # (name, value as rendered (untrimmed), raw line bytes, list_valued)
        self.response = response     # HttpClient: repeated `Connection` lines combine (RFC 9110 5.3), everything else is last-wins

    def add(self, rng, name, value, list_valued=False, pad=True, at=None):
        l = name + (rng.choice([b":", b": ", b":  ", b":\t", b": \t"]) if pad else b": ") + value
        if pad:
            l += rng.choice([b"", b"", b" ", b"\t ", b"  "])
        item = (name, value, l, list_valued)
        if at is None:
            self.items.append(item)
        else:
            self.items.insert(at, item)

    @property
    def lines(self):
        return [it[2] for it in self.items]

    @property
    def map(self):
        m = []               # [(first spelling, value)]: a repeated name keeps its first spelling; last value wins, list-valued fields combine
        for name, value, _, lv in self.items:
            v = trim(value)
            for i, (k, old) in enumerate(m):
                if lower(k) == lower(name):
                    if self.response and lower(name) == b"connection":
                        m[i] = (k, old + b", " + v)
                    elif lv:
                        if v != b"":
                            m[i] = (k, v if old == b"" else old + b", " + v)
                    else:
                        m[i] = (k, v)
                    break
            else:
                m.append((name, v))
        return m


RESERVED = {b"content-length", b"transfer-encoding", b"host", b"upgrade", b"connection", b"expect"}


def rand_fields(rng, fields, request, small=False):
    n = rng.choice([0, 1, 1, 2]) if small else rng.choice([0, 1, 2, 3, 5, 8])
    for _ in range(n):
        k = rng.below(12)
        if k == 0 and fields.map:
            name = rng.choice(fields.map)[0]                 # repeated field: last value wins
            name = rng.choice([name, name.upper(), name.lower()])
        elif k == 1 and request:
            name = rng.choice([b"Via", b"via", b"X-Forwarded-For", b"Forwarded"])
        else:
            name = rand_token(rng, 1, 4 if small else 10)
        if lower(name) in RESERVED:
            continue
        lv = request and lower(name) in (b"via", b"x-forwarded-for", b"forwarded")
        fields.add(rng, name, rand_value(rng)[:6 if small else 64], list_valued=lv)


def hex_size(rng, n):
    s = "%x" % n
    k = rng.below(6)
    if k == 0:
        s = s.upper()
    elif k == 1:
        s = "0" * rng.range(1, 3) + s
    elif k == 2:
        s = "".join(c.upper() if rng.chance(1, 2) else c for c in s)
    return s.encode()


def chunk_ext(rng):
    k = rng.below(8)
    if k < 4:
        return b""
    if k == 4:
        return b";" + rand_token(rng) + b"=" + rand_token(rng)
    if k == 5:
        return b";" + rand_token(rng)
    if k == 6:
        return rng.choice([b" ", b"\t", b" \t "]) + b";" + rand_token(rng) + b"=\"q r\""
    return b";a=1;b;c=\"\r\""[:rng.choice([4, 6, 7])]


def chunk_sizes(rng, n):
    """Every chunk-size pattern: one chunk, all 1-byte, 15/16/17 boundaries, random."""
    if n == 0:
        return []
    k = rng.below(6)
    if k == 0:
        return [n]
    if k == 1 and n <= 40:
        return [1] * n
    out = []
    left = n
    while left:
        c = min(left, rng.choice([1, 2, 9, 10, 15, 16, 17, 255, 256, 257, 4095, 4096, rng.range(1, max(1, left))]))
        out.append(c)
        left -= c
    return out


def render_chunked(rng, body):
    w = b""
    pos = 0
    for c in chunk_sizes(rng, len(body)):
        w += hex_size(rng, c) + chunk_ext(rng) + b"\r\n" + body[pos:pos + c] + b"\r\n"
        pos += c
    w += rng.choice([b"0", b"0", b"00", b"000"]) + chunk_ext(rng) + b"\r\n"
    for _ in range(rng.choice([0, 0, 0, 1, 2])):
        w += rand_token(rng) + b": " + rand_value(rng).replace(b"\t", b" ") + b"\r\n"
    return w + b"\r\n"


def gen_response(rng, big=False, small=False):
    """(wire bytes of the final response, expected canonical response, method, close_delimited)"""
    method = rng.choice([b"GET", b"GET", b"POST", b"HEAD", b"PUT", b"get"])
    version = rng.choice([b"1.1", b"1.1", b"1.0"])
    status = rng.choice([200, 200, 201, 404, 500, 204, 304, 301, 299, 999, 600, 7, 0, 200])
    reason_form = rng.below(5)
    reason = rng.choice([b"OK", b"Not Found", b"a b  c", b"", b"\x80\xff"])
    if reason_form == 0:
        sl, text = b"HTTP/" + version + b" " + (b"%03d" % status if rng.chance(1, 2) else b"%d" % status), b""
    else:
        sl, text = b"HTTP/" + version + b" " + (b"%03d" % status) + b" " + reason, reason
    fields = Fields(response=True)
    rand_fields(rng, fields, request=False, small=small)
    for _ in range(rng.choice([0, 0, 0, 1, 1, 2, 3])):
        fields.add(rng, rng.choice([b"Connection", b"connection", b"CONNECTION"]),
                   rng.choice([b"close", b"keep-alive", b"Keep-Alive", b"foo, Close", b"x-close-hint", b"", b"upgrade ,\tclose"]),
                   at=rng.below(len(fields.items) + 1))
    nobody = method == b"HEAD" or status in (204, 304)
    blen = rng.choice([0, 1, 2, 3, 10, 17, 100, 300, 1000]) if not big else rng.choice([5000, 20000, 70000])
    if small:
        blen = rng.choice([0, 1, 2, 3, 5, 17])
    body = rand_body(rng, blen)
    kind = rng.choice(["cl", "cl", "chunked", "chunked", "chunked", "close", "te-close"])
    tail = b""
    close_delim = False
    # framing headers are placed at a random position among the other field lines
    fl = fields

    def place(name, value, pad=True):
        fl.add(rng, name, value, pad=pad, at=rng.below(len(fl.items) + 1))
    if nobody:
        if rng.chance(1, 2):
            place(rng.choice([b"Content-Length", b"content-length"]), b"%d" % blen)     # allowed on HEAD/304: no body follows
        elif rng.chance(1, 3):
            place(b"Transfer-Encoding", b"chunked")
        body = b""
    elif kind == "cl":
        v = b"%d" % len(body)
        v = rng.choice([v, v, b"0" + v, v + b", " + v, v + b" ," + v])
        place(rng.choice([b"Content-Length", b"content-length", b"CONTENT-LENGTH"]), v)
        if rng.chance(1, 8):
            place(rng.choice([b"Content-Length", b"content-length"]), trim(v), pad=True)        # identical duplicate is legal
        tail = body
    elif kind == "chunked":
        place(rng.choice([b"Transfer-Encoding", b"transfer-encoding"]), rng.choice([b"chunked", b"Chunked", b"gzip, chunked", b"gzip,CHUNKED ", b"chunked,"]))
        tail = render_chunked(rng, body)
    elif kind == "close":
        close_delim = True
        tail = body
    else:
        close_delim = True
        place(b"Transfer-Encoding", rng.choice([b"gzip", b"chunked, gzip", b"identity"]))
        tail = body
    wire = sl + b"\r\n" + b"".join(l + b"\r\n" for l in fl.lines) + b"\r\n" + tail
    exp = "%d %s %s %s %s" % (status, hexs(version), hexs(text), show_headers(fl.map), digest(body))
    return wire, exp, method, close_delim, len(wire) - len(tail)


def gen_interims(rng):
    out = b""
    for _ in range(rng.choice([0, 0, 0, 1, 1, 2, 3])):
        st = rng.choice([100, 100, 102, 103, 199, 101])
        out += b"HTTP/1.1 %d %s\r\n" % (st, rng.choice([b"Continue", b"Early Hints", b""]))
        for _ in range(rng.choice([0, 0, 1, 2])):
            out += rand_token(rng) + b": " + rand_value(rng).replace(b"\t", b" ") + b"\r\n"
        out += b"\r\n"
    return out


def cut_points(rng, n, quick, limit):
    if n <= 1:
        return []
    if n - 1 <= limit:
        return list(range(1, n))
    pts = set(range(1, min(n, limit // 3))) | set(range(max(1, n - limit // 4), n))
    while len(pts) < limit:
        pts.add(rng.range(1, n - 1))
    return sorted(pts)


def segmentations(rng, stream, quick, limit, interesting=()):
    n = len(stream)
    segs = [[stream]]
    if n > 4000:
        limit = min(limit, 6 if quick else 40)
    cuts = set(cut_points(rng, n, quick, limit))
    for p in interesting:
        for d in (-1, 0, 1):
            if 0 < p + d < n:
                cuts.add(p + d)
    for c in sorted(cuts):
        segs.append([stream[:c], stream[c:]])
    for _ in range(3):
        k = rng.range(2, 7)
        cs = sorted(set(rng.below(n + 1) for _ in range(k)))
        segs.append([stream[a:b] for a, b in zip([0] + cs, cs + [n])])      # may contain empty reads
    if n <= (150 if quick else 600):
        segs.append([stream[i:i + 1] for i in range(n)])
    elif n:
        step = rng.choice([2, 3, 7, 64]) if n <= 4000 else rng.choice([1500, 4096, 8192])
        segs.append([stream[i:i + step] for i in range(0, n, step)])
    return segs


# ------------------------------------------------------------------ client cases
def client_ops(method, cap, segs, close):
    ops = ["cl reset %s %d" % (hexs(method), cap)] + ["cl feed %s" % hexs(s) for s in segs]
    if close:
        ops.append("cl close")
    return ops


def gen_client_valid(ctx, rng, n_streams, quick, n_small=0):
    cases = []
    all_cut = 0
    for sidx in range(n_streams + n_small):
        big = (sidx % 40 == 39) and sidx < n_streams
        small = sidx >= n_streams
        wire, exp, method, close_delim, hdr_len = gen_response(rng, big, small)
        inter = gen_interims(rng) if not small else rng.choice([b"", b"", b"HTTP/1.1 100 Continue\r\n\r\n"])
        surplus = b"" if close_delim else rng.choice([b"", b"", b"", b"X", b"HTTP/1.1 200 OK\r\n\r\n", b"\r\n", rng.bytes(5)])
        nobody = method == b"HEAD" or exp.split()[0] in ("204", "304")
        stream = inter + wire + surplus
        end = len(inter) + (hdr_len if nobody else len(wire))        # first offset at which the message is complete
        cap = rng.choice([len(stream), len(stream), len(stream) + 1, len(stream) + 8192, 1 << 20, 16 << 20])
        blocks = []
        ops = []
        limit = 60 if quick else 160
        if small and len(stream) <= 400:
            limit = len(stream)                 # every single cut point of this stream
        if len(stream) - 1 <= limit:
            all_cut += 1
        for segs in segmentations(rng, stream, quick, limit, interesting=(len(inter), len(inter) + hdr_len, end)):
            o = client_ops(method, cap, segs, True)
            # the generator knows what must come out of every op
            want = ["ok"]
            acc = 0
            done = False
            for s in segs:
                acc += len(s)
                if done:
                    want.append("done")
                elif not close_delim and acc >= end:
                    want.append("response %s evict=%d" % (exp, 1 if acc > end else 0))
                    done = True
                else:
                    want.append(None)          # some `more …` line
            want.append("done" if done else ("response %s evict=1" % exp if close_delim else "closedEarly"))
            if nobody and surplus and not close_delim:
                pass
            blocks.append((len(ops), len(o), want))
            ops += o
        cases.append({"cat": "client-valid", "ops": ops, "blocks": blocks, "stream_len": len(stream), "cap": cap,
                      "nseg": len(blocks), "close_delim": close_delim})
        cases.append(gen_xr_case(rng, stream, method, exp, end, len(inter) + hdr_len, close_delim, quick, small))
    cases.append(gen_xr_boundary(rng))
    ctx.extra["client_streams"] = n_streams + n_small
    ctx.extra["client_streams_with_every_single_cut"] = all_cut
    return cases


XR_TIMEOUTS = [0]


def xr_script(segs):
    out = []
    for s in segs:
        if isinstance(s, str):
            out.append(s)
        else:
            for i in range(0, max(len(s), 1), 60000):            # one engine delivery <= maxSyncReceiveBuffer of the scripted transport
                out.append("d:" + hexs(s[i:i + 60000]))
    return out


def gen_xr_case(rng, stream, method, exp, end, hdr_end, close_delim, quick, small):
    """The same stream through the REAL HttpClient::executeRequest over a scripted receiveSync: whole, cuts, and every
    non-data arm of the receive loop (timeout / overflow / shutting down / other error / peer close) at a random position."""
    n = len(stream)
    ops, expect = [], []
    segl = [[stream]]
    for _ in range(4 if quick else 10):
        c = rng.range(1, max(1, n - 1))
        segl.append([stream[:c], stream[c:]])
    for _ in range(2 if quick else 6):
        cs = sorted(set(rng.below(n + 1) for _ in range(rng.range(2, 5))))
        segl.append([stream[a:b] for a, b in zip([0] + cs, cs + [n])])
    if small and n <= 200:
        segl.append([stream[i:i + 1] for i in range(n)])
    arms = ["o", "s", "e", "c"] + (["t"] if XR_TIMEOUTS[0] < (14 if quick else 60) and rng.chance(1, 6) else [])
    for arm in arms:
        if arm == "t":
            XR_TIMEOUTS[0] += 1
        c = rng.range(1, max(1, n - 1))
        c2 = rng.range(c, n)
        # (`e` is scripted as "the receiveSync call after this delivery fails": the delivery before it must not be empty)
        segl.append([stream[:c], arm, stream[c:]] if (c2 == c or rng.chance(1, 2)) else [stream[:c], stream[c:c2], arm, stream[c2:]])
    for segs in segl:
        if not close_delim:
            # nothing is scripted after the delivery that completes the message: what the engine delivers while executeRequest
            # probes for residual data and returns is a race in ANY real run, not something a script can pin down
            acc, cut = 0, None
            for i, sg in enumerate(segs):
                if isinstance(sg, str):
                    break
                acc += len(sg)
                if acc >= end and len(sg):
                    cut = i + 1
                    break
            if cut is not None:
                segs = segs[:cut]
        eff = rng.choice([n, n, n + 1, 1 << 20])
        a, b = rng.choice([(eff, 0), (0, eff), (eff, max(0, eff - 1)), (max(0, eff - 7), eff), (eff, eff)])
        reuse = rng.choice([1, 1, 0])
        completes = (not close_delim) and not any(isinstance(x, str) for x in segs) and sum(len(x) for x in segs) >= end
        entries = xr_script(segs + ([] if completes else ["c"]))
        if completes:
            got = 0
            for i, e in enumerate(entries):          # (a segment above 60000 bytes is several deliveries)
                got += (len(e) - 2) // 2 if e != "d:-" else 0
                if got >= end:
                    entries = entries[:i + 1]
                    break
        ops.append("xr %s %d %d %d %s" % (hexs(method), a, b, reuse, " ".join(entries)))
        acc = 0
        want = None
        for s in segs:
            if isinstance(s, str):
                if s == "c" and close_delim and acc >= hdr_end:
                    want = ("response", exp_prefix(exp, stream, hdr_end, acc), True)
                else:
                    want = {"t": ("fail timeout",), "o": ("error overflow",), "s": ("fail shuttingDown",), "e": ("fail closedEarly",), "c": ("fail closedEarly",)}[s]
                break
            acc += len(s)
            if not close_delim and acc >= end and len(s):
                want = ("response", exp, acc > end)
                break
        if want is None:
            want = ("response", exp_prefix(exp, stream, hdr_end, acc), True) if close_delim else ("fail closedEarly",)
        expect.append(want)
    return {"cat": "client-xr", "ops": ops, "expect": expect, "stream_len": n, "nseg": len(ops)}


def gen_xr_boundary(rng):
    """A message that ends exactly on a receive-buffer boundary (8192 * k) with surplus bytes delivered together with it: the
    surplus is not in the bytes frameResponse saw, only the transport still holds it - the connection must not be reused."""
    ops, expect = [], []
    for k in (1, 2, 1, 3):
        total = 8192 * k
        n = total
        while True:
            head = b"HTTP/1.1 200 OK\r\nContent-Length: %d\r\n\r\n" % n
            if len(head) + n == total:
                break
            n -= 1
            if n < 0:
                raise RuntimeError("no body length fits")
        body = rng.bytes(n)
        surplus = rng.choice([b"X", b"HTTP/1.1 200 OK\r\n\r\n", rng.bytes(9000)])
        exp = "200 %s %s %s %s" % (hexs(b"1.1"), hexs(b"OK"), show_headers([(b"Content-Length", b"%d" % n)]), digest(body))
        ops.append("xr %s %d 0 1 %s" % (hexs(b"GET"), 1 << 20, " ".join(xr_script([head + body + surplus]))))
        expect.append(("response", exp, True))
    return {"cat": "client-xr", "ops": ops, "expect": expect, "stream_len": 0, "nseg": len(ops)}


def exp_prefix(exp, stream, end, acc):
    """close-delimited body cut short by an early peer close: the body is what had arrived"""
    parts = exp.rsplit(" ", 1)
    return parts[0] + " " + digest(stream[end:acc])


WRAP_BODY = b"hello world, here!!"


def wrap_values(rng, base):
    """Lengths >= 2^64 whose residue modulo 2^64 is a SMALL length n: (label, text of the number, n).  A conversion that
    accumulates in a 64-bit word reads them as n.  2^64*k + n for k = 1..3, and numbers of 20..25 decimal (17..22 hex) digits."""
    fmt = (lambda v: b"%d" % v) if base == 10 else (lambda v: rng.choice([b"%x", b"%X"]) % v)
    out = []
    for k in (1, 2, 3):
        for n in (0, 1, 5, 16):
            out.append(("2^64*%d+%d" % (k, n), fmt((k << 64) + n), n))
    for d in (range(20, 26) if base == 10 else range(17, 23)):
        for n in (5, rng.choice([0, 1, 2, 3, 7, 11, 16])):
            lo = base ** (d - 1)
            k = max(1, (lo >> 64) + 1 + rng.below(max(1, (lo * (base - 1)) >> 64)))
            v = (k << 64) + n
            if len(fmt(v)) != d:
                k = (lo >> 64) + 1
                v = (k << 64) + n
            out.append(("%d-digits-res-%d" % (len(fmt(v)), n), fmt(v), n))
    return out


def zero_padded(base):
    """VALID spellings: small values with so many leading zeros that the text is longer than any 64-bit number."""
    return [(b"0" * z + (b"%d" if base == 10 else b"%x") % n, n) for z, n in ((19, 5), (20, 5), (24, 5), (40, 10), (21, 0), (30, 18), (63, 1))]


def invalid_length_responses(rng):
    """Responses whose length information is invalid: each must end in `error`, never in a response."""
    out = []
    H = b"HTTP/1.1 200 OK\r\n"
    def cl(v):
        return H + b"Content-Length: " + v + b"\r\n\r\nhello world, this is the body"
    for v in [b"abc", b"12abc", b"+5", b"-5", b"-0", b" ", b"", b"0x10", b"1e3", b"5.0", b"5 5", b"5,", b",5", b"5,,5", b"5, 6", b"5,5,6",
              b"18446744073709551616", b"99999999999999999999999", b"18446744073709551615", b"\x35\xff", b"5;", b"5\t6", "\u0665".encode("utf-8")]:
        out.append(("cl-invalid:" + v.decode("latin1"), cl(v)))
    out.append(("cl-conflict", H + b"Content-Length: 5\r\nContent-Length: 6\r\n\r\nhello!"))
    out.append(("cl-conflict-ws", H + b"Content-Length: 5\r\ncontent-length: 05\r\n\r\nhello!"))
    out.append(("cl+te", H + b"Content-Length: 5\r\nTransfer-Encoding: chunked\r\n\r\n5\r\nhello\r\n0\r\n\r\n"))
    out.append(("te+cl", H + b"Transfer-Encoding: chunked\r\nContent-Length: 5\r\n\r\n5\r\nhello\r\n0\r\n\r\n"))
    out.append(("te-gzip+cl", H + b"Transfer-Encoding: gzip\r\nContent-Length: 5\r\n\r\nhello"))
    def ch(body):
        return H + b"Transfer-Encoding: chunked\r\n\r\n" + body
    for name, b in [("no-digits", b"\r\nabc\r\n0\r\n\r\n"), ("junk-after-size", b"3x\r\nabc\r\n0\r\n\r\n"), ("0x", b"0x3\r\nabc\r\n0\r\n\r\n"),
                    ("sign", b"-3\r\nabc\r\n0\r\n\r\n"), ("plus", b"+3\r\nabc\r\n0\r\n\r\n"), ("ws-before-crlf", b"3 \r\nabc\r\n0\r\n\r\n"),
                    ("leading-ws", b" 3\r\nabc\r\n0\r\n\r\n"), ("bare-lf-size", b"3\nabc\r\n0\r\n\r\n"), ("bare-lf-data", b"3\r\nabc\n0\r\n\r\n"),
                    ("data-too-long", b"3\r\nabcd\r\n0\r\n\r\n"), ("data-too-short", b"3\r\nab\r\n0\r\n\r\n12345"), ("bare-lf-trailer", b"3\r\nabc\r\n0\r\nA: b\n\r\n"),
                    ("bare-lf-last", b"3\r\nabc\r\n0\n\r\n"), ("overflow-17", b"10000000000000000\r\nabc\r\n0\r\n\r\n"),
                    ("overflow-big", b"fffffffffffffffffffff\r\nabc"), ("wrap", b"ffffffffffffffec\r\nzz"), ("max", b"ffffffffffffffff\r\nzz"),
                    ("over-cap", b"4001\r\n" + b"a" * 100), ("g-digit", b"3g\r\nabc\r\n0\r\n\r\n"), ("empty-line-first", b"\r\n3\r\nabc\r\n0\r\n\r\n"),
                    ("lf-only", b"\n"), ("cr-only-size", b"3\rabc\r\n0\r\n\r\n\n")]:
        out.append(("chunk-" + name, ch(b)))
    for n in BOUNDARY_SIZES:
        out.append(("cl-boundary-%d" % n, cl(b"%d" % n)))
        out.append(("chunk-boundary-%x" % n, ch(b"%x\r\nzz" % n)))
        out.append(("chunk-boundary-ext-%x" % n, ch(b"%X;a=b\r\nzz\r\n0\r\n\r\n" % n)))
    # >= 2^64 with a small residue n and EXACTLY n body bytes: a wrapping conversion would return a complete response
    for label, v, n in wrap_values(rng, 10):
        out.append(("cl-wrap-" + label, H + b"Content-Length: " + v + b"\r\n\r\n" + WRAP_BODY[:n]))
        out.append(("cl-wrap-list-" + label, H + b"Content-Length: %d, " % n + v + b"\r\n\r\n" + WRAP_BODY[:n]))
    for label, v, n in wrap_values(rng, 16):
        out.append(("chunk-wrap-" + label, ch(v + b"\r\n" + (WRAP_BODY[:n] + b"\r\n0\r\n\r\n" if n else b"\r\n"))))
        out.append(("chunk-wrap-2nd-" + label, ch(b"3\r\nabc\r\n" + v + b";e=1\r\n" + (WRAP_BODY[:n] + b"\r\n0\r\n\r\n" if n else b"\r\n"))))
    return out


def gen_client_invalid(ctx, rng, quick):
    cases = []
    for name, stream in invalid_length_responses(rng):
        cap = 16384
        blocks, ops = [], []
        segsl = segmentations(rng, stream, quick, 24 if quick else 120)
        for segs in segsl:
            o = client_ops(b"GET", cap, segs, True)
            blocks.append((len(ops), len(o), None))
            ops += o
        cases.append({"cat": "client-invalid-length", "name": name, "ops": ops, "blocks": blocks, "cap": cap, "nseg": len(blocks)})
    return cases


def mutate(rng, w, hot):
    """Protocol-aware mutation of a valid stream; `hot` = offsets of framing-relevant bytes."""
    w = bytearray(w)
    for _ in range(rng.range(1, 3)):
        k = rng.below(9)
        at = rng.choice(hot) if hot and rng.chance(2, 3) else rng.below(len(w) + 1)
        at = min(at, len(w))
        if k == 0 and at < len(w):
            w[at] ^= 1 << rng.below(8)
        elif k == 1 and at < len(w):
            del w[at]
        elif k == 2:
            w[at:at] = rng.choice([b"\r", b"\n", b"\r\n", b" ", b"\t", b":", b" :", b",", b";", b"0", b"f", b"-", b"+", b"\x00", b"\xff", b"\r\n\r\n"])
        elif k == 3 and at < len(w):
            w[at] = rng.choice(b"\r\n :;,0123456789abcdefABCDEFxX-+\x00\xff\t")
        elif k == 4 and len(w) > 2:
            del w[at:at + rng.range(1, 6)]
        elif k == 5:
            w[at:at] = w[max(0, at - rng.range(1, 20)):at]                # duplicate a slice
        elif k == 6 and len(w) > 4:
            del w[rng.below(len(w)):]                                     # truncate
        elif k == 7:
            w[at:at] = rng.choice([b"Content-Length: 3\r\n", b"Transfer-Encoding: chunked\r\n", b"Content-Length: 18446744073709551615\r\n",
                                   b"ffffffffffffffec\r\n", b"HTTP/1.1 100 Continue\r\n\r\n", b" folded\r\n"])
        elif at < len(w):
            w[at] = rng.below(256)
    return bytes(w)


def hot_offsets(w):
    hot = []
    for i, c in enumerate(w):
        if c in b"\r\n:;" or (i and w[i - 1] in b"\r\n"):
            hot.append(i)
    for key in (b"ontent-", b"ransfer-", b"HTTP/", b"hunked"):
        j = lower(w).find(lower(key))
        if j >= 0:
            hot += list(range(j, min(len(w), j + 24)))
    return hot


def gen_client_mutated(ctx, rng, n, quick):
    cases = []
    for i in range(n):
        wire, exp, method, close_delim, hdr_len = gen_response(rng)
        stream = gen_interims(rng) + wire
        if i % 7 == 6:
            stream = rng.bytes(rng.range(1, 80))
        else:
            stream = mutate(rng, stream, hot_offsets(stream))
        cap = rng.choice([len(stream) + 10, 200, 64, 1 << 20, max(1, len(stream) - 1), len(stream)])
        blocks, ops = [], []
        for segs in segmentations(rng, stream, quick, 10 if quick else 30):
            o = client_ops(method, cap, segs, True)
            blocks.append((len(ops), len(o), None))
            ops += o
        cases.append({"cat": "client-mutated", "ops": ops, "blocks": blocks, "cap": cap, "stream_len": len(stream), "nseg": len(blocks)})
    return cases


def gen_client_cap(ctx, rng, n, quick):
    """Buffer-cap boundary: caps around every interesting length of a valid stream."""
    cases = []
    for i in range(n):
        wire, exp, method, close_delim, hdr_len = gen_response(rng)
        inter = gen_interims(rng)
        stream = inter + wire + rng.choice([b"", b"ZZZ"])
        ops = []
        blocks = []
        for cap in sorted(set(max(0, x + d) for x in (len(stream), len(wire), hdr_len, len(inter) + hdr_len, len(wire) - hdr_len) for d in (-1, 0, 1))):
            for segs in ([stream], [stream[:hdr_len], stream[hdr_len:]], [stream[j:j + 5] for j in range(0, len(stream), 5)]):
                o = client_ops(method, cap, segs, True)
                blocks.append((len(ops), len(o), None))
                ops += o
        cases.append({"cat": "client-cap", "ops": ops, "blocks": blocks, "cap_boundary": True, "stream_len": len(stream), "nseg": len(blocks)})
    return cases


def gen_client_direct(ctx, rng, n):
    """Direct calls of the private helpers (finer-grained correspondence)."""
    ops = []
    vals = [b"5", b" 5 ", b"5,5", b"5 , 5", b"", b",", b"5,", b"05", b"18446744073709551615", b"18446744073709551616", b"1 2", b"+1", b"-1", b"\t7\t", b"7,\t7 ,7"]
    for v in vals:
        ops.append("pcl %s" % hexs(v))
    for v in [b"chunked", b"Chunked", b"gzip, chunked", b"chunked, gzip", b"chunked,", b"chunked, ,", b"", b",", b" chunked ", b"chunkedx", b"xchunked", b"chunked;q=1", b"CHUNKED\t", b"\xe3hunked"]:
        ops.append("te %s" % hexs(v))
    for _ in range(n):
        v = bytes(rng.choice(b"0123456789, \t+-a") for _ in range(rng.range(0, 8)))
        ops.append("pcl %s" % hexs(v))
        v = bytes(rng.choice(b"chunkedCHUNKED, \tgzip;") for _ in range(rng.range(0, 12)))
        ops.append("te %s" % hexs(v))
        wire, exp, method, cd, hl = gen_response(rng)
        hb = wire[:hl - 4]
        if rng.chance(1, 2):
            hb = mutate(rng, hb, hot_offsets(hb))
        ops.append("phb %s" % hexs(hb))
        ops.append("df %s %d %s" % (hexs(method if rng.chance(3, 4) else b"CONNECT"), rng.choice([0, 1, 10, 100, 1 << 20]), hexs(hb)))
        body = render_chunked(rng, rand_body(rng, rng.choice([0, 1, 5, 40])))
        pre = rng.bytes(rng.choice([0, 1, 4]))
        if rng.chance(1, 2):
            body = mutate(rng, body, hot_offsets(body))
        body = body[:rng.range(0, len(body))] if rng.chance(1, 3) else body
        ops.append("adv %d %d %s" % (rng.choice([0, 1, 5, 40, 1 << 20, 2 ** 64 - 1]), rng.choice([len(pre), len(pre), 0, len(pre) + len(body), len(pre) + len(body) + 3]), hexs(pre + body)))
    return [{"cat": "client-direct", "ops": ops[i:i + 200]} for i in range(0, len(ops), 200)]


# ------------------------------------------------------------------ server cases
def gen_request(rng, big=False, small=False, last=True):
    """(wire, expected handler event or None for OPTIONS *), body framing kind"""
    mi = rng.choice([0, 0, 1, 1, 2, 3, 4, 5, 6, 8])
    method = METHODS[mi].encode()
    path = b"/" + b"/".join(rand_token(rng, 1, 6) for _ in range(rng.range(0, 3)))
    query = rng.choice([b"", b"", b"?a=1", b"?x=%20&y", b"?", b"?t=12:30:00&u=a:b", b"?:", b"?a=1&a=2&b=&=c&&d", b"?k=v=w&K=V", b"?a=1?b=2&c=%26"])
    tform = rng.below(12)
    if tform == 0:
        path = bytes(rng.choice(b"/abc\x80\xff~%:") for _ in range(rng.range(1, 9)))
        path = b"/" + path.replace(b"?", b"")
    elif tform in (1, 2):
        # absolute-form: the request line contains `:` before any field line does
        path = rng.choice([b"http://h:80", b"http://example.com:8080", b"https://[::1]:443", b"content-length://x", b"http://u:p@h"]) + path
    elif tform == 3:
        mi, method, path, query = 7, b"CONNECT", rng.choice([b"h:443", b"example.com:80", b"[::1]:8443"]), b""      # authority-form
    elif tform == 4:
        path = path + rng.choice([b":", b":colon", b";a:b"])
    # HTTP/1.0 (close-by-default) only on the last request of a pipeline: what the server does to the connection after
    # answering is C16's business and must not change what this check expects
    version = rng.choice([b"HTTP/1.1", b"HTTP/1.1", b"HTTP/1.0"]) if last else b"HTTP/1.1"
    fields = Fields()
    rand_fields(rng, fields, request=True, small=small)
    fl = fields

    def place(name, value, pad=True):
        fl.add(rng, name, value, pad=pad, at=rng.below(len(fl.items) + 1))
    place(rng.choice([b"Host", b"host", b"HOST"]), rng.choice([b"a", b"example.com:8080", b"[::1]"]))
    blen = rng.choice([0, 0, 1, 2, 3, 10, 17, 100, 300, 1000]) if not big else rng.choice([5000, 20000, 70000])
    if small:
        blen = rng.choice([0, 1, 2, 3, 5, 17])
    body = rand_body(rng, blen)
    kind = rng.choice(["none", "cl", "cl", "chunked", "chunked"])
    if kind == "none":
        body, tail = b"", b""
    elif kind == "cl":
        v = b"%d" % len(body)
        place(rng.choice([b"Content-Length", b"content-length", b"CONTENT-LENGTH"]), rng.choice([v, v, b"00" + v]))
        if rng.chance(1, 8):
            place(rng.choice([b"Content-Length", b"content-length"]), rng.choice([v, b"0" + v]))      # repeated field with an equal value is legal
        tail = body
    else:
        place(rng.choice([b"Transfer-Encoding", b"transfer-encoding"]), rng.choice([b"chunked", b"Chunked", b"gzip, chunked"]))
        tail = render_chunked(rng, body)
    wire = method + b" " + path + query + b" " + version + b"\r\n" + b"".join(l + b"\r\n" for l in fl.lines) + b"\r\n" + tail
    ev = rev(mi, path + query, fl.map, body)
    return wire, ev, kind


def server_ops(segs):
    return ["sv reset"] + ["sv data %s" % hexs(s) for s in segs]


def gen_server_valid(ctx, rng, n_streams, quick, n_small=0):
    cases = []
    all_cut = 0
    for sidx in range(n_streams + n_small):
        big = (sidx % 40 == 39) and sidx < n_streams
        small = sidx >= n_streams
        nreq = rng.choice([1, 1, 2, 3, 4]) if not small else rng.choice([1, 1, 2])
        reqs = [gen_request(rng, big and k == 0, small, last=(k == nreq - 1)) for k in range(nreq)]
        stream = b"".join(r[0] for r in reqs)
        ends = []
        acc = 0
        for r in reqs:
            acc += len(r[0])
            ends.append(acc)
        partial = b""
        if rng.chance(1, 4) and not small:
            w2 = gen_request(rng)[0]
            partial = w2[:rng.range(0, len(w2) - 1)]                     # an incomplete request stays buffered
        stream += partial
        blocks, ops = [], []
        limit = 40 if quick else 120
        if small and len(stream) <= 500:
            limit = len(stream)                 # every single cut point of this pipeline
        if len(stream) - 1 <= limit:
            all_cut += 1
        for segs in segmentations(rng, stream, quick, limit, interesting=ends):
            o = server_ops(segs)
            want = ["ok"]
            acc = 0
            k = 0
            for s in segs:
                acc += len(s)
                evs = []
                while k < len(reqs) and acc >= ends[k]:
                    evs += [reqs[k][1], "S:200"]
                    k += 1
                want.append("%s | io=- | buf=%d alive=1" % (",".join(evs) if evs else "-", acc - (ends[k - 1] if k else 0)))
            blocks.append((len(ops), len(o), want))
            ops += o
        cases.append({"cat": "server-valid", "ops": ops, "blocks": blocks, "stream_len": len(stream), "nreq": len(reqs), "nseg": len(blocks),
                      "kinds": [r[2] for r in reqs]})
    ctx.extra["server_streams"] = n_streams + n_small
    ctx.extra["server_streams_with_every_single_cut"] = all_cut
    return cases


def invalid_length_requests(rng):
    out = []
    R = b"POST /x HTTP/1.1\r\nHost: a\r\n"
    follow = b"GET /next HTTP/1.1\r\nHost: a\r\n\r\n"
    def cl(v):
        return R + b"Content-Length: " + v + b"\r\n\r\nhello" + follow
    for v in [b"abc", b"3abc", b"12abc", b"+5", b"-5", b"-1", b" ", b"", b"0x5", b"5.0", b"5 5", b"5,5", b"5, 6", b"18446744073709551616",
              b"99999999999999999999999", b"18446744073709551615", b"5;", b"10485761", "\u0665".encode("utf-8")]:
        out.append(("cl-invalid:" + v.decode("latin1"), cl(v)))
    out.append(("cl-conflict", R + b"Content-Length: 3abc\r\nContent-Length: 5\r\n\r\nhello" + follow))
    out.append(("cl-conflict2", R + b"Content-Length: 5\r\nContent-Length: 6\r\n\r\nhello!" + follow))
    out.append(("cl-conflict3", R + b"Content-Length: 6\r\ncontent-length: 5\r\n\r\nhello!" + follow))
    out.append(("cl+te", R + b"Content-Length: 5\r\nTransfer-Encoding: chunked\r\n\r\n5\r\nhello\r\n0\r\n\r\n" + follow))
    out.append(("te+cl", R + b"Transfer-Encoding: chunked\r\nContent-Length: 5\r\n\r\n5\r\nhello\r\n0\r\n\r\n" + follow))
    chunked_body = b"5\r\nhello\r\n0\r\n\r\n"
    smuggled = b"GET /smuggled HTTP/1.1\r\nHost: a\r\n\r\n"
    for name, te, body in [("te-substring", b"notchunkedy", chunked_body), ("te-substring2", b"xchunked", chunked_body), ("te-param", b"chunked;q=1", chunked_body),
                           ("te-gzip-body-is-next-request", b"gzip", smuggled), ("te-chunked-not-final", b"chunked, gzip", chunked_body),
                           ("te-identity", b"identity", smuggled), ("te-empty", b"", smuggled), ("te-commas", b" , ,", smuggled),
                           ("te-gzip+cl", b"gzip\r\nContent-Length: 5", b"hello")]:
        out.append((name, R + b"Transfer-Encoding: " + te + b"\r\n\r\n" + body + follow))
    out.append(("te-two-lines-last-not-chunked", R + b"Transfer-Encoding: chunked\r\nTransfer-Encoding: gzip\r\n\r\n" + chunked_body + follow))

    def ch(body):
        return R + b"Transfer-Encoding: chunked\r\n\r\n" + body
    for name, b in [("no-digits", b"\r\nabc\r\n0\r\n\r\n"), ("junk-after-size", b"3x\r\nabc\r\n0\r\n\r\n"), ("0x", b"0x3\r\nabc\r\n0\r\n\r\n"),
                    ("sign", b"-3\r\nabc\r\n0\r\n\r\n"), ("plus", b"+3\r\nabc\r\n0\r\n\r\n"), ("ws-before-crlf", b"3 \r\nabc\r\n0\r\n\r\n"),
                    ("leading-ws", b" 3\r\nabc\r\n0\r\n\r\n"), ("data-too-long", b"3\r\nabcd\r\n0\r\n\r\n"), ("data-too-short", b"3\r\nab\r\n0\r\n\r\n12345"),
                    ("overflow-17", b"10000000000000000\r\nabc\r\n0\r\n\r\n"), ("overflow-big", b"fffffffffffffffffffff\r\nabc"),
                    ("wrap", b"ffffffffffffffec\r\nzz"), ("wrap-neg", b"-14\r\nzz"), ("max", b"ffffffffffffffff\r\nzz"), ("over-limit", b"a00001\r\n" + b"a" * 100),
                    ("g-digit", b"3g\r\nabc\r\n0\r\n\r\n")]:
        out.append(("chunk-" + name, ch(b + follow)))
    for n in BOUNDARY_SIZES:
        out.append(("cl-boundary-%d" % n, cl(b"%d" % n)))
        out.append(("chunk-boundary-%x" % n, ch(b"%x\r\nzz" % n + follow)))
        out.append(("chunk-boundary-ext-%x" % n, ch(b"%X;a=b\r\nzz\r\n0\r\n\r\n" % n + follow)))
    # >= 2^64 with a small residue n, EXACTLY n body bytes and a pipelined request behind them: a conversion that wraps would
    # dispatch POST /x with the n-byte body and then GET /next (the request-smuggling shape)
    for label, v, n in wrap_values(rng, 10):
        out.append(("cl-wrap-" + label, R + b"Content-Length: " + v + b"\r\n\r\n" + WRAP_BODY[:n] + follow))
        out.append(("cl-wrap-dup-" + label, R + b"Content-Length: %d\r\nContent-Length: " % n + v + b"\r\n\r\n" + WRAP_BODY[:n] + follow))
    for label, v, n in wrap_values(rng, 16):
        out.append(("chunk-wrap-" + label, ch(v + b"\r\n" + (WRAP_BODY[:n] + b"\r\n0\r\n\r\n" if n else b"\r\n") + follow)))
        out.append(("chunk-wrap-2nd-" + label, ch(b"3\r\nabc\r\n" + v + b";e=1\r\n" + (WRAP_BODY[:n] + b"\r\n0\r\n\r\n" if n else b"\r\n") + follow)))
    return out


def gen_server_invalid(ctx, rng, quick):
    cases = []
    for name, stream in invalid_length_requests(rng):
        blocks, ops = [], []
        for segs in segmentations(rng, stream, quick, 16 if quick else 100):
            o = server_ops(segs)
            blocks.append((len(ops), len(o), None))
            ops += o
        cases.append({"cat": "server-invalid-length", "name": name, "ops": ops, "blocks": blocks, "nseg": len(blocks)})
    return cases


def gen_server_mutated(ctx, rng, n, quick):
    cases = []
    for i in range(n):
        reqs = [gen_request(rng) for _ in range(rng.choice([1, 2, 3]))]
        stream = b"".join(r[0] for r in reqs)
        if i % 7 == 6:
            stream = rng.bytes(rng.range(1, 80)) + b"\r\n\r\n" + rng.bytes(rng.range(0, 20))
        else:
            stream = mutate(rng, stream, hot_offsets(stream))
        blocks, ops = [], []
        for segs in segmentations(rng, stream, quick, 8 if quick else 24):
            o = server_ops(segs)
            blocks.append((len(ops), len(o), None))
            ops += o
        cases.append({"cat": "server-mutated", "ops": ops, "blocks": blocks, "stream_len": len(stream), "nseg": len(blocks)})
    return cases


def gen_server_caps(ctx, rng, quick):
    """Header-size, body-size and buffer-size limits, one byte either side."""
    cases = []
    G = b"GET / HTTP/1.1\r\nHost: a\r\n"
    for d in (-1, 0, 1):
        # header section of exactly MAX_HEADER + d bytes before the terminator
        pad = MAX_HEADER + d - len(G) - len(b"X-Pad: ")
        stream = G + b"X-Pad: " + b"p" * pad + b"\r\n\r\n"
        assert stream.find(b"\r\n\r\n") == MAX_HEADER + d
        for segs in ([stream], [stream[i:i + 8192] for i in range(0, len(stream), 8192)]):
            cases.append({"cat": "server-caps", "name": "header%+d" % d, "ops": server_ops(segs), "expect_closed": d > 0,
                          "expect_requests": 0 if d > 0 else 1})
    for d in (-1, 0, 1):
        stream = b"POST / HTTP/1.1\r\nHost: a\r\nContent-Length: %d\r\n\r\n" % (MAX_BODY + d) + b"x" * 100
        cases.append({"cat": "server-caps", "name": "declared-body%+d" % d, "ops": server_ops([stream]), "expect_closed": d > 0, "expect_requests": 0})
    # a body that (with its header) fills the buffer exactly / one byte more
    hdr = b"POST / HTTP/1.1\r\nHost: a\r\nContent-Length: "
    for d in (-1, 0, 1):
        total = MAX_BUFFER + d
        n = total - len(hdr) - 4 - 7
        head = hdr + b"%07d" % n + b"\r\n\r\n"
        stream = head + b"b" * n
        assert len(stream) == total
        segs = [stream[i:i + 65536] for i in range(0, len(stream), 65536)]
        cases.append({"cat": "server-caps", "name": "buffer%+d" % d, "ops": server_ops(segs), "expect_closed": d > 0, "expect_requests": 0 if d > 0 else 1})
    # endless header: never a terminator
    junk = [b"X: " + b"y" * 65000 + b"\r\n"] * 18
    cases.append({"cat": "server-caps", "name": "endless-header", "ops": server_ops(junk), "expect_closed": True, "expect_requests": 0})
    # endless chunked body
    head = b"POST / HTTP/1.1\r\nHost: a\r\nTransfer-Encoding: chunked\r\n\r\n"
    chunk = b"ff00\r\n" + b"c" * 0xff00 + b"\r\n"
    cases.append({"cat": "server-caps", "name": "endless-chunked", "ops": server_ops([head] + [chunk] * 18), "expect_closed": True, "expect_requests": 0})
    return cases


def plain_request(mi, path, body=b"", kind="none", nchunks=7, pad=0):
    """A request in the simplest spelling + the handler event it must produce (deterministic: no random fields)."""
    fields = [(b"Host", b"a")]
    if pad:
        fields.append((b"X-Pad", b"p" * pad))
    if kind == "cl":
        fields.append((b"Content-Length", b"%d" % len(body)))
        tail = body
    elif kind == "chunked":
        fields.append((b"Transfer-Encoding", b"chunked"))
        step = max(1, (len(body) + nchunks - 1) // nchunks)
        tail = b"".join(b"%x\r\n" % len(body[i:i + step]) + body[i:i + step] + b"\r\n" for i in range(0, len(body), step)) + b"0\r\n\r\n"
    else:
        tail = b""
    wire = METHODS[mi].encode() + b" " + path + b" HTTP/1.1\r\n" + b"".join(k + b": " + v + b"\r\n" for k, v in fields) + b"\r\n" + tail
    return wire, rev(mi, path, fields, body)


def gen_server_pipeline_offsets(ctx, rng, quick):
    """The header-size limit is per request, not per extraction pass: requests pipelined behind more than MAX_HEADER_SIZE bytes
    of earlier requests that are handled in the SAME handleIncomingData call must be extracted like any other.  Deterministic
    shapes: a > 64 KiB first request (Content-Length / chunked in 7 chunks / header padding), first requests sized so that the
    header terminator of the second request sits at absolute offset 65535 / 65536 / 65537 of the pass, followers with and
    without a body, and many medium requests whose cumulative length passes 64 KiB - each delivered whole, and cut so that the
    end of request 1 and the CRLFCRLF of request 2 arrive in the same segment."""
    pipelines = []
    follow = [plain_request(0, b"/two"), plain_request(1, b"/three", b"tail-body", "cl"), plain_request(2, b"/four", b"abcdefghij" * 3, "chunked", 3)]
    body70k = bytes((i * 31 + 7) & 0xFF for i in range(70000))
    pipelines.append(("cl-70000", [plain_request(1, b"/big", body70k, "cl")] + follow))
    pipelines.append(("chunked-70000-in-7", [plain_request(1, b"/big", body70k, "chunked", 7)] + follow))
    pipelines.append(("header-pad-65000+cl-2000", [plain_request(1, b"/big", body70k[:2000], "cl", pad=65000)] + follow[:1]))
    pipelines.append(("two-big", [plain_request(1, b"/big1", body70k[:66000], "cl"), plain_request(3, b"/big2", body70k[:67000], "chunked", 5)] + follow[:2]))
    second = plain_request(0, b"/two")
    he2 = second[0].find(b"\r\n\r\n")
    for target in (MAX_HEADER - 1, MAX_HEADER, MAX_HEADER + 1, MAX_HEADER + 2):
        for kind in ("cl", "chunked"):
            n = 60000
            while True:                           # size request 1 so that request 2's terminator sits at `target`
                first = plain_request(1, b"/fit", body70k[:n], kind, 7)
                d = len(first[0]) + he2 - target
                if d == 0:
                    break
                n -= d
                if not 0 < n <= 70000:
                    raise RuntimeError("cannot fit")
            assert (first[0] + second[0]).find(b"\r\n\r\n", len(first[0])) == target
            pipelines.append(("headerEnd2@%d-%s" % (target, kind), [first, second, plain_request(1, b"/three", b"xyz", "cl")]))
    pipelines.append(("40-posts-of-2KiB", [plain_request(1, b"/m%d" % i, body70k[i:i + 2048], "cl") for i in range(40)]))
    pipelines.append(("60-chunked-of-1.5KiB", [plain_request(2, b"/c%d" % i, body70k[i:i + 1500], "chunked", 3) for i in range(60)]))
    pipelines.append(("200-gets", [plain_request(0, b"/g%d" % i, pad=300) for i in range(220)]))
    cases = []
    for name, reqs in pipelines:
        stream = b"".join(r[0] for r in reqs)
        ends, acc = [], 0
        for r in reqs:
            acc += len(r[0])
            ends.append(acc)
        e1 = ends[0]
        seglist = [[stream],                                             # one pass over everything
                   [stream[:e1 - 10], stream[e1 - 10:]],                  # end of request 1 + terminator of request 2 in one segment
                   [stream[:e1 - 1], stream[e1 - 1:]],
                   [stream[:e1], stream[e1:]],                            # request 2 in a later pass (never affected)
                   [stream[:e1 + 3], stream[e1 + 3:]],
                   [stream[i:i + 65536] for i in range(0, len(stream), 65536)],          # engine-sized reads
                   [stream[i:i + 8192] for i in range(0, len(stream), 8192)]]
        blocks, ops = [], []
        for segs in seglist:
            o = server_ops(segs)
            want = ["ok"]
            acc, k = 0, 0
            for sgm in segs:
                acc += len(sgm)
                evs = []
                while k < len(reqs) and acc >= ends[k]:
                    evs += [reqs[k][1], "S:200"]
                    k += 1
                want.append("%s | io=- | buf=%d alive=1" % (",".join(evs) if evs else "-", acc - (ends[k - 1] if k else 0)))
            blocks.append((len(ops), len(o), want))
            ops += o
        cases.append({"cat": "server-valid", "name": "pipeline-offsets:" + name, "ops": ops, "blocks": blocks, "stream_len": len(stream),
                      "nreq": len(reqs), "nseg": len(blocks), "kinds": []})
    return cases


def gen_leading_zero_lengths(ctx, rng, quick):
    """VALID lengths spelled with more digits than any 64-bit number has (leading zeros): Content-Length `000000000000000000000005`
    and chunk sizes `00000000000000000005` / last-chunk `000000000000000000` must be accepted as exactly that value on both
    endpoints (a digit-count limit, or a conversion that rejects by length, would break them) - every single cut, 1-byte drip,
    and through the real executeRequest."""
    cases = []
    body_src = b"hello world, here is the body"
    # ---- server: POST with the padded length + a pipelined GET
    for base in (10, 16):
        for text, n in zero_padded(base):
            body = body_src[:n]
            if base == 10:
                fields = [(b"Host", b"a"), (b"Content-Length", text)]
                tail = body
            else:
                fields = [(b"Host", b"a"), (b"Transfer-Encoding", b"chunked")]
                tail = (text + b"\r\n" + body + b"\r\n" if n else b"") + b"0" * rng.choice([1, 17, 30]) + b"\r\n\r\n"
            wire = b"POST /z HTTP/1.1\r\n" + b"".join(k + b": " + v + b"\r\n" for k, v in fields) + b"\r\n" + tail
            reqs = [(wire, rev(1, b"/z", fields, body)), plain_request(0, b"/next")]
            stream = b"".join(r[0] for r in reqs)
            ends = [len(reqs[0][0]), len(stream)]
            seglist = [[stream]] + [[stream[:c], stream[c:]] for c in range(1, len(stream))] + [[stream[i:i + 1] for i in range(len(stream))]]
            blocks, ops = [], []
            for segs in seglist:
                o = server_ops(segs)
                want = ["ok"]
                acc, k = 0, 0
                for sgm in segs:
                    acc += len(sgm)
                    evs = []
                    while k < len(reqs) and acc >= ends[k]:
                        evs += [reqs[k][1], "S:200"]
                        k += 1
                    want.append("%s | io=- | buf=%d alive=1" % (",".join(evs) if evs else "-", acc - (ends[k - 1] if k else 0)))
                blocks.append((len(ops), len(o), want))
                ops += o
            cases.append({"cat": "server-valid", "name": "leading-zeros:%s:%s" % ("cl" if base == 10 else "chunk", text.decode()), "ops": ops,
                          "blocks": blocks, "stream_len": len(stream), "nreq": 2, "nseg": len(blocks), "kinds": []})
    # ---- client
    xr_ops, xr_expect = [], []
    for base in (10, 16):
        for text, n in zero_padded(base):
            body = body_src[:n]
            if base == 10:
                fields = [(b"Content-Length", text)]
                tail = body
            else:
                fields = [(b"Transfer-Encoding", b"chunked")]
                tail = (text + b"\r\n" + body + b"\r\n" if n else b"") + b"0" * rng.choice([1, 17, 30]) + b"\r\n\r\n"
            stream = b"HTTP/1.1 200 OK\r\n" + b"".join(k + b": " + v + b"\r\n" for k, v in fields) + b"\r\n" + tail
            exp = "200 %s %s %s %s" % (hexs(b"1.1"), hexs(b"OK"), show_headers(fields), digest(body))
            end = len(stream)
            cap = 1 << 20
            seglist = [[stream]] + [[stream[:c], stream[c:]] for c in range(1, len(stream))] + [[stream[i:i + 1] for i in range(len(stream))]]
            blocks, ops = [], []
            for segs in seglist:
                o = client_ops(b"GET", cap, segs, True)
                want = ["ok"]
                acc, done = 0, False
                for sg in segs:
                    acc += len(sg)
                    if done:
                        want.append("done")
                    elif acc >= end:
                        want.append("response %s evict=0" % exp)
                        done = True
                    else:
                        want.append(None)
                want.append("done")
                blocks.append((len(ops), len(o), want))
                ops += o
            cases.append({"cat": "client-valid", "name": "leading-zeros:" + text.decode(), "ops": ops, "blocks": blocks, "stream_len": len(stream),
                          "cap": cap, "nseg": len(blocks), "close_delim": False})
            for segs in ([stream], [stream[:len(stream) // 2], stream[len(stream) // 2:]]):
                xr_ops.append("xr %s %d 0 1 %s" % (hexs(b"GET"), cap, " ".join(xr_script(segs))))
                xr_expect.append(("response", exp, False))
    cases.append({"cat": "client-xr", "ops": xr_ops, "expect": xr_expect, "stream_len": 0, "nseg": len(xr_ops)})
    return cases


def gen_server_direct(ctx, rng, n):
    ops = []
    for name, b in [("wrap", b"ffffffffffffffec\r\nzz"), ("neg", b"-14\r\nzz"), ("ok", b"3\r\nabc\r\n0\r\n\r\n"), ("trailer", b"3\r\nabc\r\n0\r\nX-T: 1\r\n\r\n"),
                    ("ext", b"3;a=b\r\nabc\r\n0;x\r\n\r\n"), ("empty", b""), ("zero", b"0\r\n\r\n"), ("zero-more", b"0\r\n"), ("nocrlf", b"3\r\nabcXX0\r\n\r\n")]:
        ops.append("fce 0 %s" % hexs(b))
        ops.append("fce 2 %s" % hexs(b"zz" + b))
    for n_ in BOUNDARY_SIZES:
        ops.append("fce 0 %s" % hexs(b"%x\r\nzz" % n_))
    for _ in range(n):
        body = render_chunked(rng, rand_body(rng, rng.choice([0, 1, 5, 40])))
        if rng.chance(1, 2):
            body = mutate(rng, body, hot_offsets(body))
        body = body[:rng.range(0, len(body))] if rng.chance(1, 3) else body
        pre = rng.bytes(rng.choice([0, 1, 4]))
        ops.append("fce %d %s" % (rng.choice([len(pre), len(pre), 0, len(pre) + len(body), len(pre) + len(body) + 3]), hexs(pre + body)))
    return [{"cat": "server-direct", "ops": ops[i:i + 200]} for i in range(0, len(ops), 200)]


# ------------------------------------------------------------------ extension round: reach, long connections, closes, pool oracle
def many_fields(rng, n, wide=False):
    """n distinct plain field lines (name, value) - none of them a framing / reserved field"""
    out = []
    for i in range(n):
        name = b"X-F%d-" % i + rand_token(rng, 1, 6)
        value = rand_value(rng)[:40].strip(b" \t") if not wide else bytes(rng.choice(b"abcdefghij0123456789 ;=") for _ in range(rng.range(60, 120))).strip(b" ")
        out.append((name, value))
    return out


def gen_server_reach(ctx, rng, quick):
    """Deterministic shapes the random generators never reached (review M3 / never-reached list): 17-120 field lines before the
    framing field, a request target of exactly MAX_REQUEST_TARGET_SIZE and one byte more, HTTP/1.2, HTTP/2.0, empty / repeated
    Host, CTL in the target, unknown and malformed method tokens - each whole, cut in two and in 1500-byte reads.  The expected
    answer line is complete (handler event or error status + close)."""
    cases = []
    shapes = []

    def req(method_i, target, version=b"HTTP/1.1", fields=None, body=b"", kind="none", method_txt=None):
        fields = list(fields if fields is not None else [(b"Host", b"a")])
        if kind == "cl":
            fields.append((b"Content-Length", b"%d" % len(body)))
            tail = body
        elif kind == "chunked":
            fields.append((b"Transfer-Encoding", b"chunked"))
            tail = b"".join(b"%x\r\n" % len(body[i:i + 1000]) + body[i:i + 1000] + b"\r\n" for i in range(0, len(body), 1000)) + b"0\r\n\r\n"
        else:
            tail = b""
        m = method_txt if method_txt is not None else METHODS[method_i].encode()
        wire = m + b" " + target + b" " + version + b"\r\n" + b"".join(k + b": " + v + b"\r\n" for k, v in fields) + b"\r\n" + tail
        return wire, fields
    for n in (16, 17, 18, 33, 64, 120):
        for kind in ("cl", "chunked"):
            body = rng.bytes(rng.choice([1, 10, 700]))
            fields = [(b"Host", b"a")] + many_fields(rng, n)
            wire, fl = req(1, b"/many%d" % n, fields=fields, body=body, kind=kind)
            shapes.append(("fields-%d-%s" % (n, kind), wire, [rev(1, b"/many%d" % n, fl, body), "S:200"]))
    big = many_fields(rng, 90, wide=True)
    wire, fl = req(2, b"/bighdr", fields=[(b"Host", b"a")] + big, body=b"xyz", kind="cl")
    assert len(wire) > 8192
    shapes.append(("header-block-%d" % len(wire), wire, [rev(2, b"/bighdr", fl, b"xyz"), "S:200"]))
    maxt = 8192
    for d in (-1, 0, 1, 2):
        t = b"/" + b"t" * (maxt + d - 1)
        wire, fl = req(0, t)
        shapes.append(("target-%d" % len(t), wire, [rev(0, t, fl, b""), "S:200"] if d <= 0 else ["S:414", "X"]))
    tq = b"/q?" + b"&".join(b"k%d=%d" % (i, i) for i in range(400))
    wire, fl = req(0, tq)
    shapes.append(("query-400-params", wire, [rev(0, tq, fl, b""), "S:200"]))
    for ver, exp in ((b"HTTP/1.2", None), (b"HTTP/1.9", None), (b"HTTP/2.0", ["S:505", "X"]), (b"HTTP/0.9", ["S:505", "X"]), (b"HTTP/1.10", ["S:400", "X"]),
                     (b"http/1.1", ["S:400", "X"]), (b"HTTP/1.", ["S:400", "X"])):
        wire, fl = req(0, b"/v", version=ver)
        shapes.append(("version-" + ver.decode(), wire, exp if exp else [rev(0, b"/v", fl, b""), "S:200"]))
    wire, fl = req(0, b"/h", fields=[(b"Host", b"")])
    shapes.append(("host-empty", wire, ["S:400", "X"]))
    wire, fl = req(0, b"/h", fields=[(b"Host", b"a"), (b"host", b"a")])
    shapes.append(("host-twice", wire, ["S:400", "X"]))
    wire, fl = req(0, b"/h", fields=[(b"X", b"y")])
    shapes.append(("host-missing-1.1", wire, ["S:400", "X"]))
    wire, fl = req(0, b"/h", version=b"HTTP/1.0", fields=[(b"X", b"y")])
    shapes.append(("host-missing-1.0", wire, [rev(0, b"/h", fl, b""), "S:200"]))
    for ctl in (b"\x01", b"\x7f", b"\x1f", b"\x00"):
        wire, fl = req(0, b"/c" + ctl + b"d")
        shapes.append(("target-ctl-%02x" % ctl[0], wire, ["S:400", "X"]))
    wire, fl = req(0, b"/hi\x80\xff")
    shapes.append(("target-high-bytes", wire, [rev(0, b"/hi\x80\xff", fl, b""), "S:200"]))
    for mt, exp in ((b"BREW", ["S:501", "X"]), (b"get", ["S:501", "X"]), (b"G@T", ["S:400", "X"]), (b"GE\x80", ["S:400", "X"])):
        wire, fl = req(0, b"/m", method_txt=mt)
        shapes.append(("method-" + mt.decode("latin1"), wire, exp))
    # whitespace between field name and colon (RFC 9112 5.1: a server MUST answer 400; FC15d) - on the framing fields and on others
    for i, (fl_line, tail) in enumerate([(b"Content-Length : 5", b"hello"), (b"Content-Length\t: 5", b"hello"), (b"Content-Length \t : 5", b"hello"),
                                         (b"Transfer-Encoding : chunked", b"5\r\nhello\r\n0\r\n\r\n"), (b"X-Other : v", b""), (b"content-length : 0", b"")]):
        wire = b"POST /ws HTTP/1.1\r\nHost: a\r\n" + fl_line + b"\r\n\r\n" + tail
        shapes.append(("ws-before-colon-%d" % i, wire, ["S:400", "X"]))
    wire = b"GET /ws HTTP/1.1\r\nHost : a\r\n\r\n"
    shapes.append(("ws-before-colon-host", wire, ["S:400", "X"]))
    wire, fl = req(0, b"/ws2", fields=[(b"Host", b"a"), (b"X-V", b"a : b :c")])          # whitespace before a LATER colon is part of the value
    shapes.append(("ws-before-second-colon", wire, [rev(0, b"/ws2", fl, b""), "S:200"]))
    follow, fev = plain_request(0, b"/after")
    for name, wire, evs in shapes:
        stream = wire + follow
        blocks, ops = [], []
        n = len(stream)
        seglist = [[stream], [stream[:len(wire) // 2], stream[len(wire) // 2:]], [stream[:len(wire) - 1], stream[len(wire) - 1:]],
                   [stream[i:i + 1500] for i in range(0, n, 1500)]]
        ends = [len(wire), n]
        evl = [evs, [fev, "S:200"]]
        for segs in seglist:
            o = server_ops(segs)
            want = ["ok"]
            acc, k = 0, 0
            for sgm in segs:
                acc += len(sgm)
                got = []
                while k < 2 and acc >= ends[k]:
                    got += evl[k]
                    k += 1
                want.append("%s | io=- | buf=%d alive=1" % (",".join(got) if got else "-", acc - (ends[k - 1] if k else 0)))
            blocks.append((len(ops), len(o), want))
            ops += o
        cases.append({"cat": "server-reach", "name": name, "ops": ops, "blocks": blocks, "stream_len": n, "nseg": len(blocks), "full_lines": True})
    return cases


def gen_server_long(ctx, rng, quick):
    """Connections that carry more than MAX_BUFFER_SIZE in total (review M2): 20 POSTs of 100 KiB (Content-Length and chunked
    alternating) + GETs in between, delivered in the engine's 64 KiB reads, in 8 KiB reads and in 65536/1 alternation; and one
    chunked request with a single 900 000-byte chunk.  Everything must be dispatched, the connection stays open."""
    cases = []
    body = bytes((i * 131 + 17) & 0xFF for i in range(102400))
    reqs = []
    for i in range(20):
        reqs.append(plain_request(1 if i % 2 == 0 else 2, b"/up%d" % i, body[i:] + body[:i], "cl" if i % 2 == 0 else "chunked", 5))
        if i % 3 == 0:
            reqs.append(plain_request(0, b"/g%d?i=%d" % (i, i)))
    pipelines = [("20x100KiB", reqs, [65536, 8192] if quick else [65536, 8192, 1000])]
    big = bytes((i * 7 + 3) & 0xFF for i in range(900000))
    wire = b"PUT /chunk900k HTTP/1.1\r\nHost: a\r\nTransfer-Encoding: chunked\r\n\r\n" + b"%x;ext=1\r\n" % len(big) + big + b"\r\n0\r\nTrailer: t\r\n\r\n"
    one = (wire, rev(2, b"/chunk900k", [(b"Host", b"a"), (b"Transfer-Encoding", b"chunked")], big))
    pipelines.append(("chunk-900000", [one, plain_request(0, b"/after")], [65536]))
    for name, rq, steps in pipelines:
        stream = b"".join(r[0] for r in rq)
        ends, acc = [], 0
        for r in rq:
            acc += len(r[0])
            ends.append(acc)
        blocks, ops = [], []
        for step in steps:
            segs = [stream[i:i + step] for i in range(0, len(stream), step)]
            o = server_ops(segs)
            want = ["ok"]
            acc, k = 0, 0
            for sgm in segs:
                acc += len(sgm)
                evs = []
                while k < len(rq) and acc >= ends[k]:
                    evs += [rq[k][1], "S:200"]
                    k += 1
                want.append("%s | io=- | buf=%d alive=1" % (",".join(evs) if evs else "-", acc - (ends[k - 1] if k else 0)))
            blocks.append((len(ops), len(o), want))
            ops += o
        cases.append({"cat": "server-long", "name": name, "ops": ops, "blocks": blocks, "stream_len": len(stream), "nreq": len(rq), "nseg": len(blocks)})
    return cases


def gen_server_gap(ctx, rng, quick):
    """A read dropped for the buffer cap (or any other terminal close of the I/O thread) followed by MORE reads before the
    queued close lands (review H1; repaired by FC15b).  The harness no longer erases the session behind the server's back: the
    close lands only at an explicit `sv closed`.  Whatever follows the closing read - the rest of the body, complete pipelined
    requests - must produce no event at all."""
    cases = []
    smuggled = b"GET /smuggled HTTP/1.1\r\nHost: a\r\n\r\n"
    for k, (cl, first) in enumerate([(1040000, 1000000), (1048576 + 5, 1048000), (2000000, 1048576 - 60), (1040000, 983040)]):
        head = b"POST /upload HTTP/1.1\r\nHost: a\r\nContent-Length: %d\r\n\r\n" % cl
        part1 = head + b"a" * first
        burst = (b"b" * 40000 + b"GET /legit HTTP/1.1\r\nHost: a\r\n\r\n").ljust(65536, b"x")
        need = cl - first
        tail = b"c" * max(0, need) + smuggled
        segs = [part1[i:i + 65536] for i in range(0, len(part1), 65536)] if k % 2 else [part1]
        ops = server_ops(segs + [burst, tail, smuggled]) + ["sv closed", "sv data " + hexs(smuggled)]
        cases.append({"cat": "server-gap", "name": "cap-drop-then-%d" % need, "ops": ops, "nseg": 1, "stream_len": len(part1) + len(burst) + len(tail)})
    bads = [b"POST /x HTTP/1.1\r\nHost: a\r\nContent-Length: 5x\r\n\r\nhello", b"POST /x HTTP/1.1\r\nHost: a\r\nTransfer-Encoding: gzip\r\n\r\n",
            b"POST /x HTTP/1.1\r\nHost: a\r\nTransfer-Encoding: chunked\r\n\r\nzz\r\n", b"GET / HTTP/1.1\r\nX: " + b"y" * 66000 + b"\r\n\r\n",
            b"POST /x HTTP/1.1\r\nHost: a\r\nContent-Length: 5\r\nTransfer-Encoding: chunked\r\n\r\n", b"POST /x HTTP/1.1\r\nHost: a\r\nContent-Length: 10485761\r\n\r\n"]
    for i, bad in enumerate(bads):
        pre = plain_request(0, b"/before")[0] if i % 2 else b""
        ops = server_ops([pre + bad, smuggled, b"\r\n\r\n" + smuggled, smuggled * 3]) + ["sv closed", "sv data " + hexs(smuggled)]
        cases.append({"cat": "server-gap", "name": "reject-%d-then-more" % i, "ops": ops, "nseg": 1, "stream_len": len(bad)})
    return cases


def gen_server_conn(ctx, rng, n, quick):
    """The pool / worker / close-landing oracle (review items 2, 3): a pipeline of valid requests (sometimes with one
    parser-rejected request in it) delivered in random reads while the free worker is parked (`sv hold k`: exactly k more
    tryEnqueue calls succeed, the rest are answered 503 by the I/O thread), released at a random point, with the engine's close
    callback (`sv closed`) landing at a random point.  What must hold whatever the oracle says: the requests that reach the
    handler are a PREFIX of the encoded pipeline (exactly as encoded, in order), and nothing happens after the session is gone."""
    cases = []
    for i in range(n):
        nreq = rng.choice([2, 3, 5, 8])
        reqs = [gen_request(rng, small=rng.chance(1, 2), last=False) for _ in range(nreq)]
        bad_at = None
        if rng.chance(1, 4):
            bad_at = rng.below(nreq)
            reqs[bad_at] = (rng.choice([b"GET /nohost HTTP/1.1\r\n\r\n", b"BREW /pot HTTP/1.1\r\nHost: a\r\n\r\n", b"GET /v HTTP/2.0\r\nHost: a\r\n\r\n"]), None, "none")
        stream = b"".join(r[0] for r in reqs)
        cs = sorted(set(rng.below(len(stream) + 1) for _ in range(rng.range(1, 6))))
        segs = [stream[a:b] for a, b in zip([0] + cs, cs + [len(stream)])]
        ops = ["sv reset"]
        held = False
        closed_at = rng.below(len(segs) + 3) if rng.chance(1, 3) else None
        for j, sg in enumerate(segs):
            if not held and rng.chance(1, 2):
                ops.append("sv hold %d" % rng.choice([0, 1, 2, 3, 5000, 5000]))
                held = True
            if closed_at == j:
                ops.append("sv closed")
            ops.append("sv data " + hexs(sg))
            if held and rng.chance(1, 3):
                ops.append("sv release")
                held = False
        if held:
            ops.append("sv release")
        if closed_at is not None and closed_at >= len(segs):
            ops.append("sv closed")
        ops.append("sv data " + hexs(plain_request(0, b"/late")[0]))
        cases.append({"cat": "server-conn", "ops": ops, "encoded": [r[1] for r in reqs] + [plain_request(0, b"/late")[1]], "bad_at": bad_at,
                      "nseg": 1, "stream_len": len(stream)})
    # the queue capacity itself: 1030 requests in one read while the worker is parked and the queue is empty
    g, gev = plain_request(0, b"/q")
    cases.append({"cat": "server-conn", "name": "queue-capacity", "ops": ["sv reset", "sv hold 100000", "sv data " + hexs(g * 1030), "sv release", "sv data " + hexs(g)],
                  "encoded": [gev] * 1031, "bad_at": None, "nseg": 1, "stream_len": len(g) * 1030, "expect_503": True})
    return cases


def upgrade_request(rng, i):
    """a valid request that carries an Upgrade field (varied spelling / position) + its handler event (the plain HttpServer
    declines every upgrade and dispatches the request like any other)"""
    name = rng.choice([b"Upgrade", b"upgrade", b"UPGRADE", b"UpGrade"])
    fields = [(b"Host", b"a"), (b"X-A", b"1")]
    fields.insert(rng.below(3), (name, rng.choice([b"websocket", b"h2c", b"", b"a, b"])))
    if rng.chance(1, 2):
        fields.append((b"Sec-WebSocket-Key", b"dGhlIHNhbXBsZSBub25jZQ=="))
    path = b"/ws%d" % i
    body = b"" if rng.chance(2, 3) else b"hello"
    if body:
        fields.append((b"Content-Length", b"5"))
    pad = rng.choice([b": ", b":", b":\t "])
    wire = b"GET " + path + b" HTTP/1.1\r\n" + b"".join(k + pad + v + b"\r\n" for k, v in fields) + b"\r\n" + body
    return wire, rev(0, path, fields, body)


def gen_server_upgrade(ctx, rng, n, quick):
    """FC18f: what follows an Upgrade request is not framed as HTTP.  Pipelines of valid requests with ONE request that carries an
    Upgrade field, followed by more requests (or by WebSocket-looking bytes that contain CR LF CR LF) in the same read and in
    later reads; delivered whole, cut at random, with the worker free (the hold is released before the next read) or parked
    (`sv hold` ... `sv release`: every read behind the Upgrade request is only queued), with the buffer overflowing during the
    hold, and with the close callback landing during the hold.  For the all-valid streams the generator computes every answer
    line itself (request loop that stops behind the Upgrade request; held reads only grow the buffer)."""
    cases = []
    for i in range(n):
        npre, npost = rng.choice([0, 1, 2]), rng.choice([0, 1, 2, 3])
        reqs = [plain_request(rng.choice([0, 1]), b"/p%d" % k, b"xy" if rng.chance(1, 3) else b"", "cl") for k in range(npre)]
        reqs = [(w, e) for (w, e) in reqs]
        up = upgrade_request(rng, i)
        reqs.append(up)
        ui = npre
        reqs += [plain_request(0, b"/q%d" % k) for k in range(npost)]
        junk = rng.choice([b"", b"", b"\x81\x05a\r\n\r\nb", b"\x82\x7e\x01\x00" + rng.bytes(40)]) if npost == 0 else b""
        stream = b"".join(r[0] for r in reqs) + junk
        ends, acc = [], 0
        for r in reqs:
            acc += len(r[0])
            ends.append(acc)
        for variant in range(3):
            if variant == 0:
                segs = [stream]
            else:
                cs = sorted(set(rng.below(len(stream) + 1) for _ in range(rng.range(1, 5))))
                segs = [stream[a:b] for a, b in zip([0] + cs, cs + [len(stream)])]
            held = rng.chance(1, 2)
            ops, want = ["sv reset"], ["ok"]
            if held:
                ops.append("sv hold 5000")
                want.append("ok")
            # reference run
            acc, k, pos, hold, queued = 0, 0, 0, False, []
            for sg in segs + ([b""] if not junk else []):
                acc += len(sg)
                evs = []
                if not hold:
                    while k < len(reqs) and acc >= ends[k]:
                        evs += [reqs[k][1], "S:200"]
                        pos = ends[k]
                        k += 1
                        if k - 1 == ui:
                            hold = True
                            break
                ops.append("sv data " + hexs(sg))
                if held:
                    queued += evs
                    want.append("- | io=- | buf=%d alive=1" % (acc - pos))
                else:
                    hold = False                       # the worker has left processHttpRequest before the next read
                    want.append("%s | io=- | buf=%d alive=1" % (",".join(evs) if evs else "-", acc - pos))
            full = not junk
            if held:
                ops.append("sv release")
                want.append("%s | io=- | buf=%d alive=1" % (",".join(queued) if queued else "-", acc - pos))
                hold = False
                if full:
                    evs = []
                    while k < len(reqs) and acc >= ends[k]:
                        evs += [reqs[k][1], "S:200"]
                        pos = ends[k]
                        k += 1
                    ops.append("sv data -")
                    want.append("%s | io=- | buf=%d alive=1" % (",".join(evs) if evs else "-", acc - pos))
            cases.append({"cat": "server-upgrade", "ops": ops, "blocks": [(0, len(ops), want if full else None)], "full_lines": full, "independent_blocks": True,
                          "upgrade_ev": up[1], "encoded": [r[1] for r in reqs], "nseg": 1, "stream_len": len(stream)})
    # the hold is bounded: overflow during the hold, and the close callback landing during the hold
    up = upgrade_request(rng, 9999)
    g = plain_request(0, b"/after")
    ops = ["sv reset", "sv hold 5000", "sv data " + hexs(up[0] + g[0]), "sv data {78*1000000}", "sv data {79*%d}" % (1048576 - 1000000 - len(g[0])), "sv data 7a", "sv data " + hexs(g[0]),
           "sv release", "sv data " + hexs(g[0])]
    want = ["ok", "ok", "- | io=- | buf=%d alive=1" % len(g[0]), "- | io=- | buf=%d alive=1" % (len(g[0]) + 1000000), "- | io=- | buf=1048576 alive=1", "- | io=X | buf=0 alive=0",
            "- | io=- | buf=0 alive=0", "%s,S:200 | io=- | buf=0 alive=0" % up[1], "- | io=- | buf=0 alive=0"]
    cases.append({"cat": "server-upgrade", "name": "hold-overflow", "ops": [expand_op(o) for o in ops], "blocks": [(0, len(ops), want)], "full_lines": True, "independent_blocks": True,
                  "upgrade_ev": up[1], "encoded": [up[1], g[1]], "nseg": 1, "stream_len": 1048577})
    ops = ["sv reset", "sv hold 5000", "sv data " + hexs(up[0] + g[0]), "sv closed", "sv data " + hexs(g[0]), "sv release", "sv data " + hexs(g[0])]
    want = ["ok", "ok", "- | io=- | buf=%d alive=1" % len(g[0]), "ok", "- | io=- | buf=0 alive=0", "%s,S:200 | io=- | buf=0 alive=0" % up[1], "- | io=- | buf=0 alive=0"]
    cases.append({"cat": "server-upgrade", "name": "closed-during-hold", "ops": ops, "blocks": [(0, len(ops), want)], "full_lines": True, "independent_blocks": True,
                  "upgrade_ev": up[1], "encoded": [up[1], g[1]], "nseg": 1, "stream_len": 0})
    ops = ["sv reset", "sv hold 0", "sv data " + hexs(up[0] + g[0]), "sv data " + hexs(g[0]), "sv release"]
    want = ["ok", "ok", "- | io=S:503,X | buf=0 alive=0", "- | io=- | buf=0 alive=0", "- | io=- | buf=0 alive=0"]
    cases.append({"cat": "server-upgrade", "name": "upgrade-refused-503", "ops": ops, "blocks": [(0, len(ops), want)], "full_lines": True, "independent_blocks": True,
                  "upgrade_ev": up[1], "encoded": [up[1], g[1]], "nseg": 1, "stream_len": 0})
    return cases


def gen_client_reach(ctx, rng, quick):
    """Client shapes never reached: 17-120 field lines before the framing field, a header block above the 8192-byte read
    size, HTTP/1.2 (rejected: the client speaks 1.0/1.1 only), a Transfer-Encoding spread over several field lines whose last
    line carries the final coding."""
    cases = []
    shapes = []
    for n in (16, 17, 18, 40, 120):
        for kind in ("cl", "chunked"):
            body = rng.bytes(rng.choice([0, 5, 900]))
            fields = many_fields(rng, n, wide=(n == 120))
            if kind == "cl":
                fields.append((b"Content-Length", b"%d" % len(body)))
                tail = body
            else:
                fields.append((b"Transfer-Encoding", b"chunked"))
                tail = b"%x\r\n" % len(body) + body + b"\r\n0\r\n\r\n" if body else b"0\r\n\r\n"
            wire = b"HTTP/1.1 200 OK\r\n" + b"".join(k + b": " + v + b"\r\n" for k, v in fields) + b"\r\n" + tail
            exp = "200 %s %s %s %s" % (hexs(b"1.1"), hexs(b"OK"), show_headers(fields), digest(body))
            shapes.append(("fields-%d-%s" % (n, kind), wire, exp))
    for te_lines, body in (([b"gzip", b"chunked"], b"hello"), ([b"gzip, deflate", b"br ,chunked"], b"abc"), ([b"", b"chunked"], b"xy")):
        fields = [(b"Transfer-Encoding", v) for v in te_lines]
        tail = b"%x\r\n" % len(body) + body + b"\r\n0\r\n\r\n"
        wire = b"HTTP/1.1 200 OK\r\n" + b"".join(k + b": " + v + b"\r\n" for k, v in fields) + b"\r\n" + tail
        # header map: the client keeps the LAST line of a repeated non-Connection field
        exp = "200 %s %s %s %s" % (hexs(b"1.1"), hexs(b"OK"), show_headers([(b"Transfer-Encoding", te_lines[-1])]), digest(body))
        shapes.append(("te-%d-lines" % len(te_lines), wire, exp))
    xr_ops, xr_expect = [], []
    for name, wire, exp in shapes:
        stream = wire
        end = len(stream)
        cap = 1 << 20
        seglist = [[stream], [stream[:end // 2], stream[end // 2:]], [stream[:end - 1], stream[end - 1:]], [stream[i:i + 700] for i in range(0, end, 700)]]
        blocks, ops = [], []
        for segs in seglist:
            o = client_ops(b"GET", cap, segs, True)
            want = ["ok"]
            acc, done = 0, False
            for sg in segs:
                acc += len(sg)
                if done:
                    want.append("done")
                elif acc >= end:
                    want.append("response %s evict=0" % exp)
                    done = True
                else:
                    want.append(None)
            want.append("done")
            blocks.append((len(ops), len(o), want))
            ops += o
        cases.append({"cat": "client-valid", "name": "reach:" + name, "ops": ops, "blocks": blocks, "stream_len": end, "cap": cap, "nseg": len(blocks), "close_delim": False})
        xr_ops.append("xr %s %d 0 1 %s" % (hexs(b"GET"), cap, " ".join(xr_script([stream]))))
        xr_expect.append(("response", exp, False))
        # the REAL executeRequest cap throw: effectiveCap one byte below the message
        xr_ops.append("xr %s %d %d 1 %s" % (hexs(b"GET"), end - 1, rng.choice([0, end - 1, 5]), " ".join(xr_script([stream]))))
        xr_expect.append(("error cap",))
    cases.append({"cat": "client-xr", "ops": xr_ops, "expect": xr_expect, "stream_len": 0, "nseg": len(xr_ops)})
    # HTTP/1.2 and friends
    vops = []
    for v in (b"1.2", b"2.0", b"1.10", b"1", b"0.9"):
        vops += client_ops(b"GET", 1 << 20, [b"HTTP/" + v + b" 200 OK\r\nContent-Length: 0\r\n\r\n"], True)
    cases.append({"cat": "client-invalid-version", "ops": vops, "nseg": 5})
    return cases


# ------------------------------------------------------------------ property monitors (implementation output only + what the generator encoded)
def block_lines(c, lines):
    if "blocks" not in c:
        return [(0, lines, None)]
    return [(a, lines[a:a + n], want) for a, n, want in c["blocks"]]


def client_terminal(lines):
    for l in lines:
        if l.startswith("response ") or l.startswith("error ") or l == "closedEarly":
            return l
    return "none"


def strip_evict(l):
    return l.rsplit(" evict=", 1)[0] if l.startswith("response ") else l


def server_events(lines):
    evs = []
    for l in lines:
        if " | io=" in l:
            w = l.split(" | ")[0]
            if w != "-":
                evs += w.split(",")
    return evs


def server_events_io(lines):
    evs = []
    for l in lines:
        if " | io=" in l:
            w = l.split(" | io=")[1].split(" | ")[0]
            if w != "-":
                evs += w.split(",")
    return evs


def framing_view(l):
    if " | io=" not in l:
        return l
    evs = [e for e in l.split(" | ")[0].split(",") if e.startswith("R/")]
    alive = "alive=1" in l
    return (evs, l.split("buf=")[1].split()[0] if alive else None)


def monitor_case(c, impl):
    bad = []
    cat = c["cat"]
    for i, l in enumerate(impl):
        if l.startswith("throw") or l.startswith("crash:") or l == "hang" or "unknown-message" in l or l == "error emptyCL":
            what = "hang (framing call burnt 5 s of CPU or did not return within 60 s)" if (l == "hang" or l == "crash:timeout" or l == "crash:exit:97") else l
            bad.append("F3/S7: input makes the endpoint loop/throw/crash: op `%s` -> %s" % (c["ops"][i][:90], what[:80]))
            break
    if cat == "client-xr":
        # the REAL executeRequest: what it returns / throws for the scripted reads must be what the generator encoded
        for op, l, w in zip(c["ops"], impl, c["expect"]):
            if w[0] == "response":
                if not l.startswith("response " + w[1] + " closed="):
                    bad.append("F1(executeRequest): returned `%s`, encoded `response %s` for `%s`" % (l[:160], w[1][:120], op[:80]))
                elif w[2] and not l.endswith("closed=1"):
                    bad.append("F1(executeRequest): surplus bytes / close-delimited body but the connection was kept for reuse: `%s`" % op[:100])
            elif not l.startswith(w[0] + " closed=1"):
                bad.append("F3(executeRequest): receive-loop arm: got `%s`, expected `%s closed=1` for `%s`" % (l[:120], w[0], op[:100]))
    elif cat.startswith("client"):
        blocks = block_lines(c, impl)
        base = None
        for a, lines, want in blocks:
            # boundedness: whenever the loop goes on, the accumulation buffer is within the cap
            cap = int(c["ops"][a].split()[3]) if c["ops"][a].startswith("cl reset") else None
            for l in lines:
                if l.startswith("more ") and cap is not None:
                    d = int(l.rsplit("data=", 1)[1])
                    if d > cap:
                        bad.append("F3: accumulated buffer %d exceeds the cap %d while the loop continues" % (d, cap))
            if want is not None:
                for j, (l, w) in enumerate(zip(lines, want)):
                    if w is None:
                        if not l.startswith("more "):
                            bad.append("F1: op %d `%s`: message is not complete yet but the client answered `%s`" % (a + j, c["ops"][a + j][:60], l[:100]))
                            break
                    elif l != w:
                        bad.append("F1: op %d: delivered response differs from the encoded one: got `%s` want `%s`" % (a + j, l[:160], w[:160]))
                        break
            if cat in ("client-valid", "client-invalid-length", "client-mutated"):
                t = strip_evict(client_terminal(lines))
                capv = c.get("cap")
                if cat == "client-mutated" and capv is not None and c.get("stream_len", 0) > capv:
                    continue            # the cap may legitimately cut differently for different segmentations
                if base is None:
                    base = t
                elif t != base:
                    bad.append("F2: outcome depends on the segmentation: whole=`%s` block@%d=`%s`" % (base[:120], a, t[:120]))
            if cat == "client-invalid-version":
                for op, l in zip(c["ops"], lines):
                    if op.startswith("cl feed") and not l.startswith("error version"):
                        bad.append("F4: a response that is not HTTP/1.0 or HTTP/1.1 was not rejected: `%s` -> `%s`" % (op[:60], l[:80]))
                        break
            if cat == "client-invalid-length":
                t = client_terminal(lines)
                if t.startswith("response"):
                    bad.append("F4: invalid length information (%s) was framed: `%s`" % (c.get("name"), t[:100]))
                elif not t.startswith("error") and not any(l.startswith("crash") or l == "hang" for l in lines):
                    bad.append("F4: invalid length information (%s) was not rejected as malformed (outcome `%s`): the client keeps waiting/buffering" % (c.get("name"), t[:60]))
    else:
        # S8a (FC15b): once the I/O thread has closed the connection (io=...X) or the session is gone, no later read may produce
        # any event or leave a session behind - whatever the script delivers before the queued close lands
        gone = False
        for i, (op, l) in enumerate(zip(c["ops"], impl)):
            if op == "sv reset":
                gone = False
                continue
            if op == "sv closed":
                gone = True
                continue
            if " | io=" not in l:
                continue
            if gone and op.startswith("sv data") and l != "- | io=- | buf=0 alive=0":
                bad.append("S8: op %d: data delivered after the connection was closed by the I/O thread / the session was gone is still processed: `%s`" % (i, l[:200]))
                break
            io = l.split(" | io=")[1].split(" | ")[0]
            if "X" in io.split(",") or "alive=0" in l:
                gone = True
                if "alive=1" in l:
                    bad.append("S8: op %d: the I/O thread closed the connection but the session lives on (a later read is appended behind a buffer that lacks the dropped bytes): `%s`" % (i, l[:160]))
                    break
        if cat == "server-upgrade":
            # FC18f: in ONE pass nothing is dispatched behind an Upgrade request, and the handler sees a prefix of the encoded pipeline
            for i, l in enumerate(impl):
                if " | io=" in l and c["ops"][i].startswith("sv data"):
                    evs = [e for e in l.split(" | ")[0].split(",") if e.startswith("R/")]
                    if c["upgrade_ev"] in evs and evs.index(c["upgrade_ev"]) != len(evs) - 1:
                        bad.append("S10: op %d: a request was dispatched from bytes BEHIND an Upgrade request in the same read (they belong to the protocol being switched to): `%s`" % (i, l[:200]))
                        break
            evs = [e for e in server_events(impl) if e.startswith("R/")]
            if evs[:len(c["encoded"])] != c["encoded"][:len(evs)]:
                bad.append("S10: requests handed to the application are not a prefix of the encoded pipeline around an Upgrade request: got %d event(s), first difference at %d"
                           % (len(evs), next((j for j, (x, y) in enumerate(zip(evs, c["encoded"])) if x != y), min(len(evs), len(c["encoded"])))))
        if cat == "server-conn":
            # whatever the pool / the workers / the close callback do: the handler sees a PREFIX of the encoded pipeline
            evs = [e for e in server_events(impl) if e.startswith("R/")]
            enc = [e for e in c["encoded"] if e is not None]
            if evs != enc[:len(evs)]:
                k = next((j for j, (x, y) in enumerate(zip(evs, enc)) if x != y), min(len(evs), len(enc)))
                bad.append("S9: request %d handed to the application is not the one encoded at that position (pool/worker/close oracle case): got `%s` want `%s`"
                           % (k, (evs[k] if k < len(evs) else "-")[:120], (enc[k] if k < len(enc) else "nothing more")[:120]))
            if c.get("expect_503"):
                n503 = sum(1 for e in server_events_io(impl) if e == "S:503")
                if len(evs) != 1024 or n503 != 6:
                    bad.append("S9: queue-capacity case: %d requests handled, %d answered 503 (1024 / 6 expected for a queue of 1024)" % (len(evs), n503))
        if cat in ("server-valid", "server-mutated", "server-invalid-length", "server-reach", "server-long") and "blocks" in c and not c.get("independent_blocks"):
            # S2 (M4): the requests that reach the handler and the final open/closed state do not depend on the segmentation
            base = None
            for a, lines, want in block_lines(c, impl):
                view = ([e for e in server_events(lines) if e.startswith("R/")], "alive=1" in lines[-1] if lines else None,
                        lines[-1].split("buf=")[1].split()[0] if lines and "alive=1" in lines[-1] else None)
                if any(l.startswith("crash") or l == "hang" for l in lines) or not any(" | io=" in l for l in lines):
                    continue            # (a block without a single read - the empty stream dripped byte by byte - says nothing)
                if base is None:
                    base = (a, view)
                elif view != base[1]:
                    bad.append("S2: the server's outcome depends on the segmentation: block@%d dispatched %d request(s), alive=%s buf=%s; block@%d dispatched %d, alive=%s buf=%s"
                               % (base[0], len(base[1][0]), base[1][1], base[1][2], a, len(view[0]), view[1], view[2]))
                    break
        for a, lines, want in block_lines(c, impl):
            for l in lines:
                if "buf=" in l:
                    b = int(l.split("buf=")[1].split()[0])
                    if b > MAX_BUFFER:
                        bad.append("S3: session buffer %d exceeds MAX_BUFFER_SIZE" % b)
            if want is not None:
                # only what C15 is about: which requests reach the handler (method, path, fields, body), in which op, and the
                # bytes left in the buffer - not the response status or what happens to the connection afterwards (C16)
                for j, (l, w) in enumerate(zip(lines, want)):
                    if c.get("full_lines") and l != w:
                        bad.append("S1: op %d (%s): got `%s` want `%s`" % (a + j, c.get("name"), l[:200], w[:200]))
                        break
                    if framing_view(l) != framing_view(w):
                        bad.append("S1: op %d: requests handed to the application differ from those encoded: got `%s` want `%s`" % (a + j, l[:200], w[:200]))
                        break
            if cat == "server-invalid-length":
                evs = server_events(lines)
                if any(e.startswith("R/1/2f78/") for e in evs):          # POST /x … is the request with the invalid length
                    bad.append("S6: request with invalid length information (%s) was dispatched: %s" % (c.get("name"), [e for e in evs if e.startswith("R/")][0][:120]))
                closed = any("alive=0" in l for l in lines)
                if not closed and not any(l.startswith("crash") or l == "hang" for l in lines):
                    bad.append("S6: request with invalid length information (%s) was neither rejected nor the connection closed" % c.get("name"))
            if cat == "server-caps":
                evs = server_events(lines)
                nreq = len([e for e in evs if e.startswith("R/")])
                closed = any("alive=0" in l for l in lines)
                if closed != c["expect_closed"] or nreq != c["expect_requests"]:
                    bad.append("S3: limit case %s: closed=%s requests=%d, expected closed=%s requests=%d" % (c["name"], closed, nreq, c["expect_closed"], c["expect_requests"]))
    return bad


OBLIGATIONS = [
    {"id": "C15_F1", "theorem": "Iora.C15.F1_exact", "kind": "proved",
     "statement": "client exactness: interims ++ render m ++ x (Content-Length / chunked with extensions+trailers / no-body) yields exactly status, reason, version, header map and body of m; forceEvict <-> x != []"},
    {"id": "C15_F1c", "theorem": "Iora.C15.F1_exact_close", "kind": "proved",
     "statement": "client exactness, close-delimited body: the body is everything up to the peer's close, forceEvict set"},
    {"id": "C15_F1n", "theorem": "Iora.C15.F1_exact_nobody", "kind": "proved",
     "statement": "client exactness for HEAD/204/304: ANY well-formed field list (incl. Content-Length / Transfer-Encoding lines) is accepted, no body is read"},
    {"id": "C15_F1s", "theorem": "Iora.C15.F1_exact_any_segmentation", "kind": "proved",
     "statement": "client: F1 under ANY segmentation of the stream (corollary of F1 and F2)"},
    {"id": "C15_F2a", "theorem": "Iora.C15.F2_any_segmentation_eq_whole", "kind": "proved",
     "statement": "client: feeding any segmentation through the carried loop state (headerScanPos, ChunkState) = framing the whole stream (resumption: the carried state is a function of the accumulated bytes)"},
    {"id": "C15_F2", "theorem": "Iora.C15.F2_segmentation_independent", "kind": "proved",
     "statement": "client: two segmentations of one stream (then peer close) give the same response / framing error / closed-early outcome"},
    {"id": "C15_F3d", "theorem": "Iora.C15.F3_loop_ends_on_error", "kind": "proved",
     "statement": "client: Timeout / BufferOverflow / ShuttingDown / other error / PeerClosed never continue the receive loop; overflow is the non-retryable framing error; PeerClosed completes only a close-delimited body"},
    {"id": "C15_F3e", "theorem": "Iora.C15.F3_connection_dropped", "kind": "proved",
     "statement": "client: after the loop the connection is dropped for every error outcome and for every response with surplus bytes / a close-delimited body"},
    {"id": "C15_F4a", "theorem": "Iora.C15.F4_content_length_sound", "kind": "proved",
     "statement": "client: a Content-Length value is accepted only if every comma element is 1*DIGIT < 2^64 and all are equal"},
    {"id": "C15_F4a2", "theorem": "Iora.C15.F4_number_is_unbounded_value", "kind": "proved",
     "statement": "both endpoints' number parser (from_chars / all-digits + stoull) is over digit strings of ANY length: an accepted result is the unbounded positional value of the text and < 2^64; a text whose value is >= 2^64 is rejected whatever its residue modulo 2^64 (example: 18446744073709551621 = 2^64+5; leading zeros beyond 20 digits accepted exactly)"},
    {"id": "C15_F4b", "theorem": "Iora.C15.F4_framing_sound", "kind": "proved",
     "statement": "client: Content-Length framing is chosen only without Transfer-Encoding, with a valid value within the cap"},
    {"id": "C15_F4c", "theorem": "Iora.C15.F4_cl_and_te_rejected", "kind": "proved",
     "statement": "client: Content-Length together with Transfer-Encoding is a framing error"},
    {"id": "C15_F4d", "theorem": "Iora.C15.F4_chunk_size_sound", "kind": "proved",
     "statement": "client: an accepted chunk size is within the cap and below 2^64 (overflow / over-cap / junk / bare LF are malformed)"},
    {"id": "C15_F3a", "theorem": "Iora.C15.F3_buffer_bounded", "kind": "proved",
     "statement": "client: buffer <= cap whenever the loop continues, <= cap + read size always"},
    {"id": "C15_F3b", "theorem": "Iora.C15.F3_chunk_loop_progress", "kind": "proved",
     "statement": "client: every continuing iteration of the chunk loop strictly advances pos (termination measure)"},
    {"id": "C15_F3c", "theorem": "Iora.C15.F3_frame_never_grows", "kind": "proved",
     "statement": "client: frameResponse never grows the buffer (interim erasure only shrinks)"},
    {"id": "C15_S1", "theorem": "Iora.C15.S1_extract_exact", "kind": "proved",
     "statement": "server exactness (S1/S4/S5): a well-formed request (CL / body-less / chunked with extensions+trailers) is cut exactly at its end and handed over as header section + DECODED body"},
    {"id": "C15_S1p", "theorem": "Iora.C15.S1_pipeline_exact", "kind": "proved",
     "statement": "server: any segmentation of a pipeline of well-formed requests dispatches exactly those requests in order and leaves an empty buffer"},
    {"id": "C15_S1r", "theorem": "Iora.C15.S1_request_exact", "kind": "proved",
     "statement": "server: the extracted bytes parse (fromWireFormat) to exactly the method, target, header map (addOrCombineHeader fold) and decoded body of the encoded request"},
    {"id": "C15_S2a", "theorem": "Iora.C15.S2_extractor_stable", "kind": "proved",
     "statement": "server: the request extractor is extension-stable for ARBITRARY buffers (CL, body-less and chunked requests, and every close decision)"},
    {"id": "C15_S2", "theorem": "Iora.C15.S2_segmentation_independent", "kind": "proved",
     "statement": "server: any two segmentations (<= MAX_BUFFER_SIZE) dispatch the same requests in the same order and leave the same session state"},
    {"id": "C15_S2b", "theorem": "Iora.C15.S2_feed_eq_whole", "kind": "proved",
     "statement": "server: feeding a segmentation = greedy drain of the whole stream"},
    {"id": "C15_S2_generic", "theorem": "Iora.Framing.segmentation_independent", "kind": "proved",
     "statement": "greedy framing with a stable parser yields the same frames for every segmentation (shared theorem)"},
    {"id": "C15_S3b2", "theorem": "Iora.C15.S3b_header_cap_per_request", "kind": "proved",
     "statement": "server: the header-size cap applies to each request's own header block - every pipeline of requests with header <= MAX_HEADER_SIZE that fits the buffer cap is extracted completely, whatever the cumulative offset (example: 70000-byte first request, follower in the same pass)"},
    {"id": "C15_gen_loop", "theorem": "Iora.C15.gen_extract_loop", "kind": "proved",
     "statement": "Gen conformance: the statement skeleton of handleIncomingData's pipelining loop (what every offset is relative to: search from 0 of a buffer trimmed per request) is the one the model's extractOne/drainLoop were written from"},
    {"id": "C15_gen_numbers", "theorem": "Iora.C15.gen_number_parsers", "kind": "proved",
     "statement": "Gen conformance: the statement skeletons of the length conversions (server Content-Length: all-digits test + std::stoull + catch + limit; client parseFullUInt: from_chars + errc + end pointer; parseContentLength; client chunk size + cap; server chunk-size loop with the limit check right after every shift) are the ones the models' parseFullUInt / sizeDigits were written from"},
    {"id": "C15_S3a", "theorem": "Iora.C15.S3_buffer_bounded", "kind": "proved",
     "statement": "server: session buffer <= MAX_BUFFER_SIZE; an exceeding read closes the connection unbuffered"},
    {"id": "C15_S3b", "theorem": "Iora.C15.S3_limits", "kind": "proved",
     "statement": "server: a dispatched request has header section <= MAX_HEADER_SIZE and declared length <= MAX_BODY_SIZE"},
    {"id": "C15_S3c", "theorem": "Iora.C15.S3_header_too_long", "kind": "proved",
     "statement": "server: a header section longer than MAX_HEADER_SIZE closes the connection"},
    {"id": "C15_S6", "theorem": "Iora.C15.S6_lengths_valid", "kind": "proved",
     "statement": "server: dispatched => every Content-Length line is 1*DIGIT < 2^64, all equal; any Transfer-Encoding has final coding exactly `chunked` and then there is no Content-Length (after F25, FC15a)"},
    {"id": "C15_S6b", "theorem": "Iora.C15.S6b_chunk_size_sound", "kind": "proved",
     "statement": "server: an accepted chunk-size line denotes a size <= MAX_BODY_SIZE (the accumulator cannot wrap)"},
    {"id": "C15_S7", "theorem": "Iora.C15.S7_chunk_scan_progress", "kind": "proved",
     "statement": "server: the chunk scan is total; every continuing iteration strictly advances pos within the buffer (after F26)"},
    {"id": "C15_S8a", "theorem": "Iora.C15.S8_nothing_after_io_close", "kind": "proved",
     "statement": "server (FC15b): after a terminal close by the I/O thread (cap, header limit, invalid length, malformed chunks) no later read dispatches anything or changes the session"},
    {"id": "C15_S8", "theorem": "Iora.C15.S8_dispatch_is_prefix_framing", "kind": "proved",
     "statement": "server: for EVERY list of reads (any total length, incl. reads that trip the cap, hostile streams) the dispatched requests are exactly the greedy framing of the concatenation of the first j reads - a contiguous prefix of the input; nothing is framed across a dropped read"},
    {"id": "C15_S8c", "theorem": "Iora.C15.S8_dispatched_is_contiguous_slice", "kind": "proved",
     "statement": "server: for EVERY list of reads, every request handed to processHttpRequest is what the extractor yields at some offset off of the concatenated input, consuming the bytes [off, off+n) - never bytes that were not adjacent on the wire"},
    {"id": "C15_S8r", "theorem": "Iora.C15.S8_raw_view", "kind": "proved",
     "statement": "server: handleIncomingData's dispatches are `dispatch` of the extracted requestData strings (links S8c/S9 to srvFeed)"},
    {"id": "C15_S2L", "theorem": "Iora.C15.S2_long_segmentation_independent", "kind": "proved",
     "statement": "server: segmentation independence with the per-step hypothesis `fits` (every read fits the cap together with the carried remainder) instead of a bound on the connection's total"},
    {"id": "C15_S2Lw", "theorem": "Iora.C15.S2_fits_of_total", "kind": "proved",
     "statement": "server: a stream that fits the cap as a whole fits it read by read (S2L subsumes S2)"},
    {"id": "C15_S1K", "theorem": "Iora.C15.S1_keepalive_exact", "kind": "proved",
     "statement": "server: ANY pipeline of well-formed requests of at most R bytes in reads of at most L bytes, R + L <= MAX_BUFFER_SIZE, of unbounded total length, is dispatched completely and in order; the connection stays open with an empty buffer"},
    {"id": "C15_S9a", "theorem": "Iora.C15.S9_pass_extraction_independent_of_pool", "kind": "proved",
     "statement": "server: within one handleIncomingData call the extracted requests do not depend on how many tryEnqueue calls succeed (refused ones get 503, the loop goes on)"},
    {"id": "C15_S9", "theorem": "Iora.C15.S9_extraction_oracle_independent", "kind": "proved",
     "statement": "server: for EVERY interleaving of reads (arbitrary free queue slots), worker runs and the engine's close callback, the extracted requests are what the I/O thread alone extracts from the first j reads"},
    {"id": "C15_S9b", "theorem": "Iora.C15.S9_workers_fifo", "kind": "proved",
     "statement": "server: handled events ++ still-queued requests = processHttpRequest of the accepted requests in acceptance order (each once)"},
    {"id": "C15_S9c", "theorem": "Iora.C15.S9_no_refusal", "kind": "proved",
     "statement": "server: with enough free slots nothing is refused and the session is exactly the I/O thread's"},
    {"id": "C15_S8U", "theorem": "Iora.C15.S8U_extraction_is_greedy_chain", "kind": "proved",
     "statement": "server as it is since FC18f (upgrade hold): for EVERY interleaving of reads, pool answers, worker runs, close callbacks and upgrade holds, the extracted requests are a greedy chain of the concatenated input from offset 0 (each request is what the extractor yields right behind the previous one); unframed bytes are a suffix"},
    {"id": "C15_U1", "theorem": "Iora.C15.U1_hold_extracts_nothing", "kind": "proved",
     "statement": "server: while an Upgrade request of the session is being processed (_upgradePending) a read is never scanned: nothing extracted"},
    {"id": "C15_U1b", "theorem": "Iora.C15.U1_hold_appends_or_rejects", "kind": "proved",
     "statement": "server: a held read is appended in arrival order, or - above MAX_BUFFER_SIZE - dropped with the session forgotten and closed"},
    {"id": "C15_U2", "theorem": "Iora.C15.U2_pass_stops_behind_upgrade", "kind": "proved",
     "statement": "server: a pass whose front request carries an Upgrade field extracts exactly that request and leaves everything behind it unscanned"},
    {"id": "C15_U0", "theorem": "Iora.C15.U0_pass_without_upgrade_is_http_only", "kind": "proved",
     "statement": "server: a pass without hold that does not stop behind an Upgrade request is exactly ioStep, the function S1-S9 are about"},
    {"id": "C15_gen_up", "theorem": "Iora.C15.gen_upgrade_hold", "kind": "proved",
     "statement": "Gen conformance: the _upgradePending/haveUpgrade statements of handleIncomingData, the `break` behind an Upgrade request and the erasures of handleSessionClosed are the ones connDataU/connClosedU were written from"},
    {"id": "C15_gen_close", "theorem": "Iora.C15.gen_io_close", "kind": "proved",
     "statement": "Gen conformance: every close of handleIncomingData goes through rejectSession, which erases the session under _sessionMutex before closeSession (FC15b)"},
    {"id": "C15_gen_fold", "theorem": "Iora.C15.gen_case_fold", "kind": "proved",
     "statement": "Gen conformance: handleIncomingData folds case with the ASCII-only asciiLower, not ::tolower on plain char (FC15c)"},
    {"id": "C15_gen_query", "theorem": "Iora.C15.gen_query_params", "kind": "proved",
     "statement": "Gen conformance: the query conversion statements of processHttpRequest are the ones queryParams was written from"},
    {"id": "C15_gen_ws", "theorem": "Iora.C15.gen_field_name_ws", "kind": "proved",
     "statement": "Gen conformance: fromWireFormat throws 400 for SP/HTAB between a field name and the colon, before trimming (FC15d)"},
    {"id": "C15_S6c", "theorem": "Iora.C15.S6c_ws_before_colon_rejected", "kind": "proved",
     "statement": "server: a request with whitespace between any field name and its colon (`Content-Length : 5`) is answered 400, never handed to a handler"},
    {"id": "C15_S6d", "theorem": "Iora.C15.S6d_reject_status", "kind": "proved",
     "statement": "server: whatever bytes the extractor hands over, a request the parser rejects is answered with one of the statuses the source throws (Gen.Http.requestErrorStatuses = 400/414/501/505) or the generic 500"},
    {"id": "C15_gen_store", "theorem": "Iora.C15.gen_client_header_store", "kind": "proved",
     "statement": "Gen conformance: HttpClient::parseHeaderBlock assigns resp.headers[name] (last line wins) and combines only Connection"},
    {"id": "C15_F26w", "theorem": "Iora.C15.F26_original_arithmetic_wraps", "kind": "proved",
     "statement": "the unrepaired size_t arithmetic returns pos to the start of the line ffffffffffffffec"},
]


def have_model(ctx):
    """The native model driver of component `http` (one driver per component: iora_model_http)."""
    return os.path.exists(ctx.model_bin("http"))


def gen_all(ctx, quick, scale):
    rng = ctx.rng
    XR_TIMEOUTS[0] = 0
    cases = load_corpus()
    cases += gen_client_valid(ctx, rng.fork("cv"), 120 * scale, quick, n_small=100 * scale)
    cases += gen_client_invalid(ctx, rng.fork("ci"), quick)
    cases += gen_client_mutated(ctx, rng.fork("cm"), 400 * scale, quick)
    cases += gen_client_cap(ctx, rng.fork("cc"), 25 * scale, quick)
    cases += gen_client_direct(ctx, rng.fork("cd"), 150 * scale)
    cases += gen_server_valid(ctx, rng.fork("sv"), 90 * scale, quick, n_small=70 * scale)
    cases += gen_server_invalid(ctx, rng.fork("si"), quick)
    cases += gen_server_mutated(ctx, rng.fork("sm"), 300 * scale, quick)
    cases += gen_server_caps(ctx, rng.fork("sc"), quick)
    cases += gen_server_pipeline_offsets(ctx, rng.fork("sp"), quick)
    cases += gen_server_direct(ctx, rng.fork("sd"), 200 * scale)
    cases += gen_leading_zero_lengths(ctx, rng.fork("lz"), quick)
    cases += gen_server_reach(ctx, rng.fork("sr"), quick)
    cases += gen_server_long(ctx, rng.fork("sl"), quick)
    cases += gen_server_gap(ctx, rng.fork("sg"), quick)
    cases += gen_server_conn(ctx, rng.fork("so"), 120 * scale, quick)
    cases += gen_client_reach(ctx, rng.fork("cr"), quick)
    cases += gen_server_upgrade(ctx, rng.fork("su"), 60 * scale, quick)
    return cases


def run(ctx: Ctx):
    quick = ctx.tier == "quick"
    scale = 1 if quick else 10
    rng = ctx.rng
    ctx.translate(["http"])
    ok_build = ctx.lake_build(MODULES + ["iora_model"])
    if ok_build:
        ctx.audit(MODULES, OBLIGATIONS)
        if not quick:
            ctx.leanchecker(MODULES + ["IoraModel.Lemmas.HttpCommon", "IoraModel.Lemmas.HttpClient", "IoraModel.Lemmas.HttpServer", "IoraModel.Lemmas.HttpExact", "IoraModel.Lemmas.HttpServerExact", "IoraModel.Model.Http1Spec",
                                       "IoraModel.Model.HttpClientFraming", "IoraModel.Model.HttpServerFraming", "IoraModel.Model.HttpCommon",
                                       "IoraModel.Common.Framing"])
    else:
        ctx.cov["obligations"] = len(OBLIGATIONS)
    hb = ctx.build_harness("harness/c15_http.cpp", sanitize=True)
    dist = {}
    if hb and have_model(ctx):
        cases = gen_all(ctx, quick, scale)
        ctx.log("generated %d cases, %d ops" % (len(cases), sum(len(c["ops"]) for c in cases)))
        res = ctx.lockstep("http", hb, cases, timeout=1500 if quick else 5400)
        n_mismatch = 0
        framing_calls = 0
        segs_compared = 0
        xr_calls = 0
        reach = {"client_error_kinds": {}, "client_xr_outcomes": {}, "server_worker_statuses": {}, "server_io_events": {}, "server_requests_per_read": {},
                 "server_io_closes": 0, "server_ops": {}, "client_body_modes": {}, "max_field_lines": {"client": 0, "server": 0},
                 "server_connection_total_bytes_max": 0, "xr_reruns": 0}

        def bump(d, k):
            d[k] = d.get(k, 0) + 1
        for c, impl, model in res:
            dist[c["cat"]] = dist.get(c["cat"], 0) + 1
            # measured from the IMPLEMENTATION's answers: which branches the correspondence run reached
            tot = 0
            for o, l in zip(c["ops"], impl):
                if o.startswith("cl "):
                    if l.startswith("error "):
                        bump(reach["client_error_kinds"], l.split()[1])
                    elif l.startswith("more ") and " mode=" in l:
                        bump(reach["client_body_modes"], l.split(" mode=")[1].split()[0])
                    if o.startswith("cl feed") and len(o) > 200:
                        reach["max_field_lines"]["client"] = max(reach["max_field_lines"]["client"], o.count("0d0a"))
                elif o.startswith("xr "):
                    bump(reach["client_xr_outcomes"], " ".join(l.split()[:2]) if not l.startswith("response") else "response " + l.rsplit(" ", 1)[1])
                elif o.startswith("sv "):
                    bump(reach["server_ops"], o.split()[1])
                    if o == "sv reset":
                        tot = 0
                    if o.startswith("sv data"):
                        tot += (len(o) - 8) // 2
                        reach["server_connection_total_bytes_max"] = max(reach["server_connection_total_bytes_max"], tot)
                    if " | io=" in l:
                        w, io = l.split(" | io=")[0], l.split(" | io=")[1].split(" | ")[0]
                        nr = 0
                        for e in (w.split(",") if w != "-" else []):
                            if e.startswith("S:"):
                                bump(reach["server_worker_statuses"], e[2:])
                            elif e.startswith("R/"):
                                nr += 1
                                reach["max_field_lines"]["server"] = max(reach["max_field_lines"]["server"], e.split("/")[3].count(";") + 1)
                        if o.startswith("sv data"):
                            bump(reach["server_requests_per_read"], str(nr) if nr < 10 else "10+")
                        for e in (io.split(",") if io != "-" else []):
                            bump(reach["server_io_events"], e)
                        if "X" in io.split(","):
                            reach["server_io_closes"] += 1
            if c["cat"] == "client-xr":
                # real 300/1500 ms timeouts run inside an xr op: an answer that differs from the encoded one is only believed if the
                # op gives the same answer when it is re-run alone (a stalled machine is machinery, not a finding)
                sus = [i for i, (op, l, w) in enumerate(zip(c["ops"], impl, c["expect"]))
                       if monitor_case({"cat": "client-xr", "ops": [op], "expect": [w]}, [l])]
                for i in sus[:4]:
                    out, rc, err = ctx.run_lines([hb], [c["ops"][i]], timeout=300)
                    reach["xr_reruns"] += 1
                    if out and out[0] != impl[i]:
                        ctx.notes.append("xr op answered `%s` in the batch and `%s` alone: the batch answer is discarded (timing)" % (impl[i][:60], out[0][:60]))
                        impl[i] = out[0]
            framing_calls += sum(1 for o in c["ops"] if not o.endswith("reset") and " reset " not in o)
            segs_compared += c.get("nseg", 0)
            if c["cat"] == "client-xr":
                xr_calls += len(c["ops"])
                for o in c["ops"]:
                    ctx.count_case(o, nontrivial=True)
            else:
                for a, lines, _ in block_lines(c, impl):
                    ops = c["ops"][a:a + len(lines)] if "blocks" in c else c["ops"]
                    ctx.count_case("\n".join(ops), nontrivial=any(not (l.startswith("more ") or l in ("ok", "done") or l.startswith("- | io=- ")) for l in lines))
            if len(ctx.cov["samples"]) < 6 and ctx.rng.chance(1, 40):
                ctx.sample({"cat": c["cat"], "ops": [o[:200] for o in c["ops"][:4]], "impl": [l[:200] for l in impl[:4]]})
            fails = monitor_case(c, impl)
            mism = [(i, a, b) for i, (a, b) in enumerate(zip(impl, model)) if a != b]
            if fails:
                report_property(ctx, hb, c, impl, model, fails)
            elif mism:
                n_mismatch += 1
                if n_mismatch <= 3:
                    i, a, b = mism[0]
                    lo = max(j for j in range(i + 1) if c["ops"][j].endswith("reset") or " reset " in c["ops"][j]) if any(
                        (c["ops"][j].endswith("reset") or " reset " in c["ops"][j]) for j in range(i + 1)) else 0
                    ctx.violation("correspondence", "model and implementation disagree (no property monitor fails on this case): op `%s` impl=`%s` model=`%s`"
                                  % (c["ops"][i][:120], a[:160], b[:160]),
                                  {"broken": {"correspondence": "http lockstep (harness/c15_http.cpp vs Model/HttpClientFraming.lean, Model/HttpServerFraming.lean)",
                                              "detail": "first differing op index %d" % i},
                                   "ops": c["ops"][lo:i + 1], "observed": impl[lo:i + 1], "expected_by_model": model[lo:i + 1], "category": c["cat"]},
                                  found_input=False)
        ctx.extra["framing_calls"] = framing_calls
        ctx.extra["real_executeRequest_calls"] = xr_calls
        ctx.extra["segmentations_compared"] = segs_compared
        ctx.extra["branches_reached"] = reach
    ctx.extra["input_distribution"] = dist
    ctx.extra["repo_tree_sha"] = ctx.repo_tree_sha(ANCHOR_FILES)
    ctx.extra["not_proved"] = [
        "\"never throws out of the I/O thread\" has no theorem: the models are total functions whose outcomes are enumerated, but that C++ expressions outside the "
        "modelled decisions do not throw (allocation, std::string/iostream internals, handlers) is only observed - the harness catches and reports every exception "
        "that leaves handleIncomingData / executeRequest other than the modelled ones",
        "client F1: Content-Length given as an identical duplicate field or as a list (`5, 5`), and a Transfer-Encoding spread over several field lines, are covered by "
        "generator + lockstep + monitor only (RespWF admits one framing field line; the store shape `last line wins, only Connection combines` is pinned by gen_client_header_store); "
        "HEAD/204/304 with arbitrary fields is F1_exact_nobody",
        "server: error statuses of malformed requests (400/414/501/505) are modelled, lockstep-checked and (server-reach family) compared with generator-side expectations, "
        "not characterised by theorems beyond S6c (response formation is C16)",
        "server: the upgrade hold of FC18f is inside the model (connDataU: hold branch, break behind an Upgrade request, release by the worker, handleSessionClosed) and S8U/U0-U2 are about the function "
        "as it is; S1/S2/S1K/S9 are stated for the HTTP-only function (ioStep/srvFeed), which U0 proves equal for every pass that does not stop behind an Upgrade request - that a pipeline of reference "
        "requests WITHOUT an Upgrade field never stops there (hasUpgrade = false from the field names) is not yet a lemma (generator + lockstep: no generated valid request carries Upgrade outside the server-upgrade family)",
        "server paths still outside the model: an ACCEPTED upgrade (WebSocketServer: 101, drain loop to onUpgradedData, reads routed to the upgraded protocol - C18; the plain HttpServer of the harness declines every upgrade), "
        "the `_shutdown` branch of processHttpRequest / closeSession during shutdown (S8a holds there too since rejectSession erases before it asks for the close, but no op drives it)",
        "server S9 models the pool as `how many more tryEnqueue calls succeed` and one FIFO worker (the harness parks all workers but one); handlers running concurrently on several workers are C16",
        "req.params: modelled (queryParams), lockstep-checked against an independent Python reading for every generated target; no theorem beyond the examples and the Gen pin",
        "client F2 is stated for streams that fit the cap (no prefix trips the cap check); with interim 1xx responses and a total above the cap the cap check is segmentation-dependent by design (erased interims no longer count)",
        "wall-clock bound per framing call is measured by the watchdog (5 s CPU / 60 s wall), termination itself is a theorem (total functions with strictly decreasing measures)"]
    ctx.assumptions += ["client: HttpClient::executeRequest itself is executed (xr ops) over a Transport whose engine is scripted: connect, send, every receiveSync result (data in the scripted pieces, "
                        "PeerClosed, Timeout, BufferOverflow, ShuttingDown, Cancelled), effectiveCap (incl. the cap throw inside the real loop), the frameResponse arguments and the reuse/evict decision are the real code; "
                        "the per-read `cl feed` ops additionally compare the carried state through a replica of the loop body",
                        "server: requests are dispatched to a pool of which all workers but one are parked, so handlers run in dispatch order (response ordering is C16); `sv hold k` parks the last worker too and "
                        "fills the real task queue so that exactly k more tryEnqueue calls succeed (queue capacity from Gen, 1024), `sv release` lets the queued requests run",
                        "the scripted engine records close()/send calls and runs send completions synchronously, as TcpEngine::sendAsync does; it has no close callback of its own: the harness never erases the "
                        "session behind the server's back - the engine's close callback lands only where the script says `sv closed`, which calls the REAL member HttpServer::handleSessionClosed(sid) "
                        "(what start() wires to Transport::onClose)",
                        "MAX_BODY_SIZE (10 MiB) is unreachable behind MAX_BUFFER_SIZE (1 MiB): the effective per-request cap is the buffer cap; a request above it is closed, never mis-framed "
                        "(judged a configuration inconsistency, not a C15 violation: the statement bounds buffering by the configured caps and quantifies bodies up to the cap)"]
    return ctx.finish(level="proof", rule="a case = one generated byte stream fed to the real framing code under a family of segmentations (whole, every single cut or a sample of cuts, "
                      "random multi-cuts, 1-byte drip), the same stream through the real executeRequest over scripted reads (xr), or a batch of direct calls of the private helpers; evaluations = blocks (one segmentation each); "
                      "distinct = distinct op lists; non-trivial = at least one answer other than more/ok/done/no-event")


def report_property(ctx, hb, c, impl, model, fails):
    ops = c["ops"]
    what = fails[0]
    if what.startswith("F3/S7") and "hang" in what:
        # a watchdog answer is only believed if it reproduces when the case runs alone (a stalled machine is machinery, not a finding)
        out, rc, err = ctx.run_lines([hb], ops, timeout=900)
        if "hang" not in out and not any(l.startswith("throw") for l in out) and rc == 0:
            ctx.notes.append("watchdog fired once and did not reproduce (machinery): %s" % ops[0][:80])
            fails = [f for f in monitor_case(c, out) if not (f.startswith("F3/S7") and "hang" in f)]
            if not fails:
                return
            what = fails[0]
    if not ctx.violation_budget("property", what):
        ctx.violation("property", what)
        return
    # narrow to the first block whose monitor fails
    obj = {"failures": fails[:5], "category": c["cat"], "name": c.get("name")}
    shown = False
    if "blocks" in c and not what.startswith("F2"):
        for a, n, want in c["blocks"]:
            sub = dict(c)
            sub["ops"] = ops[a:a + n]
            sub["blocks"] = [(0, n, want)]
            f = monitor_case(sub, impl[a:a + n])
            if f and f[0].split(":")[0] == what.split(":")[0]:
                obj.update({"ops": ops[a:a + n], "observed": impl[a:a + n], "expected_by_model": model[a:a + n] if model else None,
                            "expected_by_generator": want})
                shown = True
                break
    if not shown:
        obj.update({"ops": ops[:400], "observed": impl[:400], "expected_by_model": model[:400] if model else None})
    ctx.violation("property", what, obj, found_input=True)


def expand_op(op):
    """`{61*1000000}` inside an op of a corpus file stands for the hex byte repeated that many times (keeps MiB-sized witnesses small)"""
    import re
    return re.sub(r"\{([0-9a-f]{2})\*(\d+)\}", lambda m: m.group(1) * int(m.group(2)), op)


def load_corpus():
    d = os.path.join(os.path.dirname(os.path.dirname(os.path.abspath(__file__))), "corpus", "C15")
    out = []
    if os.path.isdir(d):
        for fn in sorted(os.listdir(d)):
            if fn.endswith(".json"):
                c = json.load(open(os.path.join(d, fn)))
                c["ops"] = [expand_op(o) for o in c["ops"]]
                c.setdefault("cat", "corpus")
                out.append(c)
    return out
