"""C14 — The XML parser accepts only balanced documents and reports them faithfully (DESIGN §7 C14)."""
import os, json, re
from vlib.core import Ctx, hexs, unhex, ddmin, load_known_findings

ID = "C14"
MODULES = ["IoraModel.Props.C14"]
ANCHOR_FILES = ["include/iora/parsers/xml.hpp"]
OBLIGATIONS = []          # filled from OBLIGATION_TABLE below
OBLIGATION_TABLE = """
C14_X1|Iora.C14.X1_balanced|an accepted document's Start/End/Empty tokens are properly nested with byte-equal names (arbitrary bytes, all option values)
C14_X1_dom|Iora.C14.X1_dom_never_unbalanced|DomBuilder never sees an unbalanced end tag and never ends with open elements on tokens produced by the tokenizer
C14_X2_slices|Iora.C14.X2_slices_in_bounds|every name/text/attribute slice of every token lies inside the input; so do the token offset and the error offset
C14_X2_indexed|Iora.C14.X2_reads_are_indexed|under the cursor invariant peek()/_input[_cur+i] are bs[pos+i]? (none exactly when the index is >= size) and eof()/_cur+i>=size are those comparisons
C14_X2_reads|Iora.C14.X2_no_oob_read|every read is a partial function under exactly the C++ guards; no read is out of range, no loop budget exhausted, the dead re-entry of readText unreachable: arbitrary bytes, options, positions
C14_X3_progress|Iora.C14.X3_next_advances|every successful next() strictly advances the cursor
C14_X3_count|Iora.C14.X3_token_count|a run ends within length+1 successful calls: at most `length` tokens, then Eof or an error
C14_X4|Iora.C14.X4_limits|every token that was produced respects maxDepth/maxAttrsPerElement/maxNameLength/maxTextSpan/maxTotalTokens (limit checked before the token is produced)
C14_X5_only|Iora.C14.X5_decode_sound|decodeEntities output is exactly: literal bytes, the five predefined entities, UTF-8 of numeric references
C14_X5_complete|Iora.C14.X5_decode_complete|decodeEntities succeeds iff the input is well formed (literals, the five entities, numeric references that encode) and then yields exactly the decoded text
C14_X5_unknown|Iora.C14.X5_unknown_entity_rejected|a reference that is neither predefined nor numeric is an error at its offset, never expanded
C14_X5_utf8|Iora.C14.X5_encodeUtf8_scalar|encodeUtf8 = String.utf8EncodeChar on every Unicode scalar value
C14_X5_utf8_reject|Iora.C14.X5_encodeUtf8_rejects|encodeUtf8 fails exactly on surrogates and values above 0x10FFFF
C14_X5_numeric|Iora.C14.X5_numeric_value|a numeric reference denotes the hex/decimal value of its digits reduced modulo 2^32 (identity below 2^32; the wrap only shows on ill-formed input)
C14_X5_total|Iora.C14.X5_decode_terminates|decodeEntities never exhausts its loop budget
C14_X6_sax_dispatch|Iora.C14.X6_sax_dispatch|for every subset of registered callbacks: events = pull tokens filtered by "member registered", in order, each in the member of its kind; unregistered tokens skipped; result = accepted
C14_X6_sax|Iora.C14.X6_sax_is_token_list|with all nine callbacks registered the SAX callback sequence is the whole pull token list
C14_X6_dom|Iora.C14.X6_dom_flatten|the DOM, flattened in document order, is the pull token list with names copied and text/attribute values decoded
C14_X7_skeleton|Iora.C14.X7_skeleton_faithful|tokens(render d) = events d for every element/attribute skeleton and every formatting choice (quotes, white space in tags, <a/> vs <a></a>)
C14_X7_tree|Iora.C14.X7_tree_faithful|every forest of element trees within the limits, however formatted, is accepted and reported as its pre-order events
C14_X7_dom_tree|Iora.C14.X7_dom_of_tree|the DOM built for a rendered forest, walked in document order, is the forest's own events with attribute values decoded
C14_N1_qname|Iora.C14.N1_splitQName|splitQName splits at the first colon (prefix colon-free), none iff no colon, prefix:local round-trips
C14_X7_text|Iora.C14.X7_leading_space_kept|F29 repaired: a text node that starts with white space is reported with it
C14_gen|Iora.C14.gen_conformance|facts regenerated from the header are what the model uses: token kinds, defaults, entity chain, all three copies of the white-space test, DOCTYPE boundary, name classes, UTF-8 bounds, messages, read sites, eof(), the throw switch, every Options test, the runSax switch, the DomBuilder switch (fresh decoded string per value, raw CDATA/comment/PI, Text guard), decodeEntities clears its output first
C14_X2_decode_reads|Iora.C14.X2_decode_reads|decodeEntities/appendCharRef written read by read (in[i], ent[0], entBody[1], entBody[i] as partial indexed reads under the C++ guards, Gen.Xml.decodeReadSites) equal the decoder of X5: no out-of-range read, no exhausted loop
C14_X8_dtor|Iora.C14.X8_destructor_visits_once|~Node as repaired (FC14a): the work-list loop drops every node of the subtree exactly once (permutation of the pre-order listing), in size-many steps, each node childless when dropped (no recursion at any depth)
C14_X9_throwing|Iora.C14.X9_throwing_build|the two builds (IORA_XML_THROW_ON_ERROR=0/1): one next() gives the same token/state, a document the same token list and the same end (same error, same cursor), except that an over-long name is `name too long` when throwing and `invalid ... name` by default
C14_X3_public|Iora.C14.X3_public_next|the public next() with its _hasError/_emittedEof latches: length+2 or more calls return exactly the run's tokens; afterwards every call returns false and changes nothing
C14_X7_first|Iora.C14.X7_first_occurrence|findSub (readUntil / find("?>")) returns k iff the terminator is a prefix of the input from k on and from no smaller index on
C14_X7_comment|Iora.C14.next_comment_exact|after <!-- the Comment token is the slice up to the FIRST --> (cursor right after it, nothing else changes); no --> = unterminated comment
C14_X7_cdata|Iora.C14.next_cdata_exact|after <![CDATA[ the CData token is the slice up to the FIRST ]]>; none = unterminated CDATA
C14_X7_pi|Iora.C14.next_pi_exact|after <?target the PI token has name = target and text = everything up to the FIRST ?> (separator white space included); none = unterminated PI
C14_X7_doctype|Iora.C14.next_doctype_exact|after <!DOCTYPE (any letter case) + boundary byte (white space incl. CR, > or [) the Doctype token is the slice up to the first > outside [...]
C14_X7_text_exact|Iora.C14.next_text_exact|a run without < containing a non-space byte, followed by < or the end, is ONE Text token with exactly those bytes (leading/trailing white space included)
C14_X7_content|Iora.C14.X7_content_faithful|FULL X7 on construct sequences: tags, text, CDATA, comments, PIs, DOCTYPE of the supported subset, any formatting: accepted and reported byte for byte, in order, at depth; formatting white space yields no event
C14_X7_document|Iora.C14.X7_document_faithful|FULL X7 on document trees with every node kind: tokens(render d) = pre-order events of d
C14_X7_space_only|Iora.C14.X7_space_only_text_not_reported|the boundary of the supported subset as a theorem: for every white-space run w, <n>w</n> is reported exactly as <n></n> (no Text token) and accepted
C14_X7_all_text_refuted|Iora.C14.X7_all_text_refuted|the text clause WITHOUT the restriction (every non-empty run without < is a Text token) is false: witness <a> </a> (candidate finding FC14b)
C14_X7_all_text_partial|Iora.C14.X7_all_text_partial|the strongest true form: every run without < that contains a byte that is not white space is reported whole in <a>raw</a>
C14_X7_dom_built|Iora.C14.X7_dom_built|arbitrary bytes: an accepted document whose attribute values and text runs all decode IS built by DomBuilder (no other failure), and its document-order walk is the decoded token list
C14_X7_dom_document|Iora.C14.X7_dom_of_document|a rendered document tree (every node kind) whose values decode: the DOM is built and equals the tree's own events with values entity-decoded
"""
for _l in OBLIGATION_TABLE.strip().splitlines():
    if _l.startswith("#"):
        continue
    _i, _t, _s = _l.split("|")
    OBLIGATIONS.append({"id": _i, "theorem": _t, "kind": "proved", "statement": _s})

DEFAULT_OPTS = (256, 256, 1024, 1 << 20, 0)
WS = b" \t\r\n"


def opt_str(o):
    return "%d %d %d %d %d" % o


# ------------------------------------------------------------------ document trees and their rendering (independent reference)
NAME_START = "abcdefghijklmnopqrstuvwxyzABCDEFGHIJKLMNOPQRSTUVWXYZ_"
NAME_CHARS = NAME_START + "0123456789-."
PALETTE = ["a", "b", "z", "Q", "0", "7", " ", " ", "<", ">", "&", "'", '"', ";", "#", "=", "/", "]", "-", "?", "!",
           "\u00e9", "\u0080", "\u07ff", "\u0800", "\u20ac", "\ufffd", "\ud7ff", "\ue000", "\U00010000", "\U0001f600", "\U0010ffff", "\t", "\n", "\r"]
# every PALETTE character is an XML 1.0 Char (no C0 control other than TAB/LF/CR, no U+FFFE/U+FFFF): expected DOMs never depend on how a
# reference to a non-Char code point is treated (ref_decode calls those 'unspecified')
NAMED = {"<": "lt", ">": "gt", "&": "amp", "'": "apos", '"': "quot"}


def rand_name(rng, maxlen=8, prefix_ok=True):
    n = rng.choice(NAME_START) + "".join(rng.choice(NAME_CHARS) for _ in range(rng.below(maxlen)))
    if prefix_ok and rng.chance(1, 5):
        n = rng.choice(NAME_START) + "".join(rng.choice(NAME_CHARS) for _ in range(rng.below(3))) + ":" + n
    return n


def rand_string(rng, n):
    return "".join(rng.choice(PALETTE) for _ in range(n))


def enc_char(rng, ch, must_escape, literal_ok=True, upper_x=True):
    """one character as the generator chooses to write it: literal, named entity, decimal or hex reference"""
    forms = []
    if literal_ok and ch not in must_escape:
        forms += ["lit"] * 6
    if ch in NAMED:
        forms += ["named"] * 2
    forms += ["dec", "hex"]
    f = rng.choice(forms)
    if f == "lit":
        return ch.encode("utf-8")
    if f == "named":
        return b"&" + NAMED[ch].encode() + b";"
    cp = ord(ch)
    if f == "dec":
        return b"&#" + b"0" * rng.choice([0, 0, 0, 1, 3]) + str(cp).encode() + b";"
    h = "%x" % cp
    if rng.chance(1, 2):
        h = h.upper()
    return b"&#" + (rng.choice([b"x", b"x", b"X"]) if upper_x else b"x") + b"0" * rng.choice([0, 0, 1, 4]) + h.encode() + b";"


class Gen:
    """Builds a random tree and renders it, recording for every token the exact offsets the pull API must report."""

    def __init__(self, rng, expat_safe=True, size=3):
        self.rng = rng
        self.out = bytearray()
        self.toks = []          # expected pull tokens (dict)
        self.depth = 0
        self.expat_safe = expat_safe
        self.size = size
        self.metrics = {"depth": 0, "attrs": 0, "name": 0, "text": 0}
        self.feat = set()
        self.chain = 0          # nesting levels forced below the root element (family deep-tree)

    def ws(self, lo=0, allow_nl=True):
        r = self.rng
        n = r.choice([0, 0, 1, 1, 2, 3]) if lo == 0 else r.choice([1, 1, 1, 2, 3])
        alphabet = " \n\t" if allow_nl else " "
        if not self.expat_safe and r.chance(1, 4):
            alphabet += "\r"
        return "".join(r.choice(alphabet) for _ in range(n)).encode()

    def no_cr(self, s):
        """CDATA / comment / PI content: free of literal CR where expat reads the document too (expat normalises CR), else CR stays"""
        if self.expat_safe:
            return s.replace("\r", "")
        if "\r" in s:
            self.feat.add("cr-literal-markup-content")
        return s

    def name(self, maxlen=8, prefix_ok=True):
        """a name; review F6 shapes: occasionally long (up to ~40 bytes) and — where expat does not read the document — starting with
        a colon, ending in one, or holding several colons (isNameStart accepts ':'; splitQName splits at the first)"""
        r = self.rng
        if r.chance(1, 25):
            maxlen = 40
        n = rand_name(r, maxlen, prefix_ok)
        if prefix_ok and not self.expat_safe and r.chance(1, 8):
            k = r.below(4)
            if k == 0:
                n = ":" + n
            elif k == 1:
                n = n + ":" + rand_name(r, 3, False) + (":" + rand_name(r, 2, False) if r.chance(1, 2) else "")
            elif k == 2:
                n = "::" + n
            else:
                n = n + ":"
        if len(n) > 20:
            self.feat.add("name-long")
        if n.startswith(":"):
            self.feat.add("name-leading-colon")
        if n.count(":") >= 2:
            self.feat.add("name-multi-colon")
        return n

    def after_text(self):
        """the last thing rendered is a text node: white space emitted now would become part of it"""
        t = self.toks[-1] if self.toks else None
        return bool(t) and t["kind"] == "T" and t["text"][0] + t["text"][1] == len(self.out)

    def emit(self, b):
        self.out += b

    def tok(self, **kw):
        kw.setdefault("name", None)
        kw.setdefault("text", None)
        kw.setdefault("attrs", [])
        kw.setdefault("sc", 0)
        self.toks.append(kw)
        return kw

    # ---- content pieces
    def text_value(self, allow_leading_ws=True):
        r = self.rng
        if r.chance(1, 6):
            # review F1: a text whose DECODED value is white space only.  render_text writes at least one of its characters as a
            # reference (the raw text is then not white space only, so it is a Text token and the DOM keeps a Text node with the white space)
            self.feat.add("text-decoded-ws-only")
            return "".join(r.choice(" \t\n \n\r") for _ in range(r.range(1, 4)))
        n = r.choice([1, 1, 2, 3, 5, 9, 14])
        s = rand_string(r, n)
        # a text node of the supported subset has at least one non-white-space character (white space only between markup is
        # "ignorable" for this parser and not reported)
        core = r.choice("abcxyz019\u00e9\u20ac<&")
        pos = r.below(len(s) + 1)
        s = s[:pos] + core + s[pos:]
        if allow_leading_ws and r.chance(1, 3):
            s = r.choice([" ", "  ", "\n ", "\t", " \n\t "]) + s
            self.feat.add("text-leading-ws")
        if r.chance(1, 4):
            s = s + r.choice([" ", "\n", "  "])
            self.feat.add("text-trailing-ws")
        return s

    def render_text(self, s):
        r = self.rng
        raw = bytearray()
        prev2 = ""
        # decoded value white space only: one position is forced into reference form (` &#10; ` with literal blanks around it is a wanted shape)
        force = r.below(len(s)) if s and not s.strip(" \t\n\r") else -1
        for idx, ch in enumerate(s):
            must = "<&"
            if ch == ">" and prev2.endswith("]]"):
                must += ">"
            lit_ok = idx != force
            if ch == "\r" and self.expat_safe:      # expat normalises a literal CR; the non-expat-safe cases write it literally too
                lit_ok = False
            if ch == "\r" and lit_ok:
                self.feat.add("cr-literal-text")
            piece = enc_char(r, ch, must, lit_ok, not self.expat_safe)
            if piece != ch.encode("utf-8"):
                self.feat.add("text-ref")
            raw += piece
            prev2 = (prev2 + ch)[-2:]
        # leading literal white space must stay literal white space for this to be the F29 shape; nothing to do: both shapes are generated
        return bytes(raw)

    def render_attr_value(self, s, quote):
        r = self.rng
        raw = bytearray()
        for ch in s:
            must = "<&" + quote
            lit_ok = ch not in "\t\n\r" if self.expat_safe else True
            piece = enc_char(r, ch, must, lit_ok, not self.expat_safe)
            if piece != ch.encode("utf-8"):
                self.feat.add("attr-ref")
            elif ch == "\r":
                self.feat.add("cr-literal-attr")
            raw += piece
        return bytes(raw)

    # ---- nodes; each returns the DOM dump of what it rendered
    def element(self, budget, chain=0):
        """chain > 0: this element has a descendant chain of that many further nesting levels (family deep-tree)"""
        r = self.rng
        name = self.name().encode()
        start_off = len(self.out)
        self.emit(b"<")
        n_off = len(self.out)
        self.emit(name)
        self.metrics["name"] = max(self.metrics["name"], len(name))
        attrs = []
        dom_attrs = []
        seen = set()
        order = []
        na = r.choice([0, 0, 1, 1, 2, 3, 6])
        if r.chance(1, 40):
            na = r.range(7, 20)
        for _ in range(na):
            an = self.name(5).encode()
            if order and not self.expat_safe and r.chance(1, 8):
                an = r.choice(order)            # duplicate attribute name: accepted, the DOM keeps both in order (expat rejects it)
            if an in seen:
                if self.expat_safe:
                    continue
                self.feat.add("attr-duplicate-name")
            else:
                order.append(an)
            seen.add(an)
            self.emit(self.ws(lo=1))
            a_off = len(self.out)
            self.emit(an)
            self.metrics["name"] = max(self.metrics["name"], len(an))
            self.emit(self.ws())
            self.emit(b"=")
            self.emit(self.ws())
            q = r.choice(['"', "'"])
            self.feat.add("quote-" + ("dq" if q == '"' else "sq"))
            val = rand_string(r, r.choice([0, 1, 2, 4, 8]))
            raw = self.render_attr_value(val, q)
            self.emit(q.encode())
            v_off = len(self.out)
            self.emit(raw)
            self.emit(q.encode())
            attrs.append(((a_off, len(an)), (v_off, len(raw))))
            dom_attrs.append((an, val.encode("utf-8")))
            self.metrics["text"] = max(self.metrics["text"], len(raw))
        self.metrics["attrs"] = max(self.metrics["attrs"], len(attrs))
        if attrs:
            self.feat.add("attrs")
        if len(attrs) > 6:
            self.feat.add("attrs-more-than-6")
        if b":" in name:
            self.feat.add("prefix")
        w = self.ws()
        if w:
            self.feat.add("ws-in-tag")
        self.emit(w)
        self.depth += 1
        self.metrics["depth"] = max(self.metrics["depth"], self.depth)
        kids = []
        nk = 0 if budget <= 0 else r.choice([0, 1, 1, 2, 3, 4])
        if chain > 0:
            nk = max(nk, r.choice([1, 1, 2, 3]))
        if self.depth > 5:
            self.feat.add("depth-more-than-5")
        if nk == 0 and r.chance(2, 3):
            self.emit(b"/>")
            self.tok(kind="Em", name=(n_off, len(name)), attrs=attrs, sc=1, depth=self.depth, off=start_off)
            self.depth -= 1
            self.feat.add("empty-element")
            return "E:%s{%s}[]" % (hexs(name), ",".join("%s=%s" % (hexs(a), hexs(v)) for a, v in dom_attrs))
        self.emit(b">")
        self.tok(kind="S", name=(n_off, len(name)), attrs=attrs, depth=self.depth, off=start_off)
        kids = self.children(nk, budget - 1, chain=chain)
        e_off = len(self.out)
        self.emit(b"</")
        en_off = len(self.out)
        self.emit(name)
        w = self.ws()
        self.emit(w + b">")
        self.tok(kind="E", name=(en_off, len(name)), depth=self.depth, off=e_off)
        self.depth -= 1
        return "E:%s{%s}[%s]" % (hexs(name), ",".join("%s=%s" % (hexs(a), hexs(v)) for a, v in dom_attrs), ";".join(kids))

    def children(self, nk, budget, top=False, chain=0):
        r = self.rng
        kids = []
        prev_text = True       # no formatting white space right after the start tag unless followed by markup (handled below)
        kinds = []
        for _ in range(nk):
            k = r.choice(["elem", "elem", "elem", "text", "text", "cdata", "comment", "pi"])
            if top and k in ("text", "cdata") and not self.expat_safe and r.chance(1, 2):
                # review F6: text / CDATA outside the root in a VALID stream (accepted by this parser: balance is its only structural rule)
                self.feat.add("top-level-" + k)
            elif top and (k in ("text", "cdata") or (k == "elem" and (self.expat_safe or r.chance(2, 3)))):
                k = r.choice(["comment", "pi"])
            if k == "text" and (kinds and kinds[-1] == "text" or not kinds and self.after_text()):
                k = "elem" if not top else "comment"
            kinds.append(k)
        ci = r.below(len(kinds)) if chain > 0 and kinds else -1
        if ci >= 0:
            kinds[ci] = "elem"
        for i, k in enumerate(kinds):
            # formatting white space is only put between two pieces of markup (it would otherwise be part of a text node)
            if k != "text" and (i == 0 or kinds[i - 1] != "text") and r.chance(1, 2):
                w = self.ws(lo=1)
                self.emit(w)
                self.feat.add("ws-between-markup")
            if k == "elem":
                kids.append(self.element(budget, chain - 1 if i == ci else 0))
            elif k == "text":
                s = self.text_value()
                raw = self.render_text(s)
                off = len(self.out)
                self.emit(raw)
                self.tok(kind="T", text=(off, len(raw)), depth=self.depth, off=off)
                self.metrics["text"] = max(self.metrics["text"], len(raw))
                kids.append("T:" + hexs(s.encode("utf-8")))
            elif k == "cdata":
                s = self.no_cr(rand_string(r, r.choice([0, 1, 3, 8])))
                while "]]>" in s:
                    s = s.replace("]]>", "]]")
                b = s.encode("utf-8")
                off = len(self.out)
                self.emit(b"<![CDATA[")
                t_off = len(self.out)
                self.emit(b + b"]]>")
                self.tok(kind="Cd", text=(t_off, len(b)), depth=self.depth, off=off)
                kids.append("C:" + hexs(b))
                self.feat.add("cdata")
            elif k == "comment":
                s = self.no_cr(rand_string(r, r.choice([0, 1, 3, 8])))
                while "--" in s:
                    s = s.replace("--", "-")
                if s.endswith("-"):
                    s += " "
                b = s.encode("utf-8")
                off = len(self.out)
                self.emit(b"<!--")
                t_off = len(self.out)
                self.emit(b + b"-->")
                self.tok(kind="Cm", text=(t_off, len(b)), depth=self.depth, off=off)
                kids.append("M:" + hexs(b))
                self.feat.add("comment")
            else:
                target = self.name(5, prefix_ok=False).encode()
                if target.lower().startswith(b"xml"):
                    target = b"p" + target
                s = self.no_cr(rand_string(r, r.choice([0, 0, 2, 6])))
                while "?>" in s:
                    s = s.replace("?>", "?")
                data = ((self.ws(lo=1) + s.encode("utf-8")) if s.strip(" \t\n\r") else b"")
                off = len(self.out)
                self.emit(b"<?")
                n_off = len(self.out)
                self.emit(target)
                t_off = len(self.out)
                self.emit(data + b"?>")
                self.tok(kind="Pi", name=(n_off, len(target)), text=(t_off, len(data)), depth=self.depth, off=off)
                self.metrics["name"] = max(self.metrics["name"], len(target))
                kids.append("P:%s:%s" % (hexs(target), hexs(data)))
                self.feat.add("pi")
        if kinds and kinds[-1] != "text" and r.chance(1, 2):
            self.emit(self.ws(lo=1))
        return kids

    def document(self):
        r = self.rng
        dom = []
        if r.chance(1, 3):
            off = len(self.out)
            decl = b' version="1.0"' + (b' encoding="UTF-8"' if r.chance(1, 2) else b"")
            self.emit(b"<?xml" + decl + b"?>")
            self.tok(kind="Pi", name=(off + 2, 3), text=(off + 5, len(decl)), depth=0, off=off)
            dom.append("P:%s:%s" % (hexs(b"xml"), hexs(decl)))
            self.feat.add("xmldecl")
            self.metrics["name"] = max(self.metrics["name"], 3)
        dom += self.children(r.choice([0, 0, 1, 2]), 0, top=True)
        if not self.after_text():
            self.emit(self.ws())
        root_name_pos = len(self.toks)
        if r.chance(1, 4):
            off = len(self.out)
            kw = r.choice([b"DOCTYPE", b"DOCTYPE", b"doctype", b"DocType"]) if not self.expat_safe else b"DOCTYPE"
            # review F2: the byte(s) right after the keyword are drawn (the keyword's word boundary is its own white-space test in the header)
            lead = self.ws(lo=1)
            if not self.expat_safe and r.chance(1, 2):
                lead = r.choice([b"\r", b"\r\n", b"\t", b"\n", b"\r "]) + self.ws()
            if lead[:1] == b"\r":
                self.feat.add("doctype-cr-after-keyword")
            elif lead[:1] != b" ":
                self.feat.add("doctype-tab-or-nl-after-keyword")
            body = lead + r.choice([b"r", b"r SYSTEM \"r.dtd\"", b"r [<!ELEMENT r ANY>]", b"r [ <!ATTLIST r a CDATA #IMPLIED> <!ELEMENT r ANY> ]",
                                    b"r PUBLIC \"-//X//Y\" \"u\" [\n<!-- c -->\n]"])
            self.emit(b"<!" + kw)
            t_off = len(self.out)
            self.emit(body + b">")
            self.tok(kind="Dt", text=(t_off, len(body)), depth=0, off=off)
            self.emit(self.ws())
            self.feat.add("doctype")
            self.doctype = True
        dom.append(self.element(self.size, self.chain))
        dom += self.children(r.choice([0, 0, 1]), 0, top=True)
        if not self.after_text():
            self.emit(self.ws())
        return "doc[%s]" % ";".join(dom)


def linecol(doc, off):
    line = 1 + doc.count(b"\n", 0, off)
    last = doc.rfind(b"\n", 0, off)
    return line, off - last


def expected_lines(doc, toks, dom):
    """The three answer lines the harness must give for a document rendered by Gen (computed from the rendering alone)."""
    parts = []
    for t in toks:
        nm = "%d+%d" % t["name"] if t["name"] else "-"
        tx = "%d+%d" % t["text"] if t["text"] else "-"
        at = ",".join("%d+%d=%d+%d" % (a[0][0], a[0][1], a[1][0], a[1][1]) for a in t["attrs"]) or "-"
        q = "-"
        if t["name"]:
            nb = doc[t["name"][0]:t["name"][0] + t["name"][1]]
            i = nb.find(b":")
            if i >= 0:
                q = "%d/%d" % (i, len(nb) - i - 1)
        ln, col = linecol(doc, t["off"])
        parts.append("%s n=%s t=%s a=%s sc=%d d=%d @%d:%d:%d q=%s" % (t["kind"], nm, tx, at, t["sc"], t["depth"], t["off"], ln, col, q))
    body = ";".join(parts) or "-"
    ln, col = linecol(doc, len(doc))
    pull = "%s | eof d=0 @%d:%d:%d stack=0 depth=0 produced=%d" % (body, len(doc), ln, col, len(toks))
    sax = "%s | ok" % body
    return [pull, sax, dom]


# ------------------------------------------------------------------ reference entity decoder (XML 1.0 §4.1/§4.6, independent of the code)
REF = re.compile(rb"&([^;]*);")


def is_xml_char(cp):
    """XML 1.0 production [2] Char ::= #x9 | #xA | #xD | [#x20-#xD7FF] | [#xE000-#xFFFD] | [#x10000-#x10FFFF]"""
    return cp in (0x9, 0xA, 0xD) or 0x20 <= cp <= 0xD7FF or 0xE000 <= cp <= 0xFFFD or 0x10000 <= cp <= 0x10FFFF


NUMREF = re.compile(rb"&#(?:[xX]([0-9a-fA-F]{1,8})|([0-9]{1,10}));")


def has_non_char_ref(raw):
    """some numeric reference in `raw` denotes a code point that would encode (no surrogate, <= 0x10FFFF) but is not an XML Char"""
    for m in NUMREF.finditer(raw):
        cp = int(m.group(1), 16) if m.group(1) is not None else int(m.group(2))
        if cp <= 0x10FFFF and not 0xD800 <= cp <= 0xDFFF and not is_xml_char(cp):
            return True
    return False


def ref_decode(raw, strict_char=True):
    """-> (bytes | None, status): status 'ok', 'error' (must be rejected), 'unspecified' (numeric reference whose treatment the
    property leaves open: empty digit string, value that does not fit 32 bits, or — review F5 — a code point that encodes but is
    outside the XML 1.0 Char production, e.g. &#0; &#x1; &#xFFFE;: a stricter tree that rejects those is spec-correct)"""
    out = bytearray()
    i = 0
    while i < len(raw):
        if raw[i] != 0x26:
            out.append(raw[i])
            i += 1
            continue
        j = raw.find(b";", i + 1)
        if j < 0:
            return None, "error"
        ent = raw[i + 1:j]
        named = {b"lt": b"<", b"gt": b">", b"amp": b"&", b"apos": b"'", b"quot": b'"'}
        if ent in named:
            out += named[ent]
        elif ent[:1] == b"#":
            body = ent[1:]
            try:
                if body[:1] in (b"x", b"X"):
                    if not re.fullmatch(rb"[0-9a-fA-F]*", body[1:]):
                        return None, "error"
                    if len(body) == 1:
                        return None, "unspecified"
                    cp = int(body[1:], 16)
                else:
                    if not re.fullmatch(rb"[0-9]+", body):
                        return None, "error"
                    cp = int(body, 10)
            except ValueError:
                return None, "error"
            if cp >= 1 << 32:
                return None, "unspecified"
            if cp > 0x10FFFF or 0xD800 <= cp <= 0xDFFF:
                return None, "error"
            if strict_char and not is_xml_char(cp):
                return None, "unspecified"
            out += chr(cp).encode("utf-8")
        else:
            return None, "error"
        i = j + 1
    return bytes(out), "ok"


# ------------------------------------------------------------------ answer-line parsing
TOK_RE = re.compile(r"^(\w+) n=(\S+) t=(\S+) a=(\S+) sc=([01]) d=(\d+) @(\d+):(\d+):(\d+) q=(\S+)$")


def parse_slice(s):
    if s == "-":
        return None
    a, b = s.split("+")
    return int(a), int(b)


def parse_tokens(body):
    toks = []
    if body == "-":
        return toks
    for p in body.split(";"):
        m = TOK_RE.match(p)
        if not m:
            raise ValueError("unparseable token %r" % p[:80])
        attrs = []
        if m.group(4) != "-":
            for a in m.group(4).split(","):
                n, v = a.split("=")
                attrs.append((parse_slice(n), parse_slice(v)))
        toks.append({"kind": m.group(1), "name": parse_slice(m.group(2)), "text": parse_slice(m.group(3)), "attrs": attrs,
                     "sc": int(m.group(5)), "depth": int(m.group(6)), "off": int(m.group(7)), "line": int(m.group(8)), "col": int(m.group(9)), "q": m.group(10)})
    return toks


def sl(doc, s):
    return doc[s[0]:s[0] + s[1]]


def ref_dom(doc, toks):
    """DomBuilder re-done in Python on the pull tokens with the reference decoder: ('doc', dump) | ('null', kind) | ('unspecified',)"""
    root = []
    stack = [root]
    def dec(raw):
        v, st = ref_decode(raw)
        return v, st
    for t in toks:
        k = t["kind"]
        if k in ("S", "Em"):
            attrs = []
            for n, v in t["attrs"]:
                d, st = dec(sl(doc, v))
                if st != "ok":
                    return (st,)
                attrs.append("%s=%s" % (hexs(sl(doc, n)), hexs(d)))
            node = ["E:%s{%s}" % (hexs(sl(doc, t["name"])), ",".join(attrs)), []]
            stack[-1].append(node)
            if k == "S":
                stack.append(node[1])
        elif k == "E":
            if len(stack) <= 1:
                return ("unbalanced",)
            stack.pop()
        elif k == "T":
            d, st = dec(sl(doc, t["text"]))
            if st != "ok":
                return (st,)
            if d:
                stack[-1].append("T:" + hexs(d))
        elif k == "Cd":
            stack[-1].append("C:" + hexs(sl(doc, t["text"])))
        elif k == "Cm":
            stack[-1].append("M:" + hexs(sl(doc, t["text"])))
        elif k == "Pi":
            stack[-1].append("P:%s:%s" % (hexs(sl(doc, t["name"])), hexs(sl(doc, t["text"]))))
    def dump(n):
        if isinstance(n, str):
            return n
        return n[0] + "[" + ";".join(dump(c) for c in n[1]) + "]"
    return ("doc", "doc[" + ";".join(dump(c) for c in root) + "]", len(stack))


# ------------------------------------------------------------------ property monitors (implementation output only)
def monitor_generic(doc, opts, pull, sax, dom):
    """Checks that need no knowledge of how the document was made.  Returns a list of failures."""
    bad = []
    n = len(doc)
    for nm, l in (("pull", pull), ("sax", sax), ("dom", dom)):
        if l is None:
            continue
        if l.startswith("throw") or l.startswith("crash:"):
            bad.append("X2/UB: %s on this input: %s" % (nm, l[:80]))
        if "OUT(" in l:
            bad.append("X2: %s reports a slice outside the input: %s" % (nm, l[l.find("OUT("):][:40]))
        if "nonterminating" in l or "next-after-end" in l or "stopped-without-eof" in l or "WRONG-CALLBACK" in l or "unknownMessage" in l:
            bad.append("X3/X6: %s: %s" % (nm, l[-80:]))
    if bad or pull is None:
        return bad
    try:
        body, fin = pull.rsplit(" | ", 1)
        toks = parse_tokens(body)
    except ValueError as e:
        return ["harness output not understood: %s" % e]
    accepted = fin.startswith("eof ")
    # X2: slices and offsets inside the input
    for t in toks:
        for s in [t["name"], t["text"]] + [x for a in t["attrs"] for x in a]:
            if s is not None and s[0] + s[1] > n:
                bad.append("X2: slice %d+%d outside the %d-byte input" % (s[0], s[1], n))
        if t["off"] > n:
            bad.append("X2: token offset %d outside the input" % t["off"])
    m = re.search(r"@(\d+):", fin)
    if m and int(m.group(1)) > n:
        bad.append("X2: final offset %s outside the %d-byte input" % (m.group(1), n))
    # splitQName: prefix / local name split at the FIRST colon
    for t in toks:
        if t["name"] is not None and t["name"][0] + t["name"][1] <= n:
            nb = sl(doc, t["name"])
            i = nb.find(b":")
            want = "-" if i < 0 else "%d/%d" % (i, len(nb) - i - 1)
            if t["q"] != want:
                bad.append("N1: splitQName(%r) = %s, the first colon gives %s" % (nb, t["q"], want))
    # X3: token count
    if len(toks) > n:
        bad.append("X3: %d tokens from %d bytes" % (len(toks), n))
    offs = [t["off"] for t in toks]
    if any(b <= a for a, b in zip(offs, offs[1:])):
        bad.append("X3: token offsets do not strictly increase")
    # X4: limits on everything that was produced
    md, ma, mn, mt, mk = opts
    for t in toks:
        if t["kind"] in ("S", "Em", "E") and t["depth"] > md:
            bad.append("X4: element at depth %d with maxDepth %d" % (t["depth"], md))
        if len(t["attrs"]) > ma:
            bad.append("X4: %d attributes with maxAttrsPerElement %d" % (len(t["attrs"]), ma))
        for s in ([t["name"]] if t["name"] else []) + [a[0] for a in t["attrs"]]:
            if s[1] > mn:
                bad.append("X4: name of %d bytes with maxNameLength %d" % (s[1], mn))
        if t["kind"] == "T" and t["text"][1] > mt:
            bad.append("X4: text span of %d bytes with maxTextSpan %d" % (t["text"][1], mt))
        for a in t["attrs"]:
            if a[1][1] > mt:
                bad.append("X4: attribute value of %d bytes with maxTextSpan %d" % (a[1][1], mt))
    if mk != 0 and len(toks) > mk:
        bad.append("X4: %d tokens with maxTotalTokens %d" % (len(toks), mk))
    # X1: balance
    st = []
    ok_nest = True
    for t in toks:
        if t["kind"] == "S":
            st.append(sl(doc, t["name"]))
            if t["depth"] != len(st):
                bad.append("X1: start tag depth %d but %d elements are open" % (t["depth"], len(st)))
        elif t["kind"] == "E":
            if not st or st[-1] != sl(doc, t["name"]):
                ok_nest = False
                bad.append("X1: end tag %r does not close the innermost open element %r" % (sl(doc, t["name"]), st[-1] if st else None))
                break
            if t["depth"] != len(st):
                bad.append("X1: end tag depth %d but %d elements are open" % (t["depth"], len(st)))
            st.pop()
        elif t["kind"] == "Em":
            if t["depth"] != len(st) + 1:
                bad.append("X1: empty element depth %d but %d elements are open" % (t["depth"], len(st)))
        elif t["depth"] != len(st):
            bad.append("X1: %s token depth %d but %d elements are open" % (t["kind"], t["depth"], len(st)))
    if accepted and ok_nest and st:
        bad.append("X1: accepted with %d unclosed element(s)" % len(st))
    # X6: SAX = pull
    if sax is not None:
        sbody, sfin = sax.rsplit(" | ", 1)
        if sbody != body:
            bad.append("X6: SAX events differ from the pull tokens")
        if (sfin == "ok") != accepted:
            bad.append("X6: runSax result %r but pull %s" % (sfin, fin[:30]))
        if not accepted and sfin != "fail " + fin.split(" stack=")[0]:
            bad.append("X6: SAX error differs from pull error: %r vs %r" % (sfin, fin[:60]))
    # X6 / X5: DOM = fold of the pull tokens with correctly decoded text; undefined entities never expanded
    if dom is not None:
        rd = ref_dom(doc, toks)
        if rd[0] == "unbalanced":
            bad.append("X1: the token list handed to DomBuilder has an unbalanced end tag")
        elif rd[0] == "unspecified":
            pass
        elif rd[0] == "error":
            if not dom.startswith("null "):
                bad.append("X5: a reference that must be rejected was accepted: DOM = %s" % dom[:120])
            elif dom.split()[1] not in ("unterminatedEntity", "badCharRef", "unknownEntity"):
                bad.append("X5: wrong failure for an undecodable reference: %s" % dom[:80])
        else:
            if accepted:
                if dom != rd[1]:
                    bad.append("X6: DOM differs from the tree the pull tokens describe: dom=%s expected=%s" % (dom[:160], rd[1][:160]))
            else:
                want = "null " + fin[4:].split(" stack=")[0]
                if dom != want:
                    bad.append("X6: DOM result %r but the tokenizer failed with %r" % (dom[:80], fin[:60]))
    return bad


def monitor_scalar(op, got, stats=None):
    """`dec <hex>` against the reference decoder, `utf8 <cp>` against Python's UTF-8 codec."""
    t = op.split()
    if got.startswith("throw") or got.startswith("crash:"):
        return "X2/UB: %s: %s" % (t[0], got)
    if t[0] == "dec":
        raw = unhex(t[1])
        want, st = ref_decode(raw)
        if st == "ok" and got != "ok " + hexs(want):
            return "X5: decodeEntities(%r) = %s, reference says ok %s" % (raw, got, hexs(want))
        if st == "error" and not got.startswith("err "):
            return "X5: decodeEntities(%r) = %s, reference says it must be rejected" % (raw, got)
        if st == "unspecified" and stats is not None:
            stats["unspecified_numeric_refs"] += 1
            # strings whose ONLY questionable part is a reference to a non-Char code point: does the implementation take them?
            if has_non_char_ref(raw) and ref_decode(raw, strict_char=False)[1] == "ok":
                k = "non_char_refs_accepted" if got.startswith("ok ") else "non_char_refs_rejected"
                stats[k] = stats.get(k, 0) + 1
    elif t[0] == "utf8":
        cp = int(t[1])
        want = "fail" if (cp > 0x10FFFF or 0xD800 <= cp <= 0xDFFF) else "ok " + hexs(chr(cp).encode("utf-8"))
        if got != want:
            return "X5: encodeUtf8(%#x) = %s, UTF-8 says %s" % (cp, got, want)
    return None


def monitor_tree(c, impl):
    """Faithfulness (X7): the answers equal what the generator rendered, slice for slice."""
    bad = []
    for nm, got, want in zip(("pull", "sax", "dom"), impl, c["expect"]):
        if got != want:
            bad.append("X7: %s differs from the document the generator rendered: got %s want %s" % (nm, first_diff(got, want), first_diff(want, got)))
    return bad


def first_diff(a, b):
    i = 0
    while i < min(len(a), len(b)) and a[i] == b[i]:
        i += 1
    lo = max(0, a.rfind(";", 0, i) + 1) if ";" in a[:i] else max(0, i - 40)
    return "…" + a[lo:i + 70]


# ------------------------------------------------------------------ expat cross-check (supporting)
try:
    import xml.parsers.expat as _expat
except ImportError:          # no pyexpat in this Python: the cross-check is skipped and that is recorded in the evidence
    _expat = None


def expat_dump(doc):
    """DOM dump in the harness format as expat sees the document (None if expat rejects it)."""
    ex = _expat
    p = ex.ParserCreate()
    p.buffer_text = False
    p.ordered_attributes = True
    root = []
    stack = [root]
    pend = []          # pending character data pieces: (kind, text)
    state = {"cdata": False, "in_doctype": False}
    def flush():
        if not pend:
            return
        # runs are split at CDATA boundaries; a non-CDATA run that is white space only is ignorable for iora
        cur_kind = None
        buf = []
        runs = []
        for k, t in pend:
            if k != cur_kind and buf:
                runs.append((cur_kind, "".join(buf)))
                buf = []
            cur_kind = k
            buf.append(t)
        if buf:
            runs.append((cur_kind, "".join(buf)))
        for k, t in runs:
            b = t.encode("utf-8")
            if k == "C":
                stack[-1].append("C:" + hexs(b))
            elif b.strip(WS):
                stack[-1].append("T:" + hexs(b))
        del pend[:]
    def start(name, attrs):
        flush()
        a = ",".join("%s=%s" % (hexs(attrs[i].encode()), hexs(attrs[i + 1].encode("utf-8"))) for i in range(0, len(attrs), 2))
        node = ["E:%s{%s}" % (hexs(name.encode()), a), []]
        stack[-1].append(node)
        stack.append(node[1])
    def end(name):
        flush()
        stack.pop()
    def chars(t):
        pend.append(("C" if state["cdata"] else "T", t))
    def scd():
        flush()
        state["cdata"] = True
        pend.append(("C", ""))
    def ecd():
        flush_c()
    def flush_c():
        flush()
        state["cdata"] = False
    def comment(t):
        if state["in_doctype"]:
            return
        flush()
        stack[-1].append("M:" + hexs(t.encode("utf-8")))
    def pi(target, data):
        if state["in_doctype"]:
            return
        flush()
        stack[-1].append(("PI", target.encode(), data.encode("utf-8")))
    def sdt(*a):
        state["in_doctype"] = True
    def edt():
        state["in_doctype"] = False
    p.StartElementHandler = start
    p.EndElementHandler = end
    p.CharacterDataHandler = chars
    p.StartCdataSectionHandler = scd
    p.EndCdataSectionHandler = ecd
    p.CommentHandler = comment
    p.ProcessingInstructionHandler = pi
    p.StartDoctypeDeclHandler = sdt
    p.EndDoctypeDeclHandler = edt
    try:
        p.Parse(doc, True)
    except ex.ExpatError:
        return None
    return root


def expat_compare(doc, dom_line):
    """Compare iora's DOM with expat's view; PI data is compared modulo the separator white space iora keeps; the XML declaration
    (reported by iora as a PI named xml) is skipped."""
    root = expat_dump(doc)
    if root is None:
        return None
    def norm_iora(s):
        return s
    def dump(n):
        if isinstance(n, str):
            return n
        if isinstance(n, tuple):
            return "P:%s:%s" % (hexs(n[1]), hexs(n[2]))
        return n[0] + "[" + ";".join(dump(c) for c in n[1]) + "]"
    want = "doc[" + ";".join(dump(c) for c in root) + "]"
    # normalise iora's PI text: drop the XML declaration and the leading white space of PI data
    def fix_pi(m):
        name = unhex(m.group(1))
        data = unhex(m.group(2)).lstrip(WS)
        if name == b"xml":
            return "\0"
        return "P:%s:%s" % (hexs(name), hexs(data))
    got = re.sub(r"P:([0-9a-f]+):([0-9a-f]+|-)", fix_pi, dom_line)
    # a text whose decoded value is white space only (`&#32;`): expat_dump cannot tell it from formatting white space and drops it; same here
    got = re.sub(r"(?<![0-9a-f=:])T:((?:20|09|0a|0d)+)(?![0-9a-f])", "\0", got)
    got = got.replace("\0;", "").replace(";\0", "").replace("\0", "")
    return got == want, got, want


# ------------------------------------------------------------------ case generation
def case_for(doc, opts, cat, **kw):
    o = opt_str(opts)
    h = hexs(doc)
    c = {"cat": cat, "ops": ["pull %s %s" % (o, h), "sax %s %s" % (o, h), "dom %s %s" % (o, h)], "doc": doc, "opts": opts}
    extra = kw.pop("extra_ops", ())
    for e in extra:
        if e[0] == "saxm":
            c["ops"].append("saxm %d %s %s" % (e[1], o, h))
            c["mask"] = e[1]
        else:
            c["ops"].append("%s %s %s" % (e[0], o, h))
    c.update(kw)
    return c


SAX_BITS = {"Xd": 0, "Dt": 1, "S": 2, "E": 3, "Em": 4, "T": 5, "Cd": 6, "Cm": 7, "Pi": 8}


def rand_mask(rng):
    return rng.choice([0, 511, 4, 8, 32, 4 | 8 | 16, 32 | 64, 128 | 256 | 2, rng.below(512), rng.below(512)])


def monitor_extra(c, lines):
    """saxm / dom0 / domh against what pull and dom said (implementation output only)."""
    bad = []
    pull, sax, dom = lines.get("pull"), lines.get("sax"), lines.get("dom")
    sm = lines.get("saxm")
    if sm is not None and (sm.startswith("throw") or sm.startswith("crash:") or "WRONG-CALLBACK" in sm):
        bad.append("X6: runSax with callbacks %03x registered: %s" % (c["mask"], sm[:80]))
    elif sm is not None and pull is not None and " | " in pull and " | " in sm:
        if True:
            body = pull.rsplit(" | ", 1)[0]
            toks = [] if body == "-" else body.split(";")
            want = [t for t in toks if (c["mask"] >> SAX_BITS.get(t.split(" ", 1)[0], 99)) & 1]
            sbody, sfin = sm.rsplit(" | ", 1)
            if sbody != (";".join(want) or "-"):
                bad.append("X6: runSax with callbacks %03x delivered %d events, the pull tokens filtered by the registered members are %d: got %s"
                           % (c["mask"], 0 if sbody == "-" else sbody.count(";") + 1, len(want), first_diff(sbody, ";".join(want) or "-")))
            if sax is not None and sfin != sax.rsplit(" | ", 1)[1]:
                bad.append("X6: runSax result with a subset of callbacks (%s) differs from the result with all (%s)" % (sfin[:50], sax.rsplit(" | ", 1)[1][:50]))
    d0 = lines.get("dom0")
    if d0 is not None and dom is not None:
        want = dom if dom.startswith("doc[") else "null"
        if d0.startswith("throw") or d0.startswith("crash:"):
            bad.append("X2/UB: DomBuilder::build(parser, nullptr): %s" % d0[:80])
        elif d0 != want:
            bad.append("X6: DomBuilder::build(parser, nullptr) = %s but with an error sink %s" % (d0[:80], dom[:80]))
    dh = lines.get("domh")
    if dh is not None and dom is not None:
        if dh.startswith("throw") or dh.startswith("crash:"):
            bad.append("X2/UB: Node helpers: %s" % dh[:80])
        elif not dom.startswith("doc["):
            if dh != "null":
                bad.append("X6: Node helpers answered %s for a document that was not built" % dh[:60])
        else:
            try:
                want = helpers_of_dump(dom)
            except (ValueError, IndexError, RecursionError) as e:
                want = None
            if want is not None and dh != want:
                bad.append("X6: Node::getTextContent/getAttribute/childByName disagree with the tree: got %s want %s" % (first_diff(dh, want), first_diff(want, dh)))
    return bad


def parse_dump(s):
    """`doc[...]` -> ("-", [], children); element = (namehex, [(nhex, vhex)], children); other nodes = strings"""
    pos = [4]
    def nodes():
        out = []
        while s[pos[0]] != "]":
            if s[pos[0]] == ";":
                pos[0] += 1
            if s.startswith("E:", pos[0]):
                j = s.index("{", pos[0])
                name = s[pos[0] + 2:j]
                k = s.index("}", j)
                attrs = [tuple(a.split("=")) for a in s[j + 1:k].split(",")] if k > j + 1 else []
                pos[0] = k + 2
                ch = nodes()
                pos[0] += 1
                out.append((name, attrs, ch))
            else:
                j = pos[0]
                while s[j] not in ";]":
                    j += 1
                out.append(s[pos[0]:j])
                pos[0] = j
        return out
    if not s.startswith("doc["):
        raise ValueError("not a document dump")
    ch = nodes()
    return ("-", [], ch)


def helpers_of_dump(dom):
    """the `domh` line the helper methods must give for this DOM (computed from the dump alone)"""
    root = parse_dump(dom)
    out = []
    def hexcat(parts):
        r = "".join(p for p in parts if p != "-")
        return r or "-"
    def walk(n):
        name, attrs, ch = n
        text = hexcat([c[2:] for c in ch if isinstance(c, str) and c[:2] in ("T:", "C:")])
        a = ",".join(next(v for (n2, v) in attrs if n2 == n1) for (n1, _) in attrs)
        elems = [(i, c) for i, c in enumerate(ch) if not isinstance(c, str)]
        cidx = ",".join(str(next(i for i, c2 in elems if c2[0] == c[0])) for _, c in elems)
        out.append("%s t=%s a=%s c=%s m=~~" % (name, text, a, cidx))
        for _, c in elems:
            walk(c)
    walk(root)
    return ";".join(out)


def fitting_opts(rng, metrics, ntoks, feats=None):
    """review F6: NON-DEFAULT options under which the rendered document still fits, each limit 0..3 above what the document needs
    (k = 0: the limit is met exactly); maxTotalTokens is 0 (unbounded) or above the token count (the budget test precedes the Eof call)"""
    k = lambda: rng.choice([0, 0, 1, 2, 3, 50])
    o = (max(metrics["depth"], 0) + k(), metrics["attrs"] + k(), metrics["name"] + k(), metrics["text"] + k(), 0 if rng.chance(1, 2) else ntoks + 1 + k())
    if feats is not None:
        feats["options-non-default-fitting"] = feats.get("options-non-default-fitting", 0) + 1
    return o


def gen_tree_cases(rng, count, feats):
    cases = []
    for i in range(count):
        g = Gen(rng, expat_safe=(i % 4 != 3), size=rng.choice([1, 2, 2, 3, 4]))
        dom = g.document()
        doc = bytes(g.out)
        if len(doc) > 2048:
            continue
        exp = expected_lines(doc, g.toks, dom)
        for f in g.feat:
            feats[f] = feats.get(f, 0) + 1
        opts = fitting_opts(rng, g.metrics, len(g.toks), feats) if i % 3 == 1 else DEFAULT_OPTS
        cases.append(case_for(doc, opts, "tree", expect=exp, expat=(i % 4 != 3), metrics=dict(g.metrics, tokens=len(g.toks)),
                              extra_ops=[("saxm", rand_mask(rng)), ("domh",), ("dom0",)] if i % 2 == 0 else [("saxm", rand_mask(rng))]))
    return cases


def gen_deep_tree_cases(rng, count, feats):
    """review F6: nesting 6..40 (a chain with a few siblings at every level) through the whole lockstep with expected lines"""
    cases = []
    for i in range(count):
        g = Gen(rng, expat_safe=(i % 2 == 0), size=rng.choice([0, 1, 2]))
        g.chain = rng.choice([5, 6, 7, 9, 12, 17, 25, 33, 39])
        dom = g.document()
        doc = bytes(g.out)
        if len(doc) > 6000:
            continue
        exp = expected_lines(doc, g.toks, dom)
        for f in g.feat:
            feats[f] = feats.get(f, 0) + 1
        feats["deep-tree-max-depth"] = max(feats.get("deep-tree-max-depth", 0), g.metrics["depth"])
        opts = fitting_opts(rng, g.metrics, len(g.toks), feats) if i % 3 == 1 else DEFAULT_OPTS
        cases.append(case_for(doc, opts, "deep-tree", expect=exp, expat=(i % 2 == 0), metrics=dict(g.metrics, tokens=len(g.toks)),
                              extra_ops=[("saxm", rand_mask(rng)), ("domh",), ("dom0",)] if i % 2 == 0 else [("saxm", rand_mask(rng))]))
    return cases


SWEEP_DOC = b'<?xml version="1.0"?><!DOCTYPE r><r a="1"><e/>t<![CDATA[c]]><!--m--><?p d?></r>'


def gen_sax_mask_sweep():
    """review F6: every one of the 512 subsets of the nine SaxCallbacks members, on a document that has every token kind that can occur
    (Dt S E Em T Cd Cm Pi; `<?xml` is reported as Pi, XmlDecl never occurs)"""
    return [case_for(SWEEP_DOC, DEFAULT_OPTS, "sax-mask-sweep", extra_ops=[("saxm", m)]) for m in range(512)]


def gen_large_tree_cases(rng, count, feats):
    """A few generated documents of 20..150 KB through the whole lockstep (the tokenizer model is linear; only its slice extraction is
    quadratic in the number of tokens, which is what bounds the size here)."""
    cases = []
    for _ in range(count):
        target = rng.choice([20000, 40000, 80000, 120000])
        g = Gen(rng, expat_safe=True, size=3)
        g.emit(b"<root>")
        g.depth = 1
        g.metrics["depth"] = 1
        g.metrics["name"] = 4
        g.tok(kind="S", name=(1, 4), depth=1, off=0)
        kids = []
        while len(g.out) < target:
            if rng.chance(1, 2):
                g.emit(g.ws(lo=1))
            kids.append(g.element(rng.choice([1, 2, 3])))
        off = len(g.out)
        g.emit(b"</root>")
        g.tok(kind="E", name=(off + 2, 4), depth=1, off=off)
        doc = bytes(g.out)
        dom = "doc[E:%s{}[%s]]" % (hexs(b"root"), ";".join(kids))
        exp = expected_lines(doc, g.toks, dom)
        for f in g.feat:
            feats[f] = feats.get(f, 0) + 1
        cases.append(case_for(doc, DEFAULT_OPTS, "large-tree", expect=exp, expat=True, metrics=dict(g.metrics, tokens=len(g.toks)),
                              extra_ops=[("saxm", rand_mask(rng)), ("domh",), ("dom0",)]))
    return cases


def gen_limit_cases(rng, count):
    """Boundary stream: every limit set just below, at and just above what a generated document needs."""
    cases = []
    for i in range(count):
        g = Gen(rng, size=rng.choice([1, 2, 3]))
        dom = g.document()
        doc = bytes(g.out)
        if len(doc) > 1024:
            continue
        m = dict(g.metrics, tokens=len(g.toks))
        exp = expected_lines(doc, g.toks, dom)
        base = [max(m["depth"], 1) + 3, m["attrs"] + 3, m["name"] + 3, m["text"] + 3, 0]
        for li, key in enumerate(["depth", "attrs", "name", "text", "tokens"]):
            need = m[key]
            for delta in (-1, 0, 1):
                v = need + delta
                if v < 0:
                    continue
                o = list(base)
                o[li] = v
                # tokens: `produced >= max` is tested at the start of every call, also the one that would emit Eof
                if key == "tokens":
                    fits = v == 0 or v > need
                else:
                    fits = v >= need
                cases.append(case_for(doc, tuple(o), "limit", limit=key, need=need, value=v, fits=fits, expect=exp if fits else None))
        if i % 3 == 0:
            o = tuple(rng.choice([0, 1, 2, 3, m[k], m[k] + 1, 1 << 20, 2 ** 64 - 1]) for k in ["depth", "attrs", "name", "text", "tokens"])
            cases.append(case_for(doc, o, "limit-random"))
    return cases


MUT_BYTES = b"<>/=\"'&;!?-[] \n\t\ra:#x0]\x00\x80\xff"


def gen_mutation_cases(rng, ndocs, per_doc_cap, all_bytes_for=0):
    """All truncations and single-byte substitutions/deletions/insertions (from a set of structurally interesting bytes) of small documents."""
    seeds = [b"<a/>", b"<a>x</a>", b"<a b=\"1\">t</a>", b"<a><b/></a>", b"<!--c--><a/>", b"<?p d?><a/>", b"<a><![CDATA[x]]></a>",
             b"<!DOCTYPE a [<!ENTITY e \"v\">]><a>&e;</a>", b"<a>&lt;&#65;&#x42;</a>", b"<a b='&amp;' c=\"d\"/>", b"<x:a x:b=\"1\"></x:a>",
             b"<a> <b> x </b> </a>", b"<a>\n  t\n</a>", b"<a><b></b><c></c></a>", b"<?xml version=\"1.0\"?>\n<r/>",
             # review F1 (decoded value white space only) and F2 (CR / CRLF formatted documents, white space right after the DOCTYPE keyword)
             b"<a>&#32;</a>", b"<a> &#10; </a>", b"<!DOCTYPE\r\nr><r/>", b"<!DOCTYPE\tr [<!ELEMENT r ANY>]>\r\n<r/>", b"<a\r\nb='1'\r\n/>", b"<a>\r\n<b/>\r\n</a>"]
    docs = list(seeds)
    while len(docs) < ndocs:
        g = Gen(rng, expat_safe=False, size=1)
        g.document()
        d = bytes(g.out)
        if 4 <= len(d) <= 48:
            docs.append(d)
    cases = []
    for di, d in enumerate(docs[:ndocs]):
        muts = []
        for k in range(len(d) + 1):
            muts.append(d[:k])
        for k in range(len(d)):
            muts.append(d[:k] + d[k + 1:])
            for b in (range(256) if di < all_bytes_for else MUT_BYTES):
                if d[k] != b:
                    muts.append(d[:k] + bytes([b]) + d[k + 1:])
        for k in range(len(d) + 1):
            for b in b"<>/\"&; ":
                muts.append(d[:k] + bytes([b]) + d[k:])
        if len(muts) > per_doc_cap and di >= all_bytes_for:
            rng.shuffle(muts)
            muts = muts[:per_doc_cap]
        for m in muts:
            o = DEFAULT_OPTS if rng.chance(3, 4) else tuple(rng.choice([0, 1, 2, 3, 256]) for _ in range(5))
            h = hexs(m)
            ops = ["pull %s %s" % (opt_str(o), h), "dom %s %s" % (opt_str(o), h)]
            if len(cases) % 3 == 0:
                ops.append("dom0 %s %s" % (opt_str(o), h))
            cases.append({"cat": "mutation", "ops": ops, "doc": m, "opts": o, "nosax": True})
    return cases


def gen_default_boundary_cases(rng):
    """Documents sitting exactly below / at / above each *default* limit (Options{} as the header constructs it)."""
    cases = []
    D, A, N, T, K = DEFAULT_OPTS
    for d in (D - 1, D, D + 1):
        doc = b"<a>" * d + b"x" + b"</a>" * d
        cases.append(case_for(doc, DEFAULT_OPTS, "default-boundary", limit="depth", need=d, value=D, fits=d <= D))
        doc = b"<a>" * (d - 1) + b"<e/>" + b"</a>" * (d - 1)
        cases.append(case_for(doc, DEFAULT_OPTS, "default-boundary", limit="depth", need=d, value=D, fits=d <= D))
    for a in (A - 1, A, A + 1):
        doc = b"<a" + b"".join(b" a%d='%d'" % (i, i) for i in range(a)) + b"/>"
        cases.append(case_for(doc, DEFAULT_OPTS, "default-boundary", limit="attrs", need=a, value=A, fits=a <= A))
    for n in (N - 1, N, N + 1):
        nm = b"n" * n
        for doc in (b"<" + nm + b"/>", b"<" + nm + b"></" + nm + b">", b"<a " + nm + b"='1'/>", b"<?" + nm + b" d?><a/>"):
            cases.append(case_for(doc, DEFAULT_OPTS, "default-boundary", limit="name", need=n, value=N, fits=n <= N))
    small = (D, A, N, 1000, K)
    for t in (999, 1000, 1001):
        for doc in (b"<a>" + b"t" * t + b"</a>", b"<a>" + b" " * 10 + b"t" * (t - 10) + b"</a>", b"<a v='" + b"v" * t + b"'/>", b"t" * t):
            cases.append(case_for(doc, small, "default-boundary", limit="text", need=t, value=1000, fits=t <= 1000))
    # CDATA, comments, PI data and DOCTYPE are not subject to maxTextSpan (nothing in the header says they are): must be accepted
    for doc in (b"<a><![CDATA[" + b"c" * 1500 + b"]]></a>", b"<!--" + b"c" * 1500 + b"--><a/>", b"<?p " + b"d" * 1500 + b"?><a/>"):
        cases.append(case_for(doc, small, "default-boundary", limit="text(other)", need=1500, value=1000, fits=True))
    return cases


def gen_real_default_cases():
    """The REAL default maxTextSpan (1 MiB): text and attribute values of exactly the limit and one byte more, through lockstep
    (pull and SAX only: the model's decoder is quadratic in the length of one text, so the DOM of these is checked by `domstat`)."""
    D, A, N, T, K = DEFAULT_OPTS
    cases = []
    for t, fits in ((T, True), (T + 1, False)):
        for doc, kind in ((b"<a>" + b"t" * t + b"</a>", "textTooLarge"), (b"<a v='" + b"v" * t + b"'/>", "attrTooLong"),
                          (b"<a>" + b" \n" * 8 + b"t" * (t - 16) + b"</a>", "textTooLarge")):
            h = hexs(doc)
            cases.append({"cat": "real-default", "ops": ["pull %s %s" % (opt_str(DEFAULT_OPTS), h), "saxm 32 %s %s" % (opt_str(DEFAULT_OPTS), h)],
                          "doc": doc, "opts": DEFAULT_OPTS, "mask": 32, "limit": "text", "need": t, "value": T, "fits": fits, "err": kind})
    return cases


def spec_doc(spec):
    """[[piece, count], ...] -> bytes (how corpus files and the impl-only list write documents too large to spell out)"""
    return b"".join(p.encode("latin-1") * n for p, n in spec)


def gen_impl_only_cases(quick):
    """Cases that only the real code runs (the model driver keeps one stack frame per token, so token lists of 10^5..10^6 entries
    are out of its reach): judged by expected answers derived from the document's construction."""
    D, A, N, T, K = DEFAULT_OPTS
    out = []
    def add(op, opts, spec, want, what):
        out.append({"cat": "impl-only", "op": op, "opts": opts, "spec": spec, "want": want, "what": what})
    add("domstat", DEFAULT_OPTS, [["<a>", 1], ["t", T], ["</a>", 1]], r"^nodes=3 depth=2 destroyed$", "DOM of a text node of exactly the default maxTextSpan")
    add("domstat", DEFAULT_OPTS, [["<a>", 1], ["t", T + 1], ["</a>", 1]], r"^null textTooLarge @1048579:1:1048580$", "text node one byte over the default maxTextSpan")
    add("domstat", DEFAULT_OPTS, [["<a v='", 1], ["v", T + 1], ["'/>", 1]], r"^null attrTooLong @", "attribute value one byte over the default maxTextSpan")
    add("pullstat", DEFAULT_OPTS, [["<a><![CDATA[", 1], ["c", T + 1], ["]]><!--", 1], ["m", T + 1], ["--></a>", 1]],
        r"^tokens=4 depth=1 attrs=0 name=1 text=0 inbounds=1 \| eof stack=0$", "CDATA and comment beyond maxTextSpan (the option binds Text tokens and attribute values only)")
    add("pullstat", DEFAULT_OPTS, [["<r>", 1], ["<i/>", 200000], ["</r>", 1]], r"^tokens=200002 depth=2 .* inbounds=1 \| eof stack=0$", "maxTotalTokens=0 is unbounded")
    add("pullstat", (D, A, N, T, 65536), [["<r>", 1], ["<i/>", 65533], ["</r>", 1]], r"^tokens=65535 .* \| eof stack=0$", "65535 tokens with maxTotalTokens=65536")
    add("pullstat", (D, A, N, T, 65536), [["<r>", 1], ["<i/>", 65534], ["</r>", 1]], r"^tokens=65536 .* \| err tokenLimit @", "65536 tokens with maxTotalTokens=65536 (budget tested before the Eof call)")
    add("pullstat", (D, A, N, T, 65536), [["<r>", 1], ["<i/>", 70000], ["</r>", 1]], r"^tokens=65536 .* \| err tokenLimit @", "token budget stops a longer document at 65536 tokens")
    deep = 400000
    add("pullstat", (deep, A, N, T, K), [["<a>", deep], ["</a>", deep]], r"^tokens=800000 depth=400000 .* inbounds=1 \| eof stack=0$", "maxDepth=400000, nesting 400000")
    add("pullstat", (deep, A, N, T, K), [["<a>", deep + 1], ["</a>", deep + 1]], r"^tokens=400000 depth=400000 .* \| err depthExceeded @", "maxDepth=400000, nesting 400001")
    add("domstat", (deep, A, N, T, K), [["<a>", deep], ["</a>", deep]], r"^nodes=400001 depth=400000 destroyed$", "FC14a: DOM of nesting 400000 built and DESTROYED (recursive ~Node overflowed the stack)")
    add("domstat", (100000, A, N, T, K), [["<a>", 1], ["<b>x</b>", 100000], ["</a>", 1]], r"^nodes=200002 depth=3 destroyed$", "wide DOM")
    return out


def run_impl_only(ctx, hb, cases, stats):
    import re as _re
    from vlib.core import classify_crash
    for c in cases:
        doc = spec_doc(c["spec"])
        op = "%s %s %s" % (c["op"], opt_str(c["opts"]), hexs(doc))
        out, rc, err = ctx.run_lines([hb], [op], timeout=300)
        got = out[0] if out else "crash:" + classify_crash(rc, err)
        ctx.count_case(c["op"] + repr(c["spec"]) + repr(c["opts"]), nontrivial=True)
        stats["impl_only"] = stats.get("impl_only", 0) + 1
        if not _re.search(c["want"], got):
            ctx.violation("property", "X4/X2: %s: `%s %s <%s>` -> %s (expected /%s/)" % (c["what"], c["op"], opt_str(c["opts"]), c["spec"], got[:160], c["want"]),
                          {"op": c["op"], "options": c["opts"], "document_spec": c["spec"], "observed": got, "expected_regex": c["want"], "stderr": err[-1500:],
                           "how": "document = concatenation of piece*count; run harness/c14_xml.cpp with `<op> <options> <hex document>`"}, found_input=True)


OBSERVATION_DOCS = [
    ("non-ASCII element names are rejected (names are ASCII letters, digits, `_ : - .` only)", "<\u00e9l\u00e9ment/>".encode("utf-8")),
    ("a UTF-8 BOM becomes a top-level Text token", b"\xef\xbb\xbf<a/>"),
    ("`>` inside a DOCTYPE system literal ends the DOCTYPE token", b'<!DOCTYPE a SYSTEM "x>y"><a/>'),
    ("no white space is required between attributes", b'<a b="1"c="2"/>'),
    ("duplicate attributes are accepted (getAttribute answers the first)", b'<a b="1" b="2"/>'),
    ("`<` is accepted inside attribute values", b'<a b="<"/>'),
    ("`--` is accepted inside comments, `]]>` inside text", b"<a><!-- a -- b -->x]]>y</a>"),
    ("end tag names are compared byte for byte (case-sensitive)", b"<a></A>"),
    ("several root elements and top-level text are accepted", b"x<a/><b/>y"),
    ("a name may contain several colons; splitQName splits at the first", b'<a:b:c d:e:f="1" :g="2"></a:b:c>'),
]


def gen_observation_cases():
    return [case_for(d, DEFAULT_OPTS, "observation", what=w, extra_ops=[("domh",), ("dom0",)]) for w, d in OBSERVATION_DOCS]


def gen_mutated_tree_cases(rng, count):
    """1-3 random byte mutations (substitute / delete / insert / duplicate a span / truncate) of mid-size generated documents."""
    cases = []
    for i in range(count):
        g = Gen(rng, expat_safe=False, size=rng.choice([1, 2, 3]))
        g.document()
        d = bytearray(g.out)
        if len(d) > 600 or not d:
            continue
        for _ in range(rng.range(1, 3)):
            k = rng.below(6)
            pos = rng.below(len(d)) if d else 0
            if k == 0 and d:
                d[pos] = rng.choice(MUT_BYTES)
            elif k == 1 and d:
                del d[pos]
            elif k == 2:
                d.insert(pos, rng.choice(MUT_BYTES))
            elif k == 3 and d:
                ln = rng.range(1, 8)
                d[pos:pos] = d[pos:pos + ln]
            elif k == 4 and d:
                del d[pos:]
            elif d:
                d[pos] ^= 1 << rng.below(8)
        o = DEFAULT_OPTS if rng.chance(3, 4) else tuple(rng.choice([0, 1, 2, 3, 8, 256]) for _ in range(5))
        cases.append(case_for(bytes(d), o, "mutated-tree", extra_ops=[("dom0",), ("saxm", rand_mask(rng)), ("domh",)]))
    return cases


def gen_random_cases(rng, count):
    cases = []
    alphabet = b"<<<>>//=\"'&;!?-[] \nab:#x1]CDATA[DOCTYPE"
    for i in range(count):
        n = rng.range(0, 40)
        if i % 3 == 0:
            d = rng.bytes(n)
        else:
            d = bytes(rng.choice(alphabet) for _ in range(n))
        o = DEFAULT_OPTS if rng.chance(1, 2) else tuple(rng.choice([0, 1, 2, 5, 256, 2 ** 64 - 1]) for _ in range(5))
        cases.append(case_for(d, o, "random", extra_ops=[("dom0",), ("saxm", rand_mask(rng))]))
    return cases


def gen_entity_cases(rng, count):
    """decodeEntities / encodeUtf8 directly: the reference decoder above and Python's UTF-8 codec are the oracles."""
    cases = []
    fixed = [b"&lt;&gt;&amp;&apos;&quot;", b"&foo;", b"&", b"&;", b"&#;", b"&#x;", b"&#X;", b"&#xg;", b"&#1a;", b"&#-1;", b"&#65;", b"&#x41;", b"&#X41;",
             b"&#xD7FF;", b"&#xD800;", b"&#xDFFF;", b"&#xE000;", b"&#x10FFFF;", b"&#x110000;", b"&#1114111;", b"&#1114112;", b"&#0;", b"&#x0;",
             b"&#4294967361;", b"&#x100000041;", b"&#xFFFFFFFF;", b"&#4294967295;", b"&#4294967296;", b"a&amp", b"&amp;&", b"&lt", b"&LT;", b"&Amp;",
             b"&nbsp;", b"&#x41", b"&# 65;", b"&#+65;", b"&#x 41;", b"&lt;;", b"&&amp;;", b"&#00000000000000000065;", b"&#x000000000000000041;",
             b"&amp;lt;", b"x&#x20AC;y", b"&#128512;", b"&#x1F600;", b"&e;", b"&xxe;", b"&#x80;", b"&#x7FF;", b"&#x800;", b"&#xFFFF;", b"&#x10000;", b"&#127;", b"&#128;",
             b"&#x1;", b"&#8;", b"&#x9;", b"&#xA;", b"&#xB;", b"&#xC;", b"&#xD;", b"&#xE;", b"&#x1F;", b"&#x20;", b"&#xFFFD;", b"&#xFFFE;", b"a&#0;b", b"&#31;&#32;"]
    for f in fixed:
        cases.append({"cat": "entity", "ops": ["dec %s" % hexs(f), "dec0 %s" % hexs(f)], "raw": f})
    names = [b"lt", b"gt", b"amp", b"apos", b"quot", b"nbsp", b"LT", b"l", b"ltt", b"", b"#", b"#x", b"amp ", b"e", b"xxe", b"copy"]
    for i in range(count):
        parts = []
        for _ in range(rng.range(1, 5)):
            k = rng.below(8)
            if k < 2:
                parts.append(rand_string(rng, rng.range(0, 4)).replace("&", "").encode("utf-8"))
            elif k < 4:
                parts.append(b"&" + rng.choice(names) + b";")
            elif k < 6:
                cp = rng.choice([rng.range(0, 0x7F), rng.range(0x80, 0x7FF), rng.range(0x800, 0xFFFF), rng.range(0x10000, 0x10FFFF), rng.range(0xD800, 0xDFFF),
                                 rng.range(0x110000, 0x120000), rng.range(2 ** 32 - 5, 2 ** 32 + 200), 0x7F, 0x80, 0x7FF, 0x800, 0xFFFF, 0x10000, 0x10FFFF, 0x110000])
                parts.append(rng.choice([b"&#%d;" % cp, b"&#x%x;" % cp, b"&#X%X;" % cp, b"&#x%08x;" % cp]))
            elif k == 6:
                parts.append(rng.choice([b"&", b"&#", b"&#x", b"&amp", b";", b"&#1;2", b"&#x1G;", b"&#12a;"]))
            else:
                parts.append(rng.bytes(rng.range(1, 3)))
        raw = b"".join(parts)
        cases.append({"cat": "entity", "ops": ["dec %s" % hexs(raw), "dec0 %s" % hexs(raw)], "raw": raw})
    cps = [0, 1, 0x7F, 0x80, 0x7FF, 0x800, 0xD7FF, 0xD800, 0xDBFF, 0xDC00, 0xDFFF, 0xE000, 0xFFFD, 0xFFFF, 0x10000, 0x10FFFF, 0x110000, 0x1FFFFF, 0x200000,
           0x7FFFFFFF, 0x80000000, 0xFFFFFFFF]
    for i in range(count):
        cps.append(rng.choice([rng.below(0x80), rng.range(0x80, 0x7FF), rng.range(0x800, 0xFFFF), rng.range(0x10000, 0x10FFFF), rng.range(0x110000, 0xFFFFFFFF)]))
    for cp in cps:
        cases.append({"cat": "utf8", "ops": ["utf8 %d" % cp], "cp": cp})
    cases.append({"cat": "defaults", "ops": ["defaults"]})
    return cases


def gen_xxe_cases(rng):
    """Documents that declare entities in an internal subset (internal and external) and use them: nothing may be expanded."""
    docs = [b'<!DOCTYPE a [<!ENTITY e "EXPANDED">]><a>&e;</a>',
            b'<!DOCTYPE a [<!ENTITY xxe SYSTEM "file:///etc/hostname">]><a>&xxe;</a>',
            b'<!DOCTYPE a [<!ENTITY e "EXPANDED">]><a b="&e;"/>',
            b'<!DOCTYPE a [<!ENTITY % p SYSTEM "http://127.0.0.1:1/x.dtd"> %p;]><a/>',
            b'<!DOCTYPE a [<!ENTITY a "&b;&b;"><!ENTITY b "&c;&c;"><!ENTITY c "x">]><a>&a;</a>',
            b'<a>&nbsp;</a>', b'<a b="&copy;"/>']
    return [case_for(d, DEFAULT_OPTS, "xxe", extra_ops=[("dom0",), ("domh",)]) for d in docs]


# ------------------------------------------------------------------ second build: IORA_XML_THROW_ON_ERROR=1 (review F4 item 2)
THROW_DEFINE = "IORA_XML_THROW_ON_ERROR=1"
THROW_OPS = ("tpull", "tsax", "tdom")
THROW_CATS = ("tree", "deep-tree", "limit", "limit-random", "mutation", "mutated-tree", "random", "default-boundary", "xxe")
NAME_KINDS = ("badStartName", "badEndName", "badAttrName", "badPiTarget")
ENTITY_KINDS = ("unterminatedEntity", "badCharRef", "unknownEntity")
NAME_RUN_RE = re.compile(rb"[A-Za-z_:][-A-Za-z0-9_:.]*")
NAME_BYTES = frozenset(b"abcdefghijklmnopqrstuvwxyzABCDEFGHIJKLMNOPQRSTUVWXYZ_:-.0123456789")
ERR_AT_RE = re.compile(r"(\w+) @(\d+):(\d+):(\d+)")


def name_run_before(doc, o):
    """length of the maximal run of name characters that ends right before offset o"""
    s = min(o, len(doc))
    e = s
    while s > 0 and doc[s - 1] in NAME_BYTES:
        s -= 1
    return e - s


def name_too_long_at(doc, opts, kind, o):
    """Independent of the code: with fail() throwing, the FIRST failure is the one that is reported.  readName() fails with `name too long`
    before its caller can fail with `invalid start tag name` / end tag / attribute / PI target.  The caller's error sits at the cursor after
    the name that was read: it is the over-long-name case exactly when the run of name characters ending there is longer than maxNameLength
    (a caller error at a position where no name could start has a run of 0 — or, after an element name that fitted, one within the limit)."""
    return kind in NAME_KINDS + ("nameTooLong",) and name_run_before(doc, o) > opts[2]


def throwing_case(c):
    o = opt_str(tuple(c["opts"]))
    h = hexs(c["doc"])
    return {"cat": "throwing", "src": c["cat"], "ops": ["%s %s %s" % (op, o, h) for op in THROW_OPS], "doc": c["doc"], "opts": tuple(c["opts"]),
            "build": THROW_DEFINE}


def select_throwing(rng, cases, target):
    """A sample of the generated documents for the second build: every structured case (tree / limit / boundary families) in which some run
    of name characters is longer than maxNameLength (that is where the two builds differ), up to target/2 such mutation / random cases,
    and a random sample of the rest up to `target`."""
    seen = set()
    pool = []
    for c in cases:
        if c.get("cat") in THROW_CATS and "doc" in c and len(c["doc"]) <= 4096:
            k = (tuple(c["opts"]), c["doc"])
            if k not in seen:
                seen.add(k)
                pool.append(c)
    hot_s, hot_o, rest = [], [], []
    for c in pool:
        longest = max([len(x) for x in NAME_RUN_RE.findall(c["doc"])] or [0])
        if longest > c["opts"][2]:
            (hot_s if c["cat"] in ("tree", "deep-tree", "limit", "limit-random", "default-boundary", "xxe") else hot_o).append(c)
        else:
            rest.append(c)
    rng.shuffle(hot_o)
    hot_o = hot_o[:target // 2]
    rng.shuffle(rest)
    rest = rest[:max(target // 4, target - len(hot_s) - len(hot_o))]
    return [throwing_case(c) for c in hot_s + hot_o + rest]


def monitor_throwing(c, tl, base):
    """The three answers of the throwing build (implementation output only) against the non-throwing answers for the same options and
    document (`base`: pull / sax / dom lines of the first lockstep run, possibly absent) and against name_too_long_at()."""
    bad = []
    doc, opts = c["doc"], tuple(c["opts"])
    tp, ts, td = tl.get("tpull"), tl.get("tsax"), tl.get("tdom")
    # (iv) nothing escapes the try/catch of the op, no crash, the build really is the throwing one
    for nm, l in (("tpull", tp), ("tsax", ts), ("tdom", td)):
        if l is None:
            continue
        if l.startswith("crash:") or l == "bad-op" or (l.startswith("throw") and not (nm == "tdom" and re.match(r"^throw \w+ @\d+:\d+:\d+$", l))):
            bad.append("X2/UB(throwing build): %s: %s" % (nm, l[:80]))
        if "nonterminating" in l or "next-after-end" in l or "stopped-without-eof" in l or "WRONG-CALLBACK" in l or "unknownMessage" in l or "without-error" in l:
            bad.append("X3/X6(throwing build): %s: %s" % (nm, l[-80:]))
    if bad or tp is None:
        return bad
    m = re.match(r"^(.*) thrown=([01])$", tp)
    if not m:
        return ["harness output not understood (tpull): %s" % tp[-80:]]
    stripped, thrown = m.group(1), m.group(2)
    is_err = " | err " in stripped
    # (ii) an exception was caught exactly when the run ended in an error
    if (thrown == "1") != is_err:
        bad.append("X6(throwing build): thrown=%s but the run ended with `%s`" % (thrown, stripped.rsplit(" | ", 1)[1][:60]))
    body, fin = stripped.rsplit(" | ", 1)
    em = ERR_AT_RE.match(fin[4:]) if is_err else None
    tkind, toff = (em.group(1), int(em.group(2))) if em else (None, None)
    # (i) which failure is reported: readName's own `name too long` comes first exactly where an over-long name was read
    if em:
        ntl = name_too_long_at(doc, opts, tkind, toff)
        if ntl and tkind != "nameTooLong":
            bad.append("X4(throwing build): a name of %d bytes with maxNameLength %d ends at offset %d: readName's `name too long` must be the exception, "
                       "the reported error is %s" % (name_run_before(doc, toff), opts[2], toff, tkind))
        if not ntl and tkind == "nameTooLong":
            bad.append("X4(throwing build): nameTooLong at offset %d but the name that ends there has %d bytes (maxNameLength %d)" % (toff, name_run_before(doc, toff), opts[2]))
    pull = base.get("pull")
    if pull is not None and stripped != pull:
        ok = False
        if tkind == "nameTooLong" and " | err " in pull:
            pbody, pfin = pull.rsplit(" | ", 1)
            pm = ERR_AT_RE.match(pfin[4:])
            ok = bool(pm) and pm.group(1) in NAME_KINDS and pbody == body and pfin[4 + len(pm.group(1)):] == fin[4 + len(tkind):]
        if not ok:
            bad.append("X6(throwing build): the pull run with IORA_XML_THROW_ON_ERROR=1 differs from the default build: got %s want %s"
                       % (first_diff(stripped, pull), first_diff(pull, stripped)))
    # tsax: the same events and the same outcome as tpull
    if ts is not None:
        sm = re.match(r"^(.*) \| (.*) thrown=([01])$", ts)
        if not sm:
            bad.append("harness output not understood (tsax): %s" % ts[-80:])
        else:
            want_fin = ("fail " + fin.split(" stack=")[0]) if is_err else "ok"
            if sm.group(1) != body:
                bad.append("X6(throwing build): SAX events differ from the pull tokens: got %s want %s" % (first_diff(sm.group(1), body), first_diff(body, sm.group(1))))
            if sm.group(2) != want_fin:
                bad.append("X6(throwing build): runSax ended with `%s`, the pull run with `%s`" % (sm.group(2)[:60], want_fin[:60]))
            if (sm.group(3) == "1") != is_err:
                bad.append("X6(throwing build): runSax thrown=%s but the pull run ended with `%s`" % (sm.group(3), fin[:40]))
    # (iii) tdom: `throw K @pos` exactly when the tokenizer fails before an entity fails, else what the default build's DOM is
    if td is not None:
        dom = base.get("dom")
        if dom is not None:
            dm = ERR_AT_RE.match(dom[5:]) if dom.startswith("null ") else None
            if dm and dm.group(1) not in ENTITY_KINDS + ("domUnbalancedEnd", "domUnclosed"):
                k = "nameTooLong" if name_too_long_at(doc, opts, dm.group(1), int(dm.group(2))) else dm.group(1)
                want = "throw " + k + dom[5 + len(dm.group(1)):]
            else:
                want = dom
            if td != want:
                bad.append("X6(throwing build): DomBuilder::build with IORA_XML_THROW_ON_ERROR=1 = %s, the default build's answer (%s) calls for %s" % (td[:80], dom[:60], want[:80]))
        if td.startswith("throw "):
            if not is_err or td[6:] != fin[4:].split(" stack=")[0]:
                bad.append("X6(throwing build): DomBuilder::build threw with %s but the pull run ended with `%s`" % (td[6:60], fin[:60]))
        elif td.startswith("null "):
            if td.split()[1] not in ENTITY_KINDS:
                bad.append("X6(throwing build): DomBuilder::build returned %s without an exception (only entity decoding fails without fail())" % td[:60])
        elif is_err:
            bad.append("X6(throwing build): a document was built although the pull run ended with `%s`" % fin[:60])
    return bad


FC14B_DOC = b"<a><b>x</b> <i>y</i></a>"
FC14B_WHAT = ("white-space-only character data between markup is not reported: in mixed content <a><b>x</b> <i>y</i></a> the space between the two "
              "elements yields no Text token and no DOM node (XML 1.0 2.10 asks a processor to pass all character data on); same root cause as F29")


def replay_fc14b(ctx, hb):
    """Candidate finding FC14b (review F3): replay the witness on the real code.  The check's verdict is `boundary of the supported subset`
    (theorems X7_space_only_text_not_reported / X7_all_text_refuted / _partial); the KNOWN-FINDING line is printed only when
    KNOWN_FINDINGS.txt lists it (or VERIF_KNOWN_FINDINGS_EXTRA, for trying out the proposed line) and it still reproduces."""
    op = "pull %s %s" % (opt_str(DEFAULT_OPTS), hexs(FC14B_DOC))
    out, rc, err = ctx.run_lines([hb], [op], timeout=60)
    got = out[0] if out else ""
    kinds = [t.split(" ", 1)[0] for t in got.rsplit(" | ", 1)[0].split(";")] if " | " in got else []
    reproduces = kinds == ["S", "S", "T", "E", "S", "T", "E", "E"] and " | eof " in got
    listed = any(d.get("kind") == "finding" and d.get("property") == ID and d.get("id") == "FC14b" for d in load_known_findings())
    listed = listed or "FC14b" in os.environ.get("VERIF_KNOWN_FINDINGS_EXTRA", "")
    ctx.extra["candidate_finding_FC14b"] = {"witness": FC14B_DOC.decode(), "token_kinds_observed": kinds, "reproduces": reproduces, "listed": listed, "what": FC14B_WHAT}
    if reproduces and listed:
        ctx.known_lines.append("KNOWN-FINDING: property=C14 id=FC14b key=ws-only-text-between-elements " + FC14B_WHAT)
    return reproduces


# ------------------------------------------------------------------ run
def load_corpus():
    d = os.path.join(os.path.dirname(os.path.dirname(os.path.abspath(__file__))), "corpus", ID)
    out = []
    if os.path.isdir(d):
        for fn in sorted(os.listdir(d)):
            if fn.endswith(".json"):
                c = json.load(open(os.path.join(d, fn)))
                c.setdefault("cat", "corpus")
                c["file"] = fn
                out.append(c)
    return out


def replayable(c):
    return {k: v for k, v in c.items() if k in ("cat", "ops", "expect", "opts", "limit", "need", "value", "fits", "file")}


def replay(ctx):
    """Re-run the op list of a replay / corpus file on the real code and the model; exit 1 if the failure is still there."""
    obj = json.load(open(ctx.replay))
    ops = obj.get("ops") or []
    ctx.translate(["xml"])
    ctx.lake_build(MODULES)
    throwing = any(o.split(" ", 1)[0] in THROW_OPS for o in ops)
    if throwing:          # tpull / tsax / tdom exist only in the build whose fail() throws
        hb = ctx.build_harness("harness/c14_xml.cpp", name="c14_xml_throw", sanitize=True, defines=[THROW_DEFINE])
    else:
        hb = ctx.build_harness("harness/c14_xml.cpp", sanitize=True)
    if not hb or not ops:
        print("replay: nothing to run (kind=%s)" % obj.get("kind"))
        return 1 if ctx.violations else 0
    (c, impl, model), = ctx.lockstep("xml", hb, [{"cat": "replay", "ops": ops}])
    fails = []
    docs = {}
    tdocs = {}
    for o, a, b in zip(ops, impl, model):
        print("op    %s\n impl  %s\n model %s" % (o[:200], a[:300], b[:300]))
        t = o.split()
        if t[0] in ("pull", "sax", "dom") and len(t) == 7:
            docs.setdefault((tuple(int(x) for x in t[1:6]), t[6]), {})[t[0]] = a
        elif t[0] in THROW_OPS and len(t) == 7:
            tdocs.setdefault((tuple(int(x) for x in t[1:6]), t[6]), {})[t[0]] = a
        elif t[0] in ("dec", "utf8"):
            f = monitor_scalar(o, a)
            if f:
                fails.append(f)
    for (o, h), lines in docs.items():
        fails += monitor_generic(unhex(h), o, lines.get("pull"), lines.get("sax"), lines.get("dom"))
    for (o, h), lines in tdocs.items():
        fails += monitor_throwing({"doc": unhex(h), "opts": o}, lines, {})
    exp = obj.get("expected_by_generator") or obj.get("expect")
    if exp:
        for o, a, e in zip(ops, impl, exp):
            if a != e:
                fails.append("X7: `%s` -> %s, the generator/corpus expects %s" % (o[:60], first_diff(a, e), first_diff(e, a)))
    for f in fails:
        print("PROPERTY FAILS:", f[:300])
    still = bool(fails) or impl != model
    print("replay: %s" % ("still failing" if still else "no longer failing"))
    import shutil
    shutil.rmtree(ctx.work, ignore_errors=True)
    return 1 if still else 0


def run(ctx: Ctx):
    if ctx.replay:
        return replay(ctx)
    quick = ctx.tier == "quick"
    scale = 1 if quick else 15
    rng = ctx.rng
    ctx.translate(["xml"])
    ok_build = ctx.lake_build(MODULES + ["iora_model"])
    if ok_build:
        ctx.audit(MODULES, OBLIGATIONS)
        if not quick:
            ctx.leanchecker(MODULES + ["IoraModel.Lemmas.XmlClosed", "IoraModel.Lemmas.Xml", "IoraModel.Lemmas.XmlExplicit", "IoraModel.Lemmas.XmlEntities", "IoraModel.Lemmas.XmlDom",
                                       "IoraModel.Lemmas.XmlRender", "IoraModel.Lemmas.XmlContent", "IoraModel.Lemmas.XmlTransfer", "IoraModel.Lemmas.XmlDecodeReads", "IoraModel.Lemmas.XmlDtor", "IoraModel.Lemmas.XmlThrow", "IoraModel.Model.Xml"])
    else:
        ctx.cov["obligations"] = len(OBLIGATIONS)
    hb = ctx.build_harness("harness/c14_xml.cpp", sanitize=True)
    # second build of the SAME harness source with fail() throwing (review F4 item 2); its own binary name
    hbt = ctx.build_harness("harness/c14_xml.cpp", name="c14_xml_throw", sanitize=True, defines=[THROW_DEFINE]) if hb else None
    dist = {}
    feats = {}
    meas = {"error_kinds": {}, "token_kinds": {}, "masks": set(), "dom_outcomes": {}}
    stats = {"accepted": 0, "rejected": 0, "expat_compared": 0, "expat_rejected": 0, "dom_null_entity": 0, "unspecified_numeric_refs": 0,
             "limit_reject": 0, "limit_accept": 0, "non_char_refs_accepted": 0, "non_char_refs_rejected": 0}
    if hb:
        cases = load_corpus()
        cases += gen_tree_cases(rng.fork("tree"), 4000 * scale, feats)
        cases += gen_deep_tree_cases(rng.fork("deep"), 300 * scale, feats)
        cases += gen_sax_mask_sweep()
        cases += gen_large_tree_cases(rng.fork("large"), 3 if quick else 12, feats)
        cases += gen_limit_cases(rng.fork("limit"), 400 * scale)
        cases += gen_default_boundary_cases(rng.fork("dflt"))
        cases += gen_mutation_cases(rng.fork("mut"), 44 * (1 if quick else 8), 1000 if quick else 3000, all_bytes_for=(2 if quick else 15))
        cases += gen_mutated_tree_cases(rng.fork("mtree"), 3000 * scale)
        cases += gen_random_cases(rng.fork("rand"), 4000 * scale)
        cases += gen_entity_cases(rng.fork("ent"), 1500 * scale)
        cases += gen_xxe_cases(rng)
        cases += gen_observation_cases()
        cases += gen_real_default_cases()
        for c in cases:
            if c.get("impl_only"):          # corpus witnesses that only the real code can run (see gen_impl_only_cases)
                c["cat"] = "corpus-impl-only"
        impl_only = [c for c in cases if c.get("impl_only")]
        cases = [c for c in cases if not c.get("impl_only")]
        throwing_cases = select_throwing(rng.fork("throw"), cases, 3000 * scale) if hbt else []
        base_lines = {(c["opts"], c["doc"]): None for c in throwing_cases}
        try:
            res = ctx.lockstep("xml", hb, cases, timeout=900)
        except RuntimeError as e:
            # not a verdict about the code: the model driver or the harness did not finish (time-out, killed, short output)
            print("[C14] machinery failure: the lockstep run did not complete (%s); no VIOLATION is reported for this" % str(e)[:300], flush=True)
            raise
        for c in impl_only:
            spec = {"cat": "impl-only", "op": c["op"], "opts": tuple(c["opts"]), "spec": c["spec"], "want": c["want"], "what": c.get("what", c.get("file", "corpus"))}
            run_impl_only(ctx, hb, [spec], stats)
            dist["corpus-impl-only"] = dist.get("corpus-impl-only", 0) + 1
        io = gen_impl_only_cases(quick)
        run_impl_only(ctx, hb, io, stats)
        dist["impl-only"] = len(io)
        n_mismatch = 0
        for c, impl, model in res:
            cat = c["cat"]
            dist[cat] = dist.get(cat, 0) + 1
            fails = []
            nontrivial = True
            if cat in ("tree", "limit", "limit-random", "mutation", "random", "xxe", "default-boundary", "mutated-tree", "observation", "real-default", "large-tree",
                       "deep-tree", "sax-mask-sweep"):
                doc = c["doc"]
                opts = tuple(c["opts"])
                lines = {op.split(" ", 1)[0]: l for op, l in zip(c["ops"], impl)}
                measure(meas, c, lines)
                if (opts, doc) in base_lines and base_lines[(opts, doc)] is None:
                    base_lines[(opts, doc)] = {k: lines.get(k) for k in ("pull", "sax", "dom") if lines.get(k) is not None}
                fails += monitor_generic(doc, opts, lines.get("pull"), lines.get("sax"), lines.get("dom"))
                fails += monitor_extra(c, lines)
                acc = " | eof " in (lines.get("pull") or "")
                stats["accepted" if acc else "rejected"] += 1
                nontrivial = acc or len(lines.get("pull", "")) > 40
                if (lines.get("dom") or "").startswith("null ") and lines["dom"].split()[1] in ("unknownEntity", "badCharRef", "unterminatedEntity"):
                    stats["dom_null_entity"] += 1
                if cat == "xxe":
                    d = lines.get("dom", "")
                    if b"&" in doc and b"ENTITY" in doc or b"&nbsp;" in doc or b"&copy;" in doc:
                        if b"%p;" not in doc and not d.startswith("null unknownEntity"):
                            fails.append("X5: a document using a declared/undefined entity was not rejected by the DOM builder: %s" % d[:100])
                    if "EXPANDED" .encode().hex() in d:
                        fails.append("X5: an internal entity was expanded")
                if c.get("expect"):
                    fails += monitor_tree(c, impl)
                if cat == "real-default" and not c["fits"] and (" | err %s @" % c["err"]) not in lines["pull"]:
                    fails.append("X4: %d bytes against the default maxTextSpan: expected %s, got %s" % (c["need"], c["err"], lines["pull"][-80:]))
                if cat in ("limit", "default-boundary", "real-default"):
                    if c["fits"] and not acc:
                        fails.append("X4: document within every limit rejected (%s=%d, needs %d): %s" % (c["limit"], c["value"], c["need"], lines["pull"][-70:]))
                    if not c["fits"] and acc:
                        fails.append("X4: limit %s=%d not enforced (document needs %d)" % (c["limit"], c["value"], c["need"]))
                    stats["limit_accept" if acc else "limit_reject"] += 1
                if cat in ("tree", "large-tree", "deep-tree") and c.get("expat") and not fails and _expat is None:
                    stats["expat_unavailable"] = stats.get("expat_unavailable", 0) + 1
                elif cat in ("tree", "large-tree", "deep-tree") and c.get("expat") and not fails:
                    r = expat_compare(doc, lines["dom"])
                    if r is None:
                        stats["expat_rejected"] += 1
                    else:
                        stats["expat_compared"] += 1
                        if not r[0]:
                            fails.append("X7(expat): DOM differs from expat's reading: iora=%s expat=%s" % (first_diff(r[1], r[2]), first_diff(r[2], r[1])))
            elif cat == "corpus" and c.get("expect"):
                for op, got, want in zip(c["ops"], impl, c["expect"]):
                    if got != want:
                        fails.append("%s: corpus witness %s: `%s` -> %s, expected %s" % (c.get("tag", "X7"), c.get("file"), op[:60], got[:120], want[:120]))
            elif cat in ("entity", "utf8"):
                f = monitor_scalar(c["ops"][0], impl[0], stats)
                if f:
                    fails.append(f)
                if len(impl) > 1:       # dec0: decodeEntities without an error sink must decide the same
                    want0 = impl[0] if impl[0].startswith("ok ") else "err"
                    if impl[1] != want0:
                        fails.append("X5: decodeEntities(in, out) without an error sink = %s, with one %s" % (impl[1][:60], impl[0][:60]))
            elif cat == "defaults":
                if impl[0] != "%d %d %d %d %d" % DEFAULT_OPTS:
                    fails.append("X4: Options{} defaults are %s, the generator assumes %s" % (impl[0], DEFAULT_OPTS))
            ctx.count_case("\n".join(c["ops"]), nontrivial=nontrivial)
            if cat in ("tree", "limit", "mutation", "mutated-tree") and len(ctx.cov["samples"]) < 6 and rng.chance(1, 1500):
                ctx.sample({"cat": cat, "ops": [o[:200] for o in c["ops"][:1]], "impl": [l[:200] for l in impl[:1]]})
            mism = [(i, a, b) for i, (a, b) in enumerate(zip(impl, model)) if a != b]
            if fails:
                report_property(ctx, hb, c, impl, model, fails)
            elif mism:
                n_mismatch += 1
                if n_mismatch <= 3:
                    i, a, b = mism[0]
                    ctx.violation("correspondence", "model and implementation disagree (no property monitor fails on this case): op `%s` impl=`%s` model=`%s`"
                                  % (c["ops"][i][:120], first_diff(a, b)[:160], first_diff(b, a)[:160]),
                                  {"broken": {"correspondence": "xml lockstep (harness/c14_xml.cpp vs Model/Xml.lean)", "detail": "first differing op index %d" % i},
                                   "ops": c["ops"], "observed": impl, "expected_by_model": model}, found_input=False)
        # ---- the throwing build: same documents and options through tpull / tsax / tdom, model and implementation in lockstep again
        thr = {"cases": 0, "thrown": 0, "nameTooLong": 0, "by_source": {}}
        if hbt and throwing_cases:
            try:
                res2 = ctx.lockstep("xml", hbt, throwing_cases, timeout=900)
            except RuntimeError as e:
                print("[C14] machinery failure: the lockstep run of the throwing build did not complete (%s); no VIOLATION is reported for this" % str(e)[:300], flush=True)
                raise
            for c, impl, model in res2:
                dist["throwing"] = dist.get("throwing", 0) + 1
                thr["cases"] += 1
                thr["by_source"][c["src"]] = thr["by_source"].get(c["src"], 0) + 1
                tl = dict(zip(THROW_OPS, impl))
                if tl["tpull"].endswith(" thrown=1"):
                    thr["thrown"] += 1
                if " | err nameTooLong @" in tl["tpull"]:
                    thr["nameTooLong"] += 1
                fails = monitor_throwing(c, tl, base_lines.get((c["opts"], c["doc"])) or {})
                ctx.count_case("\n".join(c["ops"]), nontrivial=len(tl["tpull"]) > 50)
                mism = [(i, a, b) for i, (a, b) in enumerate(zip(impl, model)) if a != b]
                if fails:
                    report_property(ctx, hbt, c, impl, model, fails)
                elif mism:
                    n_mismatch += 1
                    if n_mismatch <= 3:
                        i, a, b = mism[0]
                        ctx.violation("correspondence", "model and implementation (built with %s) disagree (no property monitor fails on this case): op `%s` impl=`%s` model=`%s`"
                                      % (THROW_DEFINE, c["ops"][i][:120], first_diff(a, b)[:160], first_diff(b, a)[:160]),
                                      {"broken": {"correspondence": "xml lockstep, throwing build (harness/c14_xml.cpp -D%s vs Model/Xml.lean)" % THROW_DEFINE,
                                                  "detail": "first differing op index %d" % i},
                                       "ops": c["ops"], "harness_build": THROW_DEFINE, "observed": impl, "expected_by_model": model}, found_input=False)
        ctx.extra["throwing_build"] = thr
        ctx.extra["lockstep_mismatches"] = n_mismatch
        replay_fc14b(ctx, hb)
    # review F6: measured counters (implementation output only) next to the category counts
    dist["error_kinds"] = dict(sorted(meas["error_kinds"].items()))
    dist["token_kinds"] = dict(sorted(meas["token_kinds"].items()))
    dist["sax_masks_distinct"] = len(meas["masks"])
    dist["dom_outcomes"] = dict(sorted(meas["dom_outcomes"].items()))
    ctx.extra["input_distribution"] = dist
    ctx.extra["tree_features"] = feats
    ctx.extra["outcomes"] = stats
    ctx.extra["repo_tree_sha"] = ctx.repo_tree_sha(ANCHOR_FILES)
    ctx.extra["not_proved"] = [
        "white-space-only character data between markup is NOT reported by this parser (no Text token, no DOM node): text nodes that consist of white space only in the RAW document are "
        "outside the supported subset of X7 (candidate finding FC14b, replayed on every run: extra.candidate_finding_FC14b). Theorems: X7_space_only_text_not_reported (what happens, for "
        "every white-space run), X7_all_text_refuted (the unrestricted text clause is false, witness `<a> </a>`), X7_all_text_partial / X7_content_faithful (every other text run is reported "
        "whole). In mixed content (`<p><b>x</b> <i>y</i></p>`) the inter-element space is lost; a text whose DECODED value is white space only (`&#32;`) IS reported and kept by the DOM. A "
        "4-line change of skipWhitespaceOutsideText that reports white space inside elements passes the repository's XML tests but adds Text tokens/nodes to every pretty-printed document "
        "and was neither proposed as a fix nor modelled in this round",
        "X7 in full is proved for rendered documents whose text runs are followed directly by markup or the end (TextOk) and whose CDATA/comment/PI bodies do not contain their terminator; "
        "entity references inside text/attribute values are opaque bytes for the tokenizer theorems and are decoded by the X5 theorems (X7_dom_of_document composes the two)",
        "line/column values of tokens and errors are tied by lockstep (and the generator's independent line/column computation) only: no theorem states what they should be",
        "DomBuilder::build / runSax in the throwing build (the exception leaves them): modelled (domBuildT) and tied by the second lockstep; the theorem about the two builds (X9) is about "
        "the pull API; every X1-X7 theorem quantifies over Options including `throwing`, so each holds for both builds",
        "Node::getTextContent/getAttribute/childByName: modelled and tied by lockstep plus a monitor that recomputes them from the DOM dump; no theorem beyond their definitions",
        "message tails of the two composed messages (`mismatched end tag - expected </a> but got </b>`, the list of unclosed elements): only the prefix is compared",
        "MonotonicArena (xml.hpp:129-186) is used by nothing in the header and run by nothing here; `makeArray` multiplies `sizeof(T) * count` without an overflow check (observation, dead code)",
        "documents whose token list is longer than ~10^5 entries (the model driver keeps one stack frame per token) and the DOM of a single text/attribute value near 1 MiB (the "
        "model's decoder appends byte by byte to a list) are run on the real code only (`impl-only` cases with answers derived from the document's construction)"]
    ctx.extra["observations"] = [
        "numeric references accumulate in 32 bits and wrap on ill-formed input (&#x100000041; -> 'A'); '&#x;' decodes to U+0000; both mirrored by the model (X5_numeric_value), outside the well-formed subset",
        "a document with exactly maxTotalTokens tokens is rejected (the budget test precedes the call that would emit Eof): stricter than the limit, never laxer",
        "white space between markup (and white-space-only text) is never reported; multiple roots, text outside the root and an empty document are accepted (balance is the only structural rule)",
        "maxTextSpan is documented as `Max contiguous text span in bytes`: it binds Text tokens and attribute values (Token.Limits); CDATA sections, comments, PI data and DOCTYPE are not subject to it "
        "(a 1 MiB+1 CDATA section and comment are accepted with the defaults: impl-only case)",
        "`<?xml ...?>` is reported as a ProcessingInstruction named xml; TokenKind::XmlDecl is never produced (RunOk.kinds)",
        "Options::permissive and Options::namespaceProcessing are read nowhere in the header (Gen.Xml.unusedOptionFields)",
        ("numeric references to code points outside the XML Char production (&#0;, &#x1;, &#xFFFE;) are accepted and encoded; the reference treats them as unspecified"
         if stats["non_char_refs_accepted"] and not stats["non_char_refs_rejected"] else
         "numeric references to code points outside the XML Char production (&#0;, &#x1;, &#xFFFE;): %d accepted, %d rejected in this run; the reference treats them as unspecified"
         % (stats["non_char_refs_accepted"], stats["non_char_refs_rejected"]))] + [w for w, _ in OBSERVATION_DOCS]
    ctx.assumptions += ["inputs shorter than 2^31 bytes (size_t arithmetic and readDoctype's `int bracket` do not wrap); option values < 2^64",
                        "stack depth: with FC14a repaired nothing in xml.hpp recurses per nesting level (tokenizer, DomBuilder::build and ~Node are iterative); a CALLER that walks the DOM recursively "
                        "must bound maxDepth itself (the default 256 is safe)",
                        "both builds are covered: IORA_XML_THROW_ON_ERROR=0 (default, Gen.Xml.throwOnErrorDefault) and =1 (second harness build, `Options.throwing` in the model: fail() records the error, then throws)"]
    return ctx.finish(level="proof", rule="a case = one document (or one entity string / code point) with one option setting, run through the real pull, SAX and DOM interfaces; "
                      "distinct = distinct op lists; non-trivial = the document is accepted or yields at least one token before the error")


ERRKIND_RE = re.compile(r" \| err (\w+) @")
TOKKIND_RE = re.compile(r"(?:^|;)(\w+) n=")


def measure(meas, c, lines):
    """review F6: what the IMPLEMENTATION answered — error kind of every rejected pull line, kinds of the tokens in every pull line, callback
    masks that ran, DOM outcomes (doc / null by error kind)"""
    def bump(d, k, n=1):
        d[k] = d.get(k, 0) + n
    pull = lines.get("pull")
    if pull is not None:
        m = ERRKIND_RE.search(pull[-120:])
        if m:
            bump(meas["error_kinds"], m.group(1))
        for m in TOKKIND_RE.finditer(pull):
            bump(meas["token_kinds"], m.group(1))
    if lines.get("saxm") is not None and "mask" in c:
        meas["masks"].add(c["mask"])
    dom = lines.get("dom")
    if dom is not None:
        bump(meas["dom_outcomes"], "doc" if dom.startswith("doc[") else "null:" + (dom.split(" ", 2)[1] if dom.startswith("null ") and " " in dom[5:] else dom[:20]))


def report_property(ctx, hb, c, impl, model, fails):
    if not ctx.violation_budget("property", fails[0]):
        ctx.violation("property", fails[0])
        return
    big = "doc" in c and len(c["doc"]) > 8192
    cut = (lambda l: l if not big or l is None else [x[:400] + "...(%d chars)" % len(x) if len(x) > 400 else x for x in l])
    obj = {"ops": cut(c["ops"]), "observed": cut(impl), "expected_by_model": cut(model), "failures": fails[:5], "category": c["cat"]}
    if big:
        obj["document"] = "%d bytes, first 80: %r, last 40: %r" % (len(c["doc"]), c["doc"][:80], c["doc"][-40:])
    elif "doc" in c:
        obj["document"] = c["doc"].decode("utf-8", "replace")
    if c.get("expect"):
        obj["expected_by_generator"] = c["expect"]
    if c.get("build"):
        obj["harness_build"] = c["build"]
    ctx.violation("property", fails[0], obj, found_input=True)
