"""C07 — TLS sessions authenticate the peer as configured and never downgrade (DESIGN §7 C07; partial: OpenSSL assumed).

One *case* = one cell of the configuration matrix = one operation line.  The harness builds a REAL
Transport / HttpClient / HttpServer with the cell's configuration, runs a real handshake on loopback against an
in-process OpenSSL (or plaintext / garbage) peer through a recording relay, and prints
    plan=<effective OpenSSL settings seen by the interposers> connected= appdata= cleartext= version= | diagnostics
The Lean driver prints the model's plan (interpreting Gen/TlsCalls.lean) and the outcome predicted by the assumed
OpenSSL semantics.  The matrix is exhaustive in both tiers; thorough adds ET/LT x batching, the sync API and the
full HttpClient / HttpServer matrices.
"""
import os, json, re
from vlib.core import Ctx, ModelBuildError, load_known_findings

ID = "C07"
MODULES = ["IoraModel.Props.C07"]
OBLIGATIONS = [
    {"id": "C07_T1_connect", "theorem": "Iora.C07.T1_connect_never_plain", "kind": "proved",
     "statement": "forall configuration, files, target: connect(..., req != None) is TLS or refused, never a plain session"},
    {"id": "C07_T1_listen", "theorem": "Iora.C07.T1_listen_never_plain", "kind": "proved",
     "statement": "forall configuration: a listener requested with TLS never yields plain sessions"},
    {"id": "C07_T1_https", "theorem": "Iora.C07.T1_https_never_plain", "kind": "proved",
     "statement": "HttpClient: an https request never runs over a plain session"},
    {"id": "C07_T1_httpserver", "theorem": "Iora.C07.T1_httpserver_never_plain", "kind": "proved",
     "statement": "HttpServer: after enableTls the listener never serves clear text"},
    {"id": "C07_T1_url", "theorem": "Iora.C07.T1_url_scheme_never_plain", "kind": "proved",
     "statement": "forall scheme spelling equal to https up to case: the URL is rejected or requested with TLS, never plain; accepted without port => port 443"},
    {"id": "C07_T9_cache", "theorem": "Iora.C07.T9_cache_never_carries_https_in_clear", "kind": "proved",
     "statement": "forall request sequences to one host:port (http/https mix, keep/drop): every https request rides a session opened with TlsMode::Client"},
    {"id": "C07_T2_effective", "theorem": "Iora.C07.T2_effective_min", "kind": "proved",
     "statement": "forall minVersion : Int (incl. 0x0305, DTLS numbers): the context HAS a minimum in [TLS1.2, TLS1.3], >= minVersion when that is a known TLS version"},
    {"id": "C07_T2_floor", "theorem": "Iora.C07.T2_floor", "kind": "proved",
     "statement": "forall n : Int, floor n >= TLS1_2 and floor n >= n"},
    {"id": "C07_T2_connect_min", "theorem": "Iora.C07.T2_connect_min", "kind": "proved",
     "statement": "every client TLS session runs on a context whose EFFECTIVE minimum is applyFloorMin(minVersion) >= TLS 1.2"},
    {"id": "C07_T2_listen_min", "theorem": "Iora.C07.T2_listen_min", "kind": "proved",
     "statement": "every server TLS session runs on a context whose EFFECTIVE minimum is applyFloorMin(minVersion) >= TLS 1.2"},
    {"id": "C07_T3_client_verify", "theorem": "Iora.C07.T3_client_verify", "kind": "proved",
     "statement": "clientTls.verifyPeer => SSL_VERIFY_PEER set and the store is the configured CA location or the default paths"},
    {"id": "C07_T3_enabled", "theorem": "Iora.C07.T3_tls_only_if_enabled", "kind": "proved",
     "statement": "a client TLS session exists only with clientTls.enabled and defaultMode == Client; its context is a client context"},
    {"id": "C07_T3_failfast", "theorem": "Iora.C07.T3_server_failfast", "kind": "proved",
     "statement": "server verifyPeer without CA / unloadable CA / unreadable, unloadable, mismatching or expired certificate => start() refuses"},
    {"id": "C07_T3_authenticated", "theorem": "Iora.C07.T3_client_authenticated", "kind": "proved",
     "statement": "forall configuration with ciphers != enablesAnon, files, target, store, peer, H assumed: a verifyPeer client that completes the handshake faces a "
                  "TLS peer owning a certificate that chains, is in time and (target = name) names it"},
    {"id": "C07_T4_engine", "theorem": "Iora.C07.T4_engine_hostcheck", "kind": "proved",
     "statement": "connecting by NAME: SNI = name always, SSL_set1_host(name) whenever verifyPeer (every name, configuration)"},
    {"id": "C07_T4_http_refuted", "theorem": "Iora.C07.T4_http_refuted", "kind": "refuted", "finding": "F20-http",
     "statement": "NOT (HttpClient https request to a host name with verifyPeer checks that name): the name is resolved first, the engine sees an IP literal"},
    {"id": "C07_T4_http_partial", "theorem": "Iora.C07.T4_http_partial", "kind": "partial",
     "statement": "HttpClient: the name is checked when it reaches the engine unresolved (resolution failed, literal name passed on)"},
    {"id": "C07_T5_flags", "theorem": "Iora.C07.T5_server_flags", "kind": "proved",
     "statement": "serverTls.verifyPeer => SSL_VERIFY_PEER | SSL_VERIFY_FAIL_IF_NO_PEER_CERT and the store is the configured CA"},
    {"id": "C07_T5_admits", "theorem": "Iora.C07.T5_server_admits_only_valid", "kind": "proved",
     "statement": "forall H assumed: a verifyPeer server admits only clients presenting a certificate that chains, is in time and is owned"},
    {"id": "C07_T3_http_client", "theorem": "Iora.C07.T3_http_client_verify", "kind": "proved",
     "statement": "HttpClient: TlsConfig.verifyPeer => SSL_VERIFY_PEER, and a configured caFile is the verification store (else default paths)"},
    {"id": "C07_T5_http_server", "theorem": "Iora.C07.T5_http_server_flags", "kind": "proved",
     "statement": "HttpServer: requireClientCert => SSL_VERIFY_PEER | SSL_VERIFY_FAIL_IF_NO_PEER_CERT on the listener's context"},
    {"id": "C07_T6_client", "theorem": "Iora.C07.T6_client_matrix", "kind": "proved",
     "statement": "forall H assumed, every one of the 6720 client cells (7 server-certificate kinds incl. CN=host with SAN=other host, and CN-only): announced <-> Spec.cliAdmissible, version >= 1.2, never plain"},
    {"id": "C07_T6_server", "theorem": "Iora.C07.T6_server_matrix", "kind": "proved",
     "statement": "forall H assumed, every one of the 13440 server cells: admitted <-> Spec.srvAdmissible, version >= 1.2, never plain"},
    {"id": "C07_T6_http_refuted", "theorem": "Iora.C07.T6_http_refuted", "kind": "refuted", "finding": "F20-http",
     "statement": "NOT (HttpClient matrix: response returned <-> Spec.httpAdmissible in every cell): witness verify, caFile=issuing CA, cert for other.example, https://localhost"},
    {"id": "C07_T6_http_partial", "theorem": "Iora.C07.T6_http_partial", "kind": "partial",
     "statement": "forall H assumed, every one of the 4032 HttpClient cells: outside the carve-out nameUnchecked the decision is exact; always version >= 1.2 and never plain"},
    {"id": "C07_T6_only_if", "theorem": "Iora.C07.T6_client_only_if", "kind": "proved",
     "statement": "the property's 'only if' spelled out: announced with verification on => chain, validity, name (by-name), possession, >= TLS 1.2"},
    {"id": "C07_T7_silent", "theorem": "Iora.C07.T7_tls_session_never_clear", "kind": "proved",
     "statement": "forall event sequences (immediate-connect check, epoll events with any handshake answer, sends): a TLS session never writes raw, from doSend or writePending; "
                  "nothing is announced or written before SSL_do_handshake returned 1; every guard fact of Gen is consumed by the machine"},
    {"id": "C07_T7_outcomes", "theorem": "Iora.C07.T7_handshake_outcomes", "kind": "proved",
     "statement": "forall sessions in the handshake: WANT_READ/WRITE changes and emits nothing; a fatal result closes, drops the queue, one onClose"},
    {"id": "C07_T10_settings", "theorem": "Iora.C07.T10_settings_in_force", "kind": "proved",
     "statement": "forall histories of setTlsConfig / requests / DNS accessors: the settings the client context was built from are the ones setTlsConfig accepted last"},
    {"id": "C07_Gen_pins", "theorem": "Iora.C07.Gen_pins", "kind": "proved",
     "statement": "generated facts the model takes for granted: TLS_*_method, set1_host fail-closed, localhost -> 127.0.0.1, redundant announce guard, "
                  "verification-relevant OpenSSL calls confined to the mirrored functions (decide over the call inventory)"},
    {"id": "C07_T8_requested", "theorem": "Iora.C07.T8_requested_tls_never_clear", "kind": "proved",
     "statement": "forall configuration, request != None, event sequence: no application byte goes out in clear (plan + session machine)"},
    {"id": "C07_T8_listener", "theorem": "Iora.C07.T8_listener_tls_never_clear", "kind": "proved",
     "statement": "same for sessions accepted on a listener requested with TLS"},
    {"id": "C07_T1_wrong_role_connect", "theorem": "Iora.C07.T1_wrong_role_connect_refused", "kind": "proved",
     "statement": "forall configuration (server context, client context, both or none exist), files, target: connect(..., TlsMode::Server) is REFUSED (start or connect) - "
                  "never plain, never TLS on the wrong context"},
    {"id": "C07_T1_wrong_role_listen", "theorem": "Iora.C07.T1_wrong_role_listen_refused", "kind": "proved",
     "statement": "forall configuration: addListener(..., TlsMode::Client) is REFUSED whichever contexts exist"},
    {"id": "C07_T1_udp", "theorem": "Iora.C07.T1_udp_never_plain", "kind": "proved",
     "statement": "UdpEngine::connect / addListener with a TLS mode are refused (no DTLS; never a clear datagram session instead)"},
    {"id": "C07_T5_store", "theorem": "Iora.C07.T5_server_store_is_configured", "kind": "proved",
     "statement": "the trust store is a SET that accumulates: for a verifyPeer server `default` (system roots) is NOT in it, so for every system store the "
                  "verification store is exactly the configured CA"},
    {"id": "C07_T7_recv", "theorem": "Iora.C07.T7_recv_only_through_ssl", "kind": "proved",
     "statement": "forall event sequences incl. EPOLLIN with any pending bytes: a TLS session never hands raw ::recv bytes to onData, and delivers NOTHING before "
                  "SSL_do_handshake returned 1 (readAvail guard + both call sites are Gen facts consumed by the machine)"},
    {"id": "C07_T8_recv_connect", "theorem": "Iora.C07.T8_requested_tls_recv", "kind": "proved",
     "statement": "plan + receive machine: forall configuration, request != None, event sequence: no raw delivery, nothing delivered before the handshake succeeded"},
    {"id": "C07_T8_recv_listen", "theorem": "Iora.C07.T8_listener_tls_recv", "kind": "proved",
     "statement": "same for sessions accepted on a listener requested with TLS"},
    {"id": "C07_T10_init_failure", "theorem": "Iora.C07.T10_init_failure_recoverable", "kind": "proved",
     "statement": "forall histories incl. FAILING initialisations: HttpClient never keeps a dead transport; while uninitialised every setTlsConfig is accepted"},
    {"id": "C07_T11_server_history", "theorem": "Iora.C07.T11_server_settings_in_force", "kind": "proved",
     "statement": "forall histories of HttpServer enableTls/start/stop: a started server runs with the settings enableTls accepted last; once an enableTls is "
                  "in force the server never serves clear text, also after restarts"},
    {"id": "C07_T11_enable_effect", "theorem": "Iora.C07.T11_enableTls_effect", "kind": "proved",
     "statement": "an accepted enableTls stores its argument and is accepted only on a server that is not started; start/stop never drop the stored settings"},
    {"id": "C07_T5_http_server_cert", "theorem": "Iora.C07.T5_http_server_presents_cert", "kind": "proved",
     "statement": "HttpServer: whenever enableTls(h) leads to a TLS listener its server context has loaded the certificate and key h names "
                  "(consumes httpServerMap.certFile/keyFile and both enableTls preconditions)"},
    {"id": "C07_T12_service", "theorem": "Iora.C07.T12_service_requested_tls_never_plain", "kind": "proved",
     "statement": "IoraService::applyConfig: forall combinations of the optional server.tls settings and file states: certificate or key named, or client "
                  "certificates required => the webhook server is a TLS listener or the start is refused, never a clear-text listener"},
    {"id": "C07_H_consistent", "theorem": "Iora.C07.assumptions_consistent", "kind": "proved",
     "statement": "the hypotheses about OpenSSL (Handshake.Assumed) are satisfiable: the executable reference is an instance"},
]
ANCHOR_FILES = ["include/iora/network/detail/tcp_engine.hpp", "include/iora/network/http_client.hpp",
                "include/iora/network/http_server.hpp", "include/iora/network/transport_types.hpp", "include/iora/network/detail/udp_engine.hpp", "include/iora/iora.hpp"]
FINDING_HTTP_NAME = "http:verify=1,url=name,scert=wrongname"

CEILS = ["10", "11", "12", "13"]
SCERTS = ["valid", "self", "expired", "wrongname", "mismatch", "sanother", "cnonly"]
TRUSTS = ["right", "wrong", "none"]
CCERTS = ["none", "cvalid", "cuntrusted"]
MINS = ["0", "769", "770", "771", "772"]


# ------------------------------------------------------------------ cell constructors
def cli(api="async", verify=1, trust="right", scert="valid", ceil="13", peer="tls", target="name", minv="0", et=1, batch=0,
        enabled=1, defmode="client", req="client", ciphers=None, other=0, sys=None):
    return "cli %s %d %s %s %s %s %s %s %d %d %d %s %s" % (api, verify, trust, scert, ceil, peer, target, minv, et, batch, enabled, defmode, req) + \
           (" ciphers=%s" % ciphers if ciphers else "") + (" other=1" if other else "") + (" sys=%s" % sys if sys else "")


def srv(verify=0, trust="none", own="valid", ccert="none", ceil="13", peer="tls", minv="0", et=1, batch=0, enabled=1, defmode="server", req="server",
        greet=0, ciphers=None, other=0, sys=None):
    return "srv %d %s %s %s %s %s %s %d %d %d %s %s" % (verify, trust, own, ccert, ceil, peer, minv, et, batch, enabled, defmode, req) + \
           (" greet=1" if greet else "") + (" ciphers=%s" % ciphers if ciphers else "") + (" other=1" if other else "") + (" sys=%s" % sys if sys else "")


def hurl(scheme="https", form="ipport", verify=1, peer="dual"):
    return "hurl %s %s %d %s" % (scheme, form, verify, peer)


def hreconf(v1, trigger, v2):
    return "hreconf %d %s %d" % (v1, trigger, v2)


def hreuse(first, second, verify=0):
    return "hreuse %s %s %d" % (first, second, verify)


SCHEMES = ["https", "HTTPS", "Https", "hTTps", "httpS", "http", "HTTP", "Http"]
BOGUS_MINS = ["773", "65277", "65279", "100000", "768"]      # 0x0305, DTLS1_2_VERSION, DTLS1_VERSION, nonsense, SSL3_VERSION


def http(verify=1, ca="right", sys="empty", scert="valid", url="name", ceil="13", peer="tls"):
    return "http %d %s %s %s %s %s %s" % (verify, ca, sys, scert, url, ceil, peer)


def hsrv(require=0, ca="none", own="valid", ccert="none", ceil="13", peer="tls", sys=None):
    return "hsrv %d %s %s %s %s %s" % (require, ca, own, ccert, ceil, peer) + (" sys=%s" % sys if sys else "")


def hslife(seq, peer):
    return "hslife %s %s" % ("-".join(seq), peer)


def hinit(bad, url):
    return "hinit %s %s" % (bad, url)


def udp(op, req):
    return "udp %s %s" % (op, req)


HS_SEQS = ["S", "ES", "SE", "ESXS", "SXES", "SEXS", "ESE", "EES", "SXS", "ESX", "EXS", "SEE", "SEXES", "ESXSE"]


def random_hs_seq(rng):
    """a call history of one HttpServer: never start() a started server (the second listener could not bind the same port)"""
    out, started = [], False
    for _ in range(rng.range(2, 7)):
        o = rng.choice(["E", "X"] if started else ["E", "S", "S", "X"])
        started = (o == "S") or (started and o != "X")
        out.append(o)
    if not started and rng.chance(3, 4):
        out.append("S")
    return "".join(out)


def case(cat, op, **kw):
    d = {"cat": cat, "ops": [op]}
    d.update(kw)
    return d


def gen_cases(ctx, rng):
    """The matrix is exhaustive in both tiers (default engine options, async API); quick adds seeded samples of the
    other API / epoll / batching variants and of the HTTP front ends, thorough runs EVERY variant over the whole matrix."""
    quick = ctx.tier == "quick"
    cs = [case("certtable", "certtable")]
    base = ("async", 1, 0)
    all_variants = [(api, et, b) for api in ("async", "sync") for (et, b) in ((1, 0), (0, 0), (0, 1), (1, 1))]
    variants = [base] if quick else all_variants

    def client_matrix(api, et, batch, tag):
        out = []
        for verify in (0, 1):
            for trust in TRUSTS:
                for target in ("name", "ip"):
                    for scert in SCERTS:
                        for ceil in CEILS:
                            out.append(case("cli-matrix" + tag, cli(api=api, verify=verify, trust=trust, scert=scert, ceil=ceil, target=target, et=et, batch=batch)))
                    for peer in ("plain", "garbage", "badhello"):
                        out.append(case("cli-nontls" + tag, cli(api=api, verify=verify, trust=trust, peer=peer, target=target, ceil="12", et=et, batch=batch)))
        for minv in MINS:
            for ceil in CEILS:
                out.append(case("cli-min" + tag, cli(api=api, minv=minv, ceil=ceil, et=et, batch=batch)))
        for minv in ("1", "768", "-3"):
            out.append(case("cli-min" + tag, cli(api=api, minv=minv, ceil="11", et=et, batch=batch)))
        # a minVersion the library does not know (or silently ignores), with and without a cipher string that lowers the security level
        for minv in BOGUS_MINS:
            for ceil in ("11", "13"):
                for ciphers in (None, "seclevel0", "noanon0"):
                    out.append(case("cli-min-bogus" + tag, cli(api=api, minv=minv, ceil=ceil, et=et, batch=batch, ciphers=ciphers)))
        for ceil in CEILS:
            out.append(case("cli-min-bogus" + tag, cli(api=api, ceil=ceil, et=et, batch=batch, ciphers="seclevel0")))
        # anonymous key exchange: a peer that shows NO certificate, against the default cipher list (must fail), a string that only
        # lowers the security level (must fail) and a string that enables aNULL (documented: verification is void - outside the property)
        for verify in (0, 1):
            for ciphers in (None, "noanon0", "seclevel0"):
                for ceil in ("12", "13"):
                    out.append(case("cli-anon" + tag, cli(api=api, verify=verify, trust="right" if verify else "none", peer="anon", ceil=ceil, et=et, batch=batch,
                                                          ciphers=ciphers)))
                out.append(case("cli-anon" + tag, cli(api=api, verify=verify, trust="wrong" if verify else "none", ceil="12", et=et, batch=batch, ciphers=ciphers)))
        for trust in ("path", "badfile", "missing"):
            for verify in (0, 1):
                out.append(case("cli-trustform" + tag, cli(api=api, verify=verify, trust=trust, et=et, batch=batch)))
        # request mode x enabled x defaultMode (F18: TLS requested without the matching context)
        # … x which contexts the engine holds: `other=1` = the SERVER context exists as well (wrong-role requests: TlsMode::Server handed to connect)
        for req in ("none", "server", "client"):
            for enabled in (0, 1):
                for defmode in ("none", "server", "client"):
                    for other in (0, 1):
                        out.append(case("mode-connect" + ("/dual" if other else "") + tag,
                                        cli(api=api, verify=0, trust="none", peer="dual", target="ip", enabled=enabled, defmode=defmode, req=req,
                                            et=et, batch=batch, other=other)))
        # a non-empty SYSTEM store next to the configured anchor: the store is a set, and only a client without caFile/caPath may hold `default`
        for verify in (0, 1):
            for trust in TRUSTS:
                for sys in ("right", "wrong"):
                    for scert in ("valid", "self"):
                        out.append(case("cli-sys" + tag, cli(api=api, verify=verify, trust=trust, scert=scert, sys=sys, et=et, batch=batch)))
        # verifyDepth other than the default, and iora PRESENTING a client certificate (client-certificate steps of the client block)
        for depth in ("1", "2", "9"):
            out.append(case("cli-depth" + tag, cli(api=api, et=et, batch=batch) + " depth=" + depth))
        for own in ("cvalid", "cuntrusted"):
            for verify in (0, 1):
                out.append(case("cli-owncert" + tag, cli(api=api, verify=verify, trust="right" if verify else "none", et=et, batch=batch) + " owncert=" + own))
        return out

    def server_matrix(et, batch, tag):
        out = []
        for verify in (0, 1):
            for trust in TRUSTS:
                for own in SCERTS:
                    for ccert in CCERTS:
                        for ceil in CEILS:
                            out.append(case("srv-matrix" + tag, srv(verify=verify, trust=trust, own=own, ccert=ccert, ceil=ceil, et=et, batch=batch)))
                for ceil in ("12", "13"):
                    out.append(case("srv-matrix" + tag, srv(verify=verify, trust=trust, ccert="cexpired", ceil=ceil, et=et, batch=batch)))
                for peer in ("plain", "garbage", "badhello"):
                    out.append(case("srv-nontls" + tag, srv(verify=verify, trust=trust, peer=peer, et=et, batch=batch)))
        for minv in MINS:
            for ceil in CEILS:
                out.append(case("srv-min" + tag, srv(minv=minv, ceil=ceil, et=et, batch=batch)))
        for minv in ("1", "768", "-3"):
            out.append(case("srv-min" + tag, srv(minv=minv, ceil="11", et=et, batch=batch)))
        for minv in BOGUS_MINS:
            for ceil in ("11", "13"):
                for ciphers in (None, "seclevel0", "noanon0"):
                    out.append(case("srv-min-bogus" + tag, srv(minv=minv, ceil=ceil, et=et, batch=batch, ciphers=ciphers)))
        for ceil in CEILS:
            out.append(case("srv-min-bogus" + tag, srv(ceil=ceil, et=et, batch=batch, ciphers="seclevel0")))
        for verify in (0, 1):
            for ciphers in (None, "noanon0", "seclevel0"):
                for ceil in ("12", "13"):
                    out.append(case("srv-anon" + tag, srv(verify=verify, trust="right" if verify else "none", peer="anon", ceil=ceil, et=et, batch=batch,
                                                          ciphers=ciphers)))
                out.append(case("srv-anon" + tag, srv(verify=verify, trust="right" if verify else "none", ccert="cuntrusted", ceil="12", et=et, batch=batch,
                                                      ciphers=ciphers)))
        # a server that sends first (greeting from onAccept, i.e. before the handshake of the accepted session has run)
        for peer in ("plainread", "tls", "plain"):
            for ceil in ("12", "13"):
                out.append(case("srv-greet" + tag, srv(peer=peer, ceil=ceil, greet=1, et=et, batch=batch)))
                out.append(case("srv-greet" + tag, srv(verify=1, trust="right", ccert="cvalid", peer=peer, ceil=ceil, greet=1, et=et, batch=batch)))
            out.append(case("srv-greet" + tag, srv(verify=1, trust="right", ccert="none", peer=peer, greet=1, et=et, batch=batch)))
        for req in ("none", "server", "client"):
            for enabled in (0, 1):
                for defmode in ("none", "server"):
                    for other in (0, 1):
                        if other and quick and req != "client":
                            continue          # quick: on a dual-role engine only the wrong-role request (thorough: all)
                        out.append(case("srv-greet" + ("/dual" if other else "") + tag,
                                        srv(peer="plainread", enabled=enabled, defmode=defmode, req=req, greet=1, et=et, batch=batch, other=other)))
        for trust in ("path", "badfile", "missing"):
            for verify in (0, 1):
                out.append(case("srv-trustform" + tag, srv(verify=verify, trust=trust, ccert="cvalid", et=et, batch=batch)))
        for own in ("nocert", "unreadable"):
            out.append(case("srv-owncert" + tag, srv(own=own, et=et, batch=batch)))
        for req in ("none", "server", "client"):
            for enabled in (0, 1):
                for defmode in ("none", "server", "client"):
                    for peer in ("plain", "tls"):
                        for other in (0, 1):
                            if other and quick and (req == "none" or peer == "tls"):
                                continue      # quick: dual-role engine x TLS request x plaintext peer (thorough: all)
                            out.append(case("mode-listen" + ("/dual" if other else "") + tag,
                                            srv(peer=peer, enabled=enabled, defmode=defmode, req=req, et=et, batch=batch, other=other)))
        # mTLS server with a NON-EMPTY system store: a client certificate of a CA that only the system store knows must be rejected
        for trust in ("right", "wrong"):
            for ccert in ("cvalid", "cuntrusted", "none"):
                for sys in ("right", "wrong"):
                    out.append(case("srv-sys" + tag, srv(verify=1, trust=trust, ccert=ccert, sys=sys, et=et, batch=batch)))
        for depth in ("1", "2", "9"):
            out.append(case("srv-depth" + tag, srv(verify=1, trust="right", ccert="cvalid", et=et, batch=batch) + " depth=" + depth))
        return out

    for api, et, batch in variants:
        tag = "" if (api, et, batch) == base else "/%s,et=%d,batch=%d" % (api, et, batch)
        cs += client_matrix(api, et, batch, tag)
        if api == "async":
            cs += server_matrix(et, batch, tag)
    if quick:
        # seeded sample of the other variants
        ext = []
        for api, et, batch in all_variants[1:]:
            ext += client_matrix(api, et, batch, "/variant")
            if api == "async":
                ext += server_matrix(et, batch, "/variant")
        rng.shuffle(ext)
        cs += ext[:60]
    # ---- HttpClient
    hc = []
    for verify in (0, 1):
        for ca in TRUSTS:
            for sys in ("empty", "right", "wrong"):
                for scert in SCERTS:
                    for url in ("name", "ip"):
                        for ceil in (("13",) if quick else CEILS):
                            hc.append(http(verify=verify, ca=ca, sys=sys, scert=scert, url=url, ceil=ceil))
    hc_extra = [http(verify=v, ca="right", ceil=c, peer=p) for v in (0, 1) for c in CEILS for p in ("tls", "plain", "garbage", "badhello")]
    hc_fixed = [http(verify=1, ca="right", scert=s, url=u) for s in ("valid", "wrongname", "expired", "self") for u in ("name", "ip")] + \
               [http(verify=1, ca="none", sys="right", scert="wrongname"), http(verify=1, ca="wrong", sys="right"), http(verify=1, ca="right", sys="wrong"),
                http(verify=0, ca="none", scert="self"), http(verify=1, ca="right", peer="plain"), http(verify=1, ca="right", ceil="11"),
                http(verify=1, ca="right", scert="mismatch", ceil="12"), http(verify=0, ca="none", scert="mismatch", ceil="12")]
    if quick:
        rng.shuffle(hc)
        hc = hc[:30]
        rng.shuffle(hc_extra)
        hc_extra = hc_extra[:6]
    cs += [case("http", o) for o in hc_fixed + hc + hc_extra]
    # ---- HttpClient: URL spellings (scheme case, host form, default port) against a peer that answers plaintext with plaintext
    for scheme in SCHEMES:
        for form in ("ipport", "nameport", "noport"):
            for verify in (0, 1):
                cs.append(case("url-scheme", hurl(scheme, form, verify)))
    if not quick:
        for scheme in ("https", "HTTPS"):
            for form in ("userinfo", "userat", "dotname", "ip6", "upperhost"):
                cs.append(case("url-odd", hurl(scheme, form, 1)))
    # ---- HttpClient: connection cache across schemes (one client, two requests to the same host:port)
    for first in ("http", "https"):
        for second in ("http", "https"):
            for verify in (0, 1):
                cs.append(case("reuse", hreuse(first, second, verify)))
    # ---- HttpClient: configuration history (setTlsConfig before / after the transport exists), server certificate SELF-SIGNED
    for v1 in (0, 1):
        for trigger in ("get", "dns", "none"):
            for v2 in (0, 1):
                cs.append(case("reconf", hreconf(v1, trigger, v2)))
    # ---- HttpServer
    hs = [hsrv(require=r, ca=ca, own=own, ccert=cc, ceil=ceil) for r in (0, 1) for ca in TRUSTS for own in SCERTS for cc in CCERTS + ["cexpired"]
          for ceil in (("13",) if quick else ("12", "13"))]
    hs += [hsrv(peer=p) for p in ("plain", "garbage", "badhello")] + [hsrv(ceil=c) for c in CEILS]
    hs_fixed = [hsrv(require=1, ca="right", ccert=cc) for cc in CCERTS] + [hsrv(require=1, ca="none", ccert="cvalid"), hsrv(require=0, ca="none")]
    if quick:
        rng.shuffle(hs)
        hs = hs[:10]
    cs += [case("hsrv", o) for o in hs_fixed + hs]
    cs += [case("hsrv-sys", hsrv(require=1, ca=ca, ccert=cc, sys=sy)) for ca in ("right", "wrong") for cc in ("cvalid", "cuntrusted") for sy in ("right", "wrong")]
    # ---- HttpServer: call histories (enableTls before / after start, restarts), then one request by a TLS and by a plaintext client
    fixed_seqs = list(HS_SEQS)
    rnd_seqs = [q for q in dict.fromkeys(random_hs_seq(rng) for _ in range(5 if quick else 120)) if q not in fixed_seqs]
    for q in fixed_seqs + rnd_seqs:
        for peer in ("tls", "plain"):
            if quick and peer == "tls" and (q in rnd_seqs or q in ("ESE", "EES", "SEE", "ESX", "EXS", "SXS")):
                continue                      # quick: the plaintext client is the one that exposes a clear listener
            cs.append(case("hsrv-history", hslife(q, peer)))
    # ---- HttpClient: the first initialisation FAILS (unloadable caFile), the settings are corrected, next request by name / by address
    for bad in ("badfile", "missing"):
        for url in ("name", "ip"):
            cs.append(case("http-init-failure", hinit(bad, url)))
    hc_bad = [http(verify=v, ca=bad, url=u) for v in (0, 1) for bad in ("badfile", "missing") for u in ("name", "ip")]
    cs += [case("http-badca", o) for o in hc_bad]
    # ---- UdpEngine: a TLS mode on the datagram transport
    for op in ("connect", "listen"):
        for req in ("none", "server", "client"):
            cs.append(case("udp", udp(op, req)))
    return cs


# ------------------------------------------------------------------ property monitors (implementation output + what the generator encoded)
CERT_FACTS = {  # by construction of the certificate factory (and confirmed by the `certtable` line)
    "valid": dict(issuer="right", time=True, name=True, key=True), "self": dict(issuer="self", time=True, name=True, key=True),
    "expired": dict(issuer="right", time=False, name=True, key=True), "wrongname": dict(issuer="right", time=True, name=False, key=True),
    "mismatch": dict(issuer="right", time=True, name=True, key=False),
    # subject CN = host but the dNSName SAN names another host only: NOT an identity for the host; CN only, no SAN: is one
    "sanother": dict(issuer="right", time=True, name=False, key=True), "cnonly": dict(issuer="right", time=True, name=True, key=True),
    "cvalid": dict(issuer="right", time=True, key=True), "cuntrusted": dict(issuer="wrong", time=True, key=True), "cexpired": dict(issuer="right", time=False, key=True),
}
CERTTABLE_EXPECT = ("valid:right=1,wrong=0,time=1,name=1,ip=1,key=1 self:right=0,wrong=0,time=1,name=1,ip=1,key=1 "
                    "expired:right=1,wrong=0,time=0,name=1,ip=1,key=1 wrongname:right=1,wrong=0,time=1,name=0,ip=0,key=1 "
                    "mismatch:right=1,wrong=0,time=1,name=1,ip=1,key=0 sanother:right=1,wrong=0,time=1,name=0,ip=0,key=1 "
                    "cnonly:right=1,wrong=0,time=1,name=1,ip=0,key=1 cvalid:right=1,wrong=0,time=1,name=0,ip=0,key=1 "
                    "cuntrusted:right=0,wrong=1,time=1,name=0,ip=0,key=1 cexpired:right=1,wrong=0,time=0,name=0,ip=0,key=1")


def parse_line(l):
    head, _, diag = l.partition(" | ")
    d = {}
    for tok in head.split(" "):
        k, _, v = tok.partition("=")
        d[k] = v
    d["diag"] = dict(t.partition("=")[::2] for t in diag.split(" ") if "=" in t)
    return d


def cell_of(op):
    d = _cell_of(op)
    d["opts"] = dict(tok.partition("=")[::2] for tok in op.split() if "=" in tok)
    if d["kind"] == "cli":
        # the anchor a Transport client is configured with: its caFile, or - with neither caFile nor caPath - the system store (default paths)
        d["cafile"] = d["trust"]
        if d["trust"] == "none" and d["opts"].get("sys") in ("right", "wrong"):
            d["trust"] = d["opts"]["sys"]
    return d


def _cell_of(op):
    t = [tok for tok in op.split() if "=" not in tok]
    if t[0] == "cli":
        return dict(kind="cli", api=t[1], verify=t[2] == "1", trust=t[3], scert=t[4], ceil=t[5], peer=t[6], target=t[7], min=int(t[8]), req=t[13],
                    enabled=t[11] == "1", defmode=t[12])
    if t[0] == "srv":
        return dict(kind="srv", verify=t[1] == "1", trust=t[2], own=t[3], ccert=t[4], ceil=t[5], peer=t[6], min=int(t[7]), req=t[12], enabled=t[10] == "1", defmode=t[11])
    if t[0] == "http":
        # the anchor an HttpClient is configured with: its caFile, or - without one - the system store
        eff = t[2] if t[2] in ("right", "wrong") else {"right": "right", "wrong": "wrong"}.get(t[3], "none")
        return dict(kind="http", verify=t[1] == "1", trust=eff, cafile=t[2], sys=t[3], scert=t[4], target=t[5], ceil=t[6], peer=t[7], req="client")
    if t[0] == "hurl":
        secure = t[1].lower() == "https"
        return dict(kind="hurl", scheme=t[1], form=t[2], verify=t[3] == "1", trust="right" if t[3] == "1" else "none", scert="valid",
                    target="name" if t[2] in ("nameport", "dotname", "upperhost") else "ip", peer=t[4], req="client" if secure else "none")
    if t[0] == "hreuse":
        return dict(kind="hreuse", first=t[1], second=t[2], verify=t[3] == "1", req="mixed")
    if t[0] == "hreconf":
        return dict(kind="hreconf", v1=t[1] == "1", trigger=t[2], v2=t[3] == "1", req="client")
    if t[0] == "hsrv":
        return dict(kind="hsrv", verify=t[1] == "1", trust=t[2], own=t[3], ccert=t[4], ceil=t[5], peer=t[6], req="server")
    if t[0] == "hslife":
        return dict(kind="hslife", seq=t[1], peer=t[2], req="history", verify=False, ccert="none", trust="none")
    if t[0] == "hinit":
        return dict(kind="hinit", bad=t[1], url=t[2], req="client")
    if t[0] == "udp":
        return dict(kind="udp", op=t[1], req=t[2], verify=False)
    return dict(kind=t[0])


def monitor(op, impl):
    """Property failures visible in the implementation's own line for this cell. Returns (failures, finding_key or None)."""
    c = cell_of(op)
    if c["kind"] == "certtable":
        return (["factory: generated certificates are not what the matrix assumes: %s" % impl] if impl != CERTTABLE_EXPECT else []), None
    if impl.startswith("throw") or impl.startswith("crash:") or impl == "bad-op":
        return ["harness: cell did not run: %s" % impl], None
    o = parse_line(impl)
    bad = []
    if c["kind"] == "hreuse":
        if o.get("secure_in_clear") == "1":
            bad.append("no-downgrade: an https request was carried by a cached PLAIN connection to the same host:port (requests %s then %s, %s connection(s))"
                       % (c["first"], c["second"], o.get("conns")))
        return bad, None
    if c["kind"] == "hinit":
        d = parse_line(impl)
        if d.get("set2") == "throw":
            bad.append("init-failure: after a FAILED first initialisation (unloadable caFile) HttpClient kept a dead transport: setTlsConfig with corrected "
                       "settings is refused, every later request fails, and a request to a host NAME dereferences the DNS client that was never created "
                       "(fails closed - no byte in clear - but the client is bricked; repaired by FC07e)")
        if d["diag"].get("cleartext") == "1":
            bad.append("no-downgrade: an https request of HttpClient put application bytes on the wire in clear text")
        if d.get("set2") == "ok" and d.get("r1") == "200":
            bad.append("client-auth: an https request succeeded although the configured caFile cannot be loaded")
        return bad, None
    if c["kind"] == "hreconf":
        if o.get("set2") == "ok" and c["v2"] and o.get("r2") == "200":
            bad.append("client-auth: setTlsConfig{verifyPeer=true} was accepted, yet the next https request returned 200 from a server with a SELF-SIGNED "
                       "certificate (context verify flags %s; first configuration verifyPeer=%s, initialised by %s)" % (o.get("verify2"), c["v1"], c["trigger"]))
        return bad, None
    if o.get("plan") == "skip":
        return [], None
    # a cipher string that enables anonymous key exchange makes certificate verification void by configuration: such cells are
    # documented by the lockstep (ctx.assumptions), the authentication monitors do not apply to them
    anon_enabled = c["opts"].get("ciphers") == "seclevel0" and c.get("peer") == "anon"
    connected, appdata, clear = o.get("connected") == "1", o.get("appdata") == "1", o.get("cleartext") == "1"
    finding = None
    if c["kind"] == "hslife":
        accepted = "ok" in o.get("en", "-").split(",")
        if accepted and (o.get("plan") == "plain" or clear):
            bad.append("no-downgrade: HttpServer::enableTls was ACCEPTED (calls %s, results %s) yet the server answered the next request in clear text "
                       "(plan=%s, %s client, served=%s): TLS was requested and is not in force" % (c["seq"], o.get("en"), o.get("plan"), c["peer"], o.get("appdata")))
        if accepted and o.get("plan", "").startswith("tls") and (connected or appdata) and o.get("version") not in ("1.2", "1.3"):
            bad.append("version: HttpServer with enableTls in force served a request at protocol version %s" % o.get("version"))
        if appdata and not connected:
            bad.append("announce: application data exchanged on a session that was never announced")
        return bad, None
    hs = re.search(r"hs=\(verify=([^,]*),depth=(-?\d+),hostflags=(\d+),host=([^)]*)\)", o.get("plan", ""))
    if hs:
        hv, hd, hf, hh = hs.group(1), int(hs.group(2)), int(hs.group(3)), hs.group(4)
        if hf != 0:
            bad.append("name-policy: the SSL object entered its handshake with X509 host flags %#x (the name check must run with the library default, 0: "
                       "e.g. ALWAYS_CHECK_SUBJECT accepts a subject CN although the dNSName SAN names other hosts)" % hf)
        if c.get("verify") and c["kind"] in ("cli", "srv", "http", "hurl", "hsrv") and "PEER" not in hv.split("+"):
            bad.append("verify-mode: verification is configured on but the SSL object entered its handshake with verify mode %s" % hv)
        if c.get("verify") and c["kind"] in ("srv", "hsrv") and "FAIL_IF_NO_PEER_CERT" not in hv.split("+"):
            bad.append("verify-mode: client certificates are required but the SSL object entered its handshake with verify mode %s" % hv)
        if c.get("verify") and c["kind"] == "cli" and c.get("target") == "name" and hh != "localhost":
            bad.append("name-binding: connecting by name with verification on, but the host bound on the SSL object at handshake time is %r" % hh)
        tm = re.search(r"trust=([a-z+]+),", o.get("plan", ""))
        tset = set(tm.group(1).split("+")) if tm else set()
        if "default" in tset and c["kind"] in ("srv", "hsrv"):
            bad.append("trust-store: the server context's verification store ALSO holds the system roots (trust=%s): client certificates of any publicly "
                       "trusted CA would be admitted next to the configured one" % tm.group(1))
        if "default" in tset and c["kind"] in ("cli", "http") and c.get("verify") and (c.get("cafile", c.get("trust")) in ("right", "wrong")):
            bad.append("trust-store: a client configured with its own CA file ALSO trusts the system roots (trust=%s)" % tm.group(1))
        want_depth = int(c["opts"].get("depth", "4"))
        if hd != want_depth:
            bad.append("verify-depth: the SSL object entered its handshake with verify depth %d (configured: %d)" % (hd, want_depth))
    if c["req"] != "none" and clear:
        bad.append("no-downgrade: a session requested with TLS carried application bytes in clear text (plan=%s)" % o.get("plan"))
    if c["req"] != "none" and o.get("plan") == "plain":
        bad.append("no-downgrade: a session requested with TLS was created as a plain session")
    if c["req"] != "none" and (connected or appdata):
        if o.get("version") not in ("1.2", "1.3"):
            bad.append("version: session announced at protocol version %s (< TLS 1.2)" % o.get("version"))
        if "wirever" in o["diag"] and o["diag"].get("wirever") not in ("1.2", "1.3"):
            bad.append("version: ServerHello on the wire announces %s (< TLS 1.2)" % o["diag"].get("wirever"))
    if appdata and not connected:
        bad.append("announce: application data exchanged on a session that was never announced")
    if c["req"] != "none" and c["kind"] in ("cli", "srv") and o["diag"].get("rxodd") == "1" and c.get("peer") in ("tls", "dual", "plain", "plainread"):
        bad.append("raw-delivery: on a session requested with TLS, onData received %s byte(s) that the peer never sent as application data (bytes taken "
                   "off the socket without passing SSL_read: ciphertext / handshake records, or a plaintext peer's bytes)" % o["diag"].get("rx"))
    if c["req"] != "none" and c["kind"] in ("cli", "srv") and int(o["diag"].get("rx", "0") or 0) > 0 and not connected:
        bad.append("early-delivery: onData fired (%s byte(s)) on a session requested with TLS whose handshake never completed" % o["diag"].get("rx"))
    if c["kind"] in ("cli", "http", "hurl") and c["req"] == "client" and c["verify"] and (connected or appdata) and not anon_enabled:
        f = CERT_FACTS[c["scert"]]
        why = []
        if f["issuer"] != c["trust"]:
            why.append("certificate does not chain to the configured anchor (issuer=%s, configured=%s)" % (f["issuer"], c["trust"]))
        if not f["time"]:
            why.append("certificate is expired")
        if not f["key"]:
            why.append("peer does not own the certificate's key")
        if c["peer"] == "anon":
            why.append("peer showed no certificate at all (anonymous key exchange)")
        elif c["peer"] not in ("tls", "dual"):
            why.append("peer does not speak TLS")
        name_bad = c["target"] == "name" and not f["name"]
        if name_bad and not why and c["kind"] == "http":
            finding = FINDING_HTTP_NAME
        elif name_bad:
            why.append("certificate is not issued for the host name connected to")
        if why:
            bad.append("client-auth: connected with verification on although " + "; ".join(why))
    if c["kind"] in ("srv", "hsrv") and c["req"] == "server" and c["verify"] and (connected or appdata):
        why = []
        if c["peer"] == "anon":
            why.append("the client showed no certificate (anonymous key exchange)")
        elif c["ccert"] == "none":
            why.append("the client presented no certificate")
        else:
            f = CERT_FACTS[c["ccert"]]
            if f["issuer"] != c["trust"]:
                why.append("client certificate does not chain to the configured anchor (issuer=%s, configured=%s)" % (f["issuer"], c["trust"]))
            if not f["time"]:
                why.append("client certificate is expired")
        if why:
            bad.append("server-auth: a server requiring client certificates admitted a client although " + "; ".join(why))
    return bad, finding


def known_keys():
    keys = {d.get("key") for d in load_known_findings() if d.get("kind") == "finding" and d.get("property") == ID}
    extra = os.environ.get("VERIF_KNOWN_FINDINGS_EXTRA")
    if extra and os.path.exists(extra):
        import re
        for l in open(extra):
            if l.startswith("finding:") and "property=%s" % ID in l:
                m = re.search(r"key=(\S+)", l)
                if m:
                    keys.add(m.group(1))
    return keys


def head(l):
    return l.partition(" | ")[0]


def replay(ctx):
    """Re-run the cell(s) of a replay file on the real code and the model; exit 1 if the failure is still there."""
    obj = json.load(open(ctx.replay))
    ops = obj.get("ops") or []
    ctx.translate(["tls"])
    ctx.lake_build(MODULES)
    hb = ctx.build_harness("harness/c07_tls.cpp", sanitize=True, opt="-O0")
    if not hb or not ops:
        print("replay: nothing to run (kind=%s)" % obj.get("kind"))
        return 1 if ctx.violations else 0
    still = False
    # `svc` cells are decided on the model of the condition translated from iora.hpp (no harness counterpart)
    svc_ops = [o for o in ops if o.startswith("svc ")]
    ops = [o for o in ops if not o.startswith("svc ")]
    if svc_ops:
        out = ctx.run_lines(ctx.model_argv("tls"), svc_ops, timeout=60)[0]
        for o, l in zip(svc_ops, out):
            t_ = o.split()
            bad = "1" in (t_[1], t_[2], t_[4]) and l == "plan=plain"
            print("op    %s\n model(translated condition) %s%s" % (o, l, "\nPROPERTY FAILS: TLS requested, webhook server plain" if bad else ""))
            still = still or bad
    res = ctx.lockstep("tls", hb, [case("replay", o) for o in ops], timeout=600, impl_env={"C07_WORK": os.path.join(ctx.work, "certs")}) if ops else []
    for c, impl, model in res:
        fails, finding = monitor(c["ops"][0], impl[0])
        print("op    %s\n impl  %s\n model %s" % (c["ops"][0], impl[0][:300], model[0][:300]))
        for f in fails:
            print("PROPERTY FAILS:", f[:300])
        if finding:
            print("counted under recorded finding:", finding)
        still = still or bool(fails) or head(impl[0]) != model[0]
    print("replay: %s" % ("still failing" if still else "no longer failing"))
    import shutil
    shutil.rmtree(ctx.work, ignore_errors=True)
    return 1 if still else 0


def run(ctx: Ctx):
    if ctx.replay:
        return replay(ctx)
    quick = ctx.tier == "quick"
    rng = ctx.rng
    ctx.translate(["tls"])
    ok_build = ctx.lake_build(MODULES + ["iora_model"])
    if ok_build:
        ctx.audit(MODULES, OBLIGATIONS)
        if not quick:
            ctx.leanchecker(MODULES + ["IoraModel.Lemmas.TlsPlan", "IoraModel.Lemmas.TlsMatrixCli", "IoraModel.Lemmas.TlsMatrixSrv", "IoraModel.Lemmas.TlsMatrixHttp", "IoraModel.Model.TlsPlan", "IoraModel.Model.TlsLife", "IoraModel.Lemmas.TlsLife",
                                       "IoraModel.Gen.TlsCalls", "IoraModel.Model.TlsTypes"])
    else:
        ctx.cov["obligations"] = len(OBLIGATIONS)
    hb = ctx.build_harness("harness/c07_tls.cpp", sanitize=True, opt="-O0")
    dist, outcomes = {}, {"connected": 0, "refused": 0, "handshake-failed": 0, "plain": 0}
    branches = {}

    def bump(k):
        branches[k] = branches.get(k, 0) + 1
    finding_cells = []
    margv = None
    try:
        margv = ctx.model_argv("tls")
    except ModelBuildError:
        pass        # recorded as a violation; the implementation-only monitors below still run
    if hb:
        corpus = load_corpus()
        gen = gen_cases(ctx, rng.fork("cells"))
        first, rest = gen[:1], gen[1:]
        rng.fork("order").shuffle(rest)
        cases = first + corpus + rest
        env = {"C07_WORK": os.path.join(ctx.work, "certs")}
        allc = cases + [case("fires", "fires")]
        if margv:
            res = ctx.lockstep("tls", hb, allc, timeout=1500, impl_env=env)
        else:
            out, _, _ = ctx.run_lines([hb], [c["ops"][0] for c in allc], timeout=1500, env=env)
            out += ["crash:harness-died"] * (len(allc) - len(out))
            res = [(c, [l], [l.partition(" | ")[0]]) for c, l in zip(allc, out)]
        fires = res[-1][1][0]
        res = res[:-1]
        ctx.extra["interposer_fires"] = dict(t.partition("=")[::2] for t in fires.split()[1:])
        mism = []
        for c, impl, model in res:
            op, il, ml = c["ops"][0], impl[0], model[0]
            dist[c["cat"]] = dist.get(c["cat"], 0) + 1
            o = parse_line(il) if il.startswith("plan=") or il.startswith("r1=") else {}
            plan = o.get("plan", "")
            outcomes["connected" if o.get("connected") == "1" and plan.startswith("tls") else "plain" if plan == "plain" else
                     "refused" if plan.startswith("refuse") else "handshake-failed"] += 1
            ctx.count_case(op, nontrivial=plan.startswith("tls") or plan.startswith("refuse"))
            cc = cell_of(op)
            if plan.startswith("refuse"):
                bump("refused-at:" + plan[7:-1])
            elif plan.startswith("tls("):
                pm = re.match(r"tls\(role=(\w+),verify=([A-Z_+]+),min=(\d+),trust=([a-z+]+),cert=(\d),host=([^,]*),sni=([^,]*),hs=(-|\()", plan)
                if pm:
                    bump("ctx-role:" + pm.group(1)); bump("ctx-verify:" + pm.group(2)); bump("ctx-trust-set:" + pm.group(4)); bump("ctx-min:" + pm.group(3))
                    bump("host-bound:" + ("yes" if pm.group(6) != "-" else "no")); bump("sni:" + ("yes" if pm.group(7) != "-" else "no"))
                    bump("handshake-driven:" + ("no" if pm.group(8) == "-" else "yes"))
            elif plan:
                bump("plan:" + plan)
            if cc.get("req") in ("server", "client") and cc["kind"] in ("cli", "srv", "udp"):
                wrong = (cc["kind"] == "cli" and cc["req"] == "server") or (cc["kind"] == "srv" and cc["req"] == "client")
                bump("request-role:" + ("wrong" if wrong else "right") + ("/other-context-exists" if cc["opts"].get("other") == "1" else "") +
                     ("/udp" if cc["kind"] == "udp" else ""))
            if cc["opts"].get("sys") in ("right", "wrong") or cc.get("sys") in ("right", "wrong"):
                bump("system-store:non-empty/" + cc["kind"])
            if cc["kind"] == "hslife":
                for e in o.get("en", "-").split(","):
                    bump("enableTls:" + e)
                bump("server-history:" + ("restart" if cc["seq"].count("S") > 1 else "enable-after-start" if "S-E" in cc["seq"] else "simple"))
            if cc["kind"] == "hinit":
                bump("http-init-failure:set2=" + o.get("set2", "?") + ",r2=" + o.get("r2", "?"))
            if o.get("cleartext") == "1":
                bump("cleartext-on-wire:" + ("requested-plain" if cc.get("req") in ("none", "history") or plan == "plain" else "REQUESTED-TLS"))
            if o.get("appdata") == "1":
                bump("delivered-to-application:" + ("after-announce" if o.get("connected") == "1" else "BEFORE-ANNOUNCE"))
            if len(ctx.cov["samples"]) < 6 and rng.chance(1, 120):
                ctx.sample({"op": op, "impl": il[:300], "model": ml})
            fails, finding = monitor(op, il)
            if finding:
                finding_cells.append((op, il, ml))
            if fails:
                # one report per failing monitor class of the cell (a read-back failure must not hide the authentication failure it causes)
                seen_cls = set()
                for f in fails:
                    k = f.split(":")[0]
                    if k not in seen_cls:
                        seen_cls.add(k)
                        ctx.violation("property", f, {"ops": [op], "observed": [il], "expected_by_model": [ml], "failures": fails, "category": c["cat"]}, found_input=True)
            elif head(il) != ml and not (c["cat"] == "url-odd" or il.startswith("plan=skip")):
                mism.append((c, il, ml))
            if il.startswith("plan=skip"):
                ctx.extra["cells_skipped_default_ports_busy"] = ctx.extra.get("cells_skipped_default_ports_busy", 0) + 1
        # a disagreement that no monitor explains may be a timing accident of the real handshake: run those cells once more, alone
        if mism:
            slow_env = dict(env)
            slow_env["C07_SLOW"] = "4"      # every settle window x4: a disagreement that was a timing accident under CPU contention disappears
            again, _, _ = ctx.run_lines([hb], [c["ops"][0] for c, _, _ in mism], timeout=1500, env=slow_env)
            again += ["crash:rerun"] * (len(mism) - len(again))
            ctx.extra["cells_rerun_solo_x4_windows"] = len(mism)
            ctx.extra["timing_mismatches_classified_as_machinery"] = [c["ops"][0] for (c, il, ml), il2 in zip(mism, again)
                                                                      if head(il2) == ml and not monitor(c["ops"][0], il2)[0]]
            for (c, il, ml), il2 in zip(mism, again):
                fails, _ = monitor(c["ops"][0], il2)
                if fails:
                    ctx.violation("property", fails[0], {"ops": c["ops"], "observed": [il2], "expected_by_model": [ml], "failures": fails}, found_input=True)
                elif head(il2) != ml:
                    ctx.violation("correspondence", "model and implementation disagree on a matrix cell (no property monitor fails): `%s` impl=`%s` model=`%s`"
                                  % (c["ops"][0], head(il2), ml),
                                  {"broken": {"correspondence": "tls lockstep (harness/c07_tls.cpp vs Model/TlsPlan.lean + Gen/TlsCalls.lean)", "detail": il2},
                                   "ops": c["ops"], "observed": [il, il2], "expected_by_model": [ml]}, found_input=False)
        # ---- IoraService::applyConfig (application glue): the 16 combinations of the optional server.tls settings, decided on the condition the
        # translator took from iora.hpp (the service singleton is not run inside the harness; executed witness: corpus/C07/FC07f-*.probe.cpp)
        if margv:
            svc_lines = ["svc %d %d %d %d" % (a, b, c_, d) for a in (1, 0) for b in (1, 0) for c_ in (0, 1) for d in (0, 1)]   # the executed witness first
            svc_out = ctx.run_lines(margv, svc_lines, timeout=60)[0]
            for l, o_ in zip(svc_lines, svc_out):
                t_ = l.split()
                dist["service-config(model of the translated condition)"] = dist.get("service-config(model of the translated condition)", 0) + 1
                bump("service-tls:" + ("requested" if "1" in (t_[1], t_[2], t_[4]) else "not-requested") + "->" + o_.partition("(")[0].replace("plan=", ""))
                if "1" in (t_[1], t_[2], t_[4]) and o_ == "plan=plain":
                    ctx.violation("property", "no-downgrade: IoraService with server.tls certFile=%s keyFile=%s caFile=%s requireClientCert=%s starts its webhook server in "
                                  "CLEAR TEXT although TLS was requested (decided on the `hasTls` condition translated from iora.hpp; executed witness: "
                                  "corpus/C07/FC07f-service-cert-key-without-ca.probe.cpp)" % tuple(t_[1:5]),
                                  {"ops": [l], "observed": [o_], "layer": "model of the translated condition"}, found_input=True)
        # ---- recorded finding F20-http: replay its witness; it must still reproduce AND be listed
        wit = http(verify=1, ca="right", sys="empty", scert="wrongname", url="name")
        wl, _, _ = ctx.run_lines([hb], [wit], timeout=300, env=env)
        wm = ctx.run_lines(margv, [wit], timeout=60)[0] if margv else [wl[0].partition(" | ")[0]] if wl else []
        reproduces = bool(wl) and parse_line(wl[0]).get("connected") == "1"
        model_says = bool(wm) and parse_line(wm[0]).get("connected") == "1"
        ctx.extra["finding_F20_http"] = {"witness": wit, "reproduces": reproduces, "model_predicts": model_says, "cells_counted_under_it": len(finding_cells)}
        if reproduces and FINDING_HTTP_NAME in known_keys():
            ctx.known_lines.append("KNOWN-FINDING: property=C07 id=F20-http HttpClient https://<name> with verifyPeer accepts a certificate issued for another name "
                                   "(name resolved before connect; %d matrix cell(s) counted under it)" % len(finding_cells))
        elif reproduces:
            ctx.violation("property", "client-auth: HttpClient connected to https://localhost with verification on although the certificate is issued for other.example "
                          "(finding F20-http is not listed in KNOWN_FINDINGS.txt)", {"ops": [wit], "observed": wl, "expected_by_model": wm}, found_input=True)
        if reproduces != model_says:
            ctx.violation("correspondence", "the recorded finding F20-http no longer matches the code (witness reproduces=%s, model predicts=%s): the refuted theorem "
                          "T4_http_refuted no longer describes the source" % (reproduces, model_says),
                          {"broken": {"correspondence": "F20-http witness", "detail": (wl or ["?"])[0]}, "ops": [wit]}, found_input=False)
        if finding_cells and not reproduces:
            ctx.violation("property", "client-auth: HttpClient accepted a wrong-name certificate in a matrix cell but the recorded witness does not reproduce",
                          {"ops": [finding_cells[0][0]], "observed": [finding_cells[0][1]]}, found_input=True)
    ctx.extra.setdefault("cells_skipped_default_ports_busy", 0)
    ctx.extra.setdefault("cells_rerun_solo_x4_windows", 0)
    ctx.extra.setdefault("timing_mismatches_classified_as_machinery", [])
    if ctx.extra["cells_skipped_default_ports_busy"]:
        ctx.notes.append("%d no-port URL cell(s) could not bind 127.0.0.1:443/80 and were skipped" % ctx.extra["cells_skipped_default_ports_busy"])
    # branch / kind counters MEASURED on the implementation's own lines of this run (which decision branches the correspondence run reached)
    for k, v in sorted(branches.items()):
        dist["branch:" + k] = v
    ctx.extra["input_distribution"] = dist
    ctx.extra["outcome_distribution"] = outcomes
    ctx.extra["repo_tree_sha"] = ctx.repo_tree_sha(ANCHOR_FILES)
    ctx.extra["refuted"] = [{"statement": "Iora.C07.T4_http_statement", "refutation": "Iora.C07.T4_http_refuted", "finding": "F20-http", "witness": "http 1 right empty wrongname name 13 tls"},
                            {"statement": "Iora.C07.T6_http_statement", "refutation": "Iora.C07.T6_http_refuted", "finding": "F20-http", "witness": "http 1 right empty wrongname name 13 tls",
                             "partial": "Iora.C07.T6_http_partial", "carve_out": "HttpCell.nameUnchecked (verify && url host is a name && certificate not issued for it)"}]
    ctx.extra["not_proved"] = [
        "X.509 path validation, signature checks and the record layer are OpenSSL's: they are the parameter H with the hypotheses Handshake.Assumed, not theorems "
        "(the exhaustive matrix correspondence checks them against the installed library)",
        "T4 for the HttpClient path at full strength (refuted: F20-http); only the unresolved-name case is proved",
        "the session machine of T7/T8 (send side) and its receive side (T7_recv: readAvail + both call sites) consume 16 translator facts; the driver RUNS the "
        "machine over the schedule of every TLS cell (greeting/early send, bytes arriving during the handshake, handshake result, send) to print the "
        "cleartext column, and the harness reports every byte onData saw (rx / rxodd); the engine itself is not single-stepped event by event",
        "engine restart (TcpEngine::start after stop, freeTls), closeNow/shutdownDrain, the ALPN select callback, HttpClientPool::setTlsConfig and "
        "IoraService::applyConfig (server.tls glue in iora.hpp) are outside the model",
        "writePendingSkipsHandshake is consumed by the machine but no theorem depends on its value (it can only make the machine quieter)",
        "TlsConfig.ciphers strings that enable anonymous key exchange are outside the property (T3_client_authenticated carries the hypothesis; the `anon` cells "
        "document that SSL_VERIFY_PEER is void for them on a client, while a verifyPeer SERVER still fails closed)",
        "URL forms other than scheme case / host form / default port (userinfo, IPv6 literal, trailing-dot host) are monitored (thorough tier) but not modelled",
    ]
    ctx.assumptions += [
        "OpenSSL semantics as stated in Handshake.Assumed, for peers that authenticate (client+VERIFY_PEER fails unless chain/validity verify; name checked only after "
        "SSL_set1_host; server VERIFY_PEER without FAIL_IF_NO_PEER_CERT admits certificate-less clients; negotiated version >= context minimum; non-TLS peer => failure; key "
        "possession always checked) and for anonymous key exchange (completes iff our cipher list enables it, TLS <= 1.2, no verification; impossible when a client certificate is required)",
        "the authentication guarantees assume the cipher list leaves aNULL/eNULL disabled (default, or a TlsConfig.ciphers string that does not enable them); "
        "TlsConfig.ciphers strings enabling anonymous suites are outside the property",
        "the certificate factory's files are what CertKind.props says (checked every run by the `certtable` line with libcrypto's own verifier)",
        "the system trust store is what SSL_CERT_FILE/SSL_CERT_DIR point to (the harness points them at an empty / chosen store)",
        "SSL_set1_host succeeds for the names of the matrix; SSL_CTX_set_min_proto_version behaves as libSetMin (0 clears, SSL3..TLS1.3 set, anything else changes nothing) - "
        "checked by reading the effective minimum back (SSL_CTX_get_min_proto_version) in the interposer",
    ]
    return ctx.finish(level="proof", rule="a case = one matrix cell (one real handshake attempt of a freshly built Transport/HttpClient/HttpServer); distinct = distinct "
                      "cell lines; non-trivial = the cell reached TLS set-up or a refusal (i.e. not a plain session)")


def load_corpus():
    d = os.path.join(os.path.dirname(os.path.dirname(os.path.abspath(__file__))), "corpus", ID)
    out = []
    if os.path.isdir(d):
        for fn in sorted(os.listdir(d)):
            if fn.endswith(".json"):
                c = json.load(open(os.path.join(d, fn)))
                c.setdefault("cat", "corpus")
                out.append(c)
    return out
