"""Shared by props/c11.py and props/c12.py: reference map (the specification as executable Python), operation
generator for the `kv` line protocol, canonicaliser of file-event traces, and the read-path monitor."""
import zlib
from vlib.core import hexs, unhex

MAX_KEY = 65535
SENTINEL = -(2 ** 63)
MAXMS = 9223372036854          # last whole millisecond of system_clock::time_point = kMaxPlausibleEpochMs after FC12b (cross-checked
                               # against Gen/Kv.lean and against what the harness prints in `stats`)


def deadline(now, ttl):
    """now + ttl, saturated at the last representable/persistable instant (the reference map's TTL deadline)."""
    return min(now + ttl * 1000, MAXMS)


# ------------------------------------------------------------------ reference map with absolute expiry (the spec)
class RefMap:
    """Key -> (value, expiry-or-None).  An entry whose expiry has passed is absent for every operation."""
    def __init__(self, now):
        self.m = {}
        self.now = now

    def copy(self):
        r = RefMap(self.now)
        r.m = dict(self.m)
        return r

    def prune(self):
        for k in [k for k, (v, e) in self.m.items() if e is not None and e <= self.now]:
            del self.m[k]

    def live(self, k):
        self.prune()
        return k in self.m

    def apply(self, toks):
        """Apply one protocol op; returns the expected result token (None if the op has no checked result)."""
        self.prune()
        op = toks[0]
        if op == "now":
            self.now = int(toks[1])
            self.prune()
            return "ok"
        if op == "set":
            k, v = unhex(toks[1]), unhex(toks[2])
            err = key_err(k)
            if err:
                return "err:" + err
            self.m[k] = (v, None)
            return "ok"
        if op == "setttl":
            k, v, ttl = unhex(toks[1]), unhex(toks[2]), int(toks[3])
            if ttl <= 0:
                return "err:badTtl"
            err = key_err(k)
            if err:
                return "err:" + err
            self.m[k] = (v, deadline(self.now, ttl))
            self.prune()
            return "ok"
        if op in ("setbatch", "setbatchttl"):
            i0 = 1 if op == "setbatch" else 2
            ttl = None if op == "setbatch" else int(toks[1])
            if ttl is not None and ttl <= 0:
                return "err:badTtl"
            pairs = [(unhex(toks[i]), unhex(toks[i + 1])) for i in range(i0, len(toks), 2)]
            if not pairs:
                return "ok"
            if any(key_err(k) for k, _ in pairs):
                return "err:badBatch"
            for k, v in pairs:
                self.m[k] = (v, None if ttl is None else deadline(self.now, ttl))
            self.prune()
            return "ok"
        if op == "get":
            k = unhex(toks[1])
            return "val:" + hexs(self.m[k][0]) if k in self.m else "none"
        if op == "remove":
            self.m.pop(unhex(toks[1]), None)
            return "ok"
        if op == "rmprefix":
            p = unhex(toks[1])
            ks = [k for k in self.m if k.startswith(p)]
            for k in ks:
                del self.m[k]
            return "count:%d" % len(ks)
        if op == "clear":
            self.m.clear()
            return "ok"
        if op == "expireat":
            k, when = unhex(toks[1]), int(toks[2])
            if k in self.m:
                self.m[k] = (self.m[k][0], when)
                self.prune()
            return "ok"
        if op == "persist":
            k = unhex(toks[1])
            if k in self.m:
                self.m[k] = (self.m[k][0], None)
            return "ok"
        if op in ("compact", "evict", "reopen", "sleep"):
            return "ok"
        if op == "racegate":
            # get(k) on the cache-miss path held at its cache refill while a writer of k is released: the writer must wait for
            # the get to return (lock scopes, theorem M6_get_miss_race), so the outcome is the get, then the writer
            r1 = self.apply(["get", toks[1]])
            r2 = self.apply(["clear"] if toks[2] == "clear" else [toks[2], toks[1]] + toks[3:])
            return None if r1 is None or r2 is None else r1 + ";" + r2
        if op == "wracegate":
            # set(k, v1) held at the cache update of its updateCache while a second writer of k is released: the second writer must
            # wait for the set to return (writers update _cache under _mutex, theorem M6_any_threads), so: the set, then the writer
            r1 = self.apply(["set", toks[1], toks[2]])
            r2 = self.apply(["clear"] if toks[3] == "clear" else [toks[3], toks[1]] + toks[4:])
            return None if r1 is None or r2 is None else r1 + ";" + r2
        return None

    def read_line(self, toks):
        """Expected answer of `read <prefix> <k>*`."""
        self.prune()
        p = unhex(toks[1])
        ks = [unhex(x) for x in toks[2:]]
        keys = sorted(hexs(k) for k in self.m)
        pfx = sorted(hexs(k) for k in self.m if k.startswith(p))
        batch = sorted("%s:%s" % (hexs(k), hexs(self.m[k][0])) for k in ks if k and k in self.m)
        ex = "".join("1" if (k and k in self.m) else "0" for k in ks) or "-"
        ttl = []
        for k in ks:
            if k and k in self.m and self.m[k][1] is not None:
                ttl.append(str((self.m[k][1] - self.now) // 1000))
            else:
                ttl.append("n")
        return "size=%d keys=%s pfx=%s batch=%s ex=%s ttl=%s" % (len(self.m), csv(keys), csv(pfx), csv(batch), ex, csv(ttl))

    def visible(self):
        self.prune()
        return dict(self.m)


def csv(xs):
    return ",".join(xs) if xs else "-"


def key_err(k):
    if len(k) == 0:
        return "emptyKey"
    if len(k) > MAX_KEY:
        return "keyTooLarge"
    return None


# ------------------------------------------------------------------ canonical form of a file-event trace
def split_records(b):
    out = []
    i = 0
    while i < len(b):
        if i + 4 > len(b):
            return None
        n = int.from_bytes(b[i:i + 4], "little")
        if n < 10 or i + 4 + n > len(b):
            return None
        out.append(b[i:i + 4 + n])
        i += 4 + n
    return out


def split_snapshot(b):
    if len(b) < 12:
        return None
    count = int.from_bytes(b[8:12], "little")
    i = 12
    ents = []
    for _ in range(count):
        if i + 4 > len(b):
            return None
        kl = int.from_bytes(b[i:i + 4], "little")
        j = i + 4 + kl + 8
        if j + 4 > len(b):
            return None
        vl = int.from_bytes(b[j:j + 4], "little")
        j += 4 + vl
        if j > len(b):
            return None
        ents.append(b[i:j])
        i = j
    if i != len(b):
        return None
    return b[:12], ents


def canon_trace(tr):
    """Sort the records of a multi-record log append and the entries of a snapshot (hash-map iteration order)."""
    if tr == "-":
        return tr
    out = []
    for ev in tr.split(";"):
        p = ev.split(":")
        if p[0] == "A" and len(p) == 3 and p[2] != "-":
            b = bytes.fromhex(p[2])
            if p[1] == "log":
                recs = split_records(b)
                if recs is not None:
                    b = b"".join(sorted(recs))
            elif p[1] == "tmp":
                s = split_snapshot(b)
                if s is not None:
                    b = s[0] + b"".join(sorted(s[1]))
            ev = "A:%s:%s" % (p[1], b.hex())
        out.append(ev)
    return ";".join(out)


def split_line(l):
    """`<result> | <trace>[ | <extra>]` -> (result, trace, extra or None)."""
    p = l.split(" | ")
    return p[0], (p[1] if len(p) > 1 else "-"), (p[2] if len(p) > 2 else None)


def canon_line(l):
    if " | " in l:
        a, b, x = split_line(l)
        return a + " | " + canon_trace(b) + ("" if x is None else " | " + x)
    return l


def result_of(l):
    return split_line(l)[0]


def trace_of(l):
    return split_line(l)[1]


def order_of(l):
    """The key order `keysWithPrefix` returned inside a `rmprefix` (third field `order:k1,k2,..`), or None."""
    x = split_line(l)[2]
    if x is None or not x.startswith("order:"):
        return None
    return [] if x[6:] == "-" else x[6:].split(",")


def lockstep(ctx, hb, cases, **kw):
    """ctx.lockstep for the `kv` component, plus the hash-order pass.

    removeWithPrefix() removes the keys in the order keysWithPrefix() returned them, which is the iteration order of a
    std::unordered_map.  That order is an INPUT of the model (Op.removeWithPrefix p ord): the harness reports the order the real
    call used (`| order:..`), and wherever it differs from the order the model picked on its own, the op is rewritten to
    `rmprefix <prefix> <k1> <k2> ..` and the model is re-run on the case.  The model uses the given order only if it is a
    permutation of ITS matching live keys (otherwise it keeps its own order and the lines differ: a correspondence failure).
    The case's op list is rewritten in place, so replay files carry the order and replay deterministically."""
    res = ctx.lockstep("kv", hb, cases, **kw)
    redo = []
    for idx, (c, impl, model) in enumerate(res):
        differs = False
        ops2 = list(c["ops"])
        for i, (op, a, b) in enumerate(zip(c["ops"], impl, model)):
            if op.startswith("rmprefix "):
                oa = order_of(a)
                if oa is None:
                    continue
                ops2[i] = " ".join(op.split()[:2] + oa)
                if oa != order_of(b):
                    differs = True
        if differs:
            redo.append((idx, ops2))
    if redo:
        all_ops = [o for _, ops2 in redo for o in ops2]
        out, rc, err = ctx.run_lines(ctx.model_argv("kv"), all_ops, timeout=kw.get("timeout", 600))
        if rc != 0 or len(out) != len(all_ops):
            raise RuntimeError("model driver failed in the hash-order pass rc=%s lines=%d/%d: %s" % (rc, len(out), len(all_ops), err[-500:]))
        pos = 0
        for idx, ops2 in redo:
            c, impl, _ = res[idx]
            c["ops"] = ops2
            res[idx] = (c, impl, out[pos:pos + len(ops2)])
            pos += len(ops2)
    ctx.extra["hash_order_reruns"] = ctx.extra.get("hash_order_reruns", 0) + len(redo)
    return res


# ------------------------------------------------------------------ python-side file system (images for C11)
class PyFs:
    def __init__(self, files=None):
        self.f = dict(files or {})       # name -> bytes

    def copy(self):
        return PyFs(self.f)

    def apply_event(self, ev, cut=None):
        p = ev.split(":")
        if p[0] == "A":
            data = b"" if p[2] == "-" else bytes.fromhex(p[2])
            if cut is not None:
                data = data[:cut]
            self.f[p[1]] = self.f.get(p[1], b"") + data
        elif p[0] == "T":
            self.f[p[1]] = self.f.get(p[1], b"")[:int(p[2])]
        elif p[0] == "R":
            if p[1] in self.f:
                self.f[p[2]] = self.f.pop(p[1])
        elif p[0] == "U":
            self.f.pop(p[1], None)

    def hexes(self):
        return tuple("none" if n not in self.f else hexs(self.f[n]) for n in ("snap", "log", "tmp"))


def events_of(trace):
    return [] if trace == "-" else trace.split(";")


def ev_len(ev):
    p = ev.split(":")
    return 0 if p[0] != "A" or p[2] == "-" else len(p[2]) // 2


# ------------------------------------------------------------------ reference encoder (independent of both sides)
def enc_record(op, key, value=None, exp=None):
    body = op.encode() + len(key).to_bytes(4, "little") + key
    if exp is not None:
        body += (exp % (1 << 64)).to_bytes(8, "little")
    if value is not None:
        body += len(value).to_bytes(4, "little") + value
    crc = zlib.crc32(body) & 0xFFFFFFFF if body else 0
    return (len(body) + 4).to_bytes(4, "little") + body + crc.to_bytes(4, "little")


# ------------------------------------------------------------------ generator
def gen_universe(rng, big=False):
    """A small key universe with shared prefixes, binary bytes and (rarely) boundary lengths."""
    n = rng.range(3, 12)
    prefixes = [b"", b"a", b"ab", b"\x00", b"\xff\xfe", b"user:", b"k"]
    keys = set()
    while len(keys) < n:
        p = rng.choice(prefixes)
        kind = rng.below(10)
        if kind < 6:
            k = p + bytes([rng.choice([0x30, 0x31, 0x61, 0x62, 0x00, 0xff, 0x7f, 0x80])]) * rng.range(1, 2)
        elif kind < 9:
            k = p + rng.bytes(rng.range(1, 4))
        else:
            k = p + b"x" * rng.range(1, 30)
        if k:
            keys.add(k)
    keys = sorted(keys)
    if big:
        keys.append(b"K" * MAX_KEY)
    return keys


def gen_value(rng, big_ok=False):
    k = rng.below(20)
    if k < 3:
        return b""
    if k < 12:
        return rng.bytes(rng.range(1, 6))
    if k < 17:
        return bytes([rng.below(256)]) * rng.range(1, 40)
    if k < 19 or not big_ok:
        return rng.bytes(rng.range(20, 200))
    return bytes((i * 7 + 1) & 0xFF for i in range(rng.choice([8170, 8192, 9000, 20000])))   # crosses the ofstream buffer


def gen_more(rng, n_ops, ref, keys, cfg, free=False, allow_reopen=True, allow_big=False, dist=None, read_every=True, clock=True, race=False):
    """n_ops further operations (each mutating op followed by a `read`) continuing from reference state `ref` (updated in place)."""
    ops = []
    outside = [b"zz-absent", b"a"]
    small_log = cfg["inline"] and cfg["maxLog"] < 100000
    dist = dist if dist is not None else {}

    def emit(line):
        ops.append(line)
        ref.apply(line.split())

    def read_all():
        p = rng.choice([b"", b"a", b"ab", b"user:", b"\x00", b"k", b"q"])
        ks = list(keys) + outside
        if rng.chance(1, 6):
            ks.append(b"")
        ops.append("read %s %s" % (hexs(p), " ".join(hexs(k) for k in ks if len(k) <= 64 or rng.chance(1, 4))))

    pending = lambda: sorted(e for (v, e) in ref.m.values() if e is not None)
    snap_keys = set()        # keys that were in the snapshot written by the last explicit `compact`
    for _ in range(n_ops):
        r = rng.below(1000)
        k = rng.choice(keys)
        raced = False
        after_deadline = None
        if r < 190:
            op = "set %s %s" % (hexs(k), hexs(gen_value(rng, allow_big)))
        elif r < 300:
            ttl = rng.choice([1, 1, 2, 3, 5, 60, 3600, 86400, 0, -1]) if rng.chance(9, 10) else rng.range(1, 10 ** 6)
            if rng.chance(1, 12):
                # deadlines at and beyond the end of the clock: ~253 years, seconds::max(), the exact room left, one more / one less
                room = (MAXMS - ref.now) // 1000
                ttl = rng.choice([8000000000, 2 ** 63 - 1, 9223372036, max(room, 1), room + 1, max(room - 1, 1), 292277026596])
            op = "setttl %s %s %d" % (hexs(k), hexs(gen_value(rng)), ttl)
        elif r < 400:
            op = "get %s" % hexs(rng.choice(keys + outside + [b""]))
            if race and not free and rng.chance(1, 3):
                # deterministic schedule get(k) [cache miss] || writer of k (harness `racegate`): make the cache cold for a live key
                # through the public API (restart, or an op that drops the entry: expireAt / persist), gate, then read k again
                ref.prune()
                livek = sorted(ref.m)
                kk = rng.choice(livek) if livek and rng.chance(7, 8) else rng.choice(keys)
                c = rng.below(4)
                if c == 0 and allow_reopen:
                    emit("reopen")
                elif c == 1 and kk in ref.m and ref.m[kk][1] is not None:
                    emit("persist %s" % hexs(kk))
                elif c < 3:
                    emit("expireat %s %d" % (hexs(kk), min(ref.now + rng.choice([3600000, 5000, 86400000]), MAXMS)))
                # (c == 3: whatever the cache holds now: a hit, or a miss after an LRU eviction)
                w = rng.below(8)
                if w < 3:
                    wop = "remove"
                elif w < 5:
                    wop = "set %s" % hexs(gen_value(rng))
                elif w == 5:
                    wop = "setttl %s %d" % (hexs(gen_value(rng)), rng.choice([1, 5, 3600]))
                elif w == 6:
                    wop = "expireat %d" % min(ref.now + rng.choice([1, 1000, 2000, 60000]), MAXMS)
                else:
                    wop = rng.choice(["persist", "clear"])
                if rng.chance(1, 3):
                    # two writers: set(kk, v1) gated at its cache update, the second writer released there
                    emit("wracegate %s %s %s" % (hexs(kk), hexs(gen_value(rng)), wop))
                    dist["wracegate"] = dist.get("wracegate", 0) + 1
                else:
                    emit("racegate %s %s" % (hexs(kk), wop))
                    dist["racegate"] = dist.get("racegate", 0) + 1
                raced = True
                op = "get %s" % hexs(kk)
        elif r < 460:
            op = "remove %s" % hexs(rng.choice(keys + outside + [b""]))
        elif r < 560:
            now = ref.now
            when = rng.choice([now - 1000, now - 1, now, now + 1, now + 999, now + 1000, now + 1001, now + 5000, now + 3600000,
                               0, -5, 1, now + rng.range(1, 20000)])
            op = "expireat %s %d" % (hexs(rng.choice(keys + outside)), min(when, MAXMS))
        elif r < 620:
            op = "persist %s" % hexs(rng.choice(keys + outside))
        elif r < 660:
            m = rng.range(0, 4)
            ks = []
            for _k in range(m):
                kk = rng.choice(keys)
                if kk not in ks:
                    ks.append(kk)
            if rng.chance(1, 12):
                ks.append(b"")                      # invalid batch
            op = "setbatch" + "".join(" %s %s" % (hexs(x), hexs(gen_value(rng))) for x in ks)
        elif r < 690:
            m = rng.range(0, 3)
            ks = []
            for _k in range(m):
                kk = rng.choice(keys)
                if kk not in ks:
                    ks.append(kk)
            op = "setbatchttl %d" % rng.choice([1, 2, 5, 3600, 0, 8000000000, 2 ** 63 - 1]) + "".join(" %s %s" % (hexs(x), hexs(gen_value(rng))) for x in ks)
        elif r < 720:
            p = rng.choice([b"a", b"ab", b"user:", b"\x00", b"k", b"", b"q"])
            ref.prune()
            nmatch = len([x for x in ref.m if x.startswith(p)])
            # (several keys under a tiny inline-compaction threshold: the compactions fall BETWEEN the delete records, so the trace
            # depends on the order keysWithPrefix returned the keys; that order is an input of the model, see lockstep())
            op = "rmprefix %s" % hexs(p)
            dls = [e for x, (v, e) in ref.m.items() if x.startswith(p) and e is not None]
            if dls and not free and clock and rng.chance(3, 4):
                after_deadline = max(dls)      # a removed key had a TTL: read size()/exists/ttl again once its FORMER deadline has passed (seed C12-e)
            if nmatch > 1 and small_log:
                dist["rmprefix-multi-inline"] = dist.get("rmprefix-multi-inline", 0) + 1
        elif r < 735:
            op = "clear"
        elif r < 775:
            op = "compact"
            ref.prune()
            live_snap = sorted(x for x in snap_keys if x in ref.m)      # (sorted: set order of bytes depends on PYTHONHASHSEED)
            if r >= 750 and live_snap and not free:
                # an expiry-change record ('X') for a key that lives in the last snapshot, then the key goes away, then a compaction:
                # in the crash window "new snapshot renamed, old log not yet reset" that 'X' is an ORPHAN (complete, CRC-valid, skipped by replay)
                kx = rng.choice(live_snap)
                if ref.m[kx][1] is not None and rng.chance(1, 3):
                    emit("persist %s" % hexs(kx))
                else:
                    emit("expireat %s %d" % (hexs(kx), min(ref.now + rng.choice([5000, 60000, 3600000]), MAXMS)))
                emit(rng.choice(["remove %s" % hexs(kx), "remove %s" % hexs(kx), "rmprefix %s" % hexs(kx)]))
                for _x in range(rng.range(0, 2)):
                    emit("set %s %s" % (hexs(rng.choice(keys)), hexs(gen_value(rng))))
                dist["orphan-X-shape"] = dist.get("orphan-X-shape", 0) + 1
            snap_keys = None        # set below, after the compact has been applied
        elif r < 825 and allow_reopen:
            op = "reopen"
        elif r < 940 and clock:
            pe = pending()
            now = ref.now
            c = rng.below(10)
            if pe and c < 6:
                e = rng.choice(pe)
                t = rng.choice([e - 1, e, e + 1, e - 1000, e + 1000])
            elif c < 9:
                t = now + rng.choice([1, 10, 999, 1000, 1001, 5000])
            else:
                t = now + rng.choice([3600000, 86400000, 10 ** 9])
            if t < now:
                t = now
            t = min(t, MAXMS - 1)
            if pe and c < 6 and rng.chance(2, 3):
                # exact-deadline reads through the cache fast path: warm the cache just before the deadline, then read AT it and after it
                owners = [k2 for k2, (v2, e2) in ref.m.items() if e2 == e][:3]
                for tt in (e - 1, e, e + 1):
                    if ref.now <= tt <= MAXMS - 1:
                        emit("now %d" % tt)
                        dist["now"] = dist.get("now", 0) + 1
                        for k2 in owners:
                            emit("get %s" % hexs(k2))
                            dist["get@deadline"] = dist.get("get@deadline", 0) + 1
                if read_every:
                    read_all()
                continue
            op = "now %d" % t
        else:
            op = "evict %s %s" % (hexs(rng.choice(keys + outside)), rng.choice(["cur", "cur", "cur", "stale", "zero"]))
        emit(op)
        if snap_keys is None:
            ref.prune()
            snap_keys = set(ref.m)
        dist[op.split()[0]] = dist.get(op.split()[0], 0) + 1
        if free and rng.chance(1, 4):
            ops.append("sleep %d" % rng.choice([1, 2, 5, 12]))
        if read_every and (op.split()[0] != "get" or raced or rng.chance(1, 3)):
            read_all()
        if after_deadline is not None and ref.now <= after_deadline < MAXMS - 1:
            emit("now %d" % min(after_deadline + rng.choice([0, 1, 1000]), MAXMS - 1))     # the clock cannot pass the last representable instant
            dist["rmprefix-then-read-after-former-deadline"] = dist.get("rmprefix-then-read-after-former-deadline", 0) + 1
            read_all()
    return ops


def gen_history(rng, n_ops, cfg, free=False, allow_reopen=True, allow_big=False, universe=None, read_every=True, race=False):
    """Returns (ops, meta).  `cfg` = dict(maxCache, maxLog, inline, now).  Every mutating op is followed by a `read`."""
    keys = universe or gen_universe(rng, big=allow_big and rng.chance(1, 8))
    ref = RefMap(cfg["now"])
    ops = ["%s %d %d %d %d" % ("resetfree" if free else "reset", cfg["maxCache"], cfg["maxLog"], cfg["inline"], cfg["now"])]
    dist = {}
    ops += gen_more(rng, n_ops, ref, keys, cfg, free=free, allow_reopen=allow_reopen, allow_big=allow_big, dist=dist, read_every=read_every, race=race)
    if allow_reopen:
        ops.append("reopen")
        ops.append("read - %s" % " ".join(hexs(k) for k in keys if len(k) <= 64))
    ops.append("state")
    return ops, {"keys": keys, "dist": dist}


# ------------------------------------------------------------------ read-path monitor (implementation output vs the spec)
def monitor_reads(ops, impl, start_ref=None):
    """Replays the op list on the reference map and checks every checked result and every `read` line of the implementation.
    Returns a list of failure strings (empty = the implementation behaved like the reference map)."""
    bad = []
    ref = start_ref
    for i, (op, l) in enumerate(zip(ops, impl)):
        t = op.split()
        if l.startswith("throw") or l.startswith("crash:"):
            bad.append("M1: op %d `%s` -> %s" % (i, op[:80], l[:80]))
            continue
        if t[0] in ("reset", "resetfree"):
            ref = RefMap(int(t[4]))
            continue
        if t[0] == "stress":
            if l != "ok":
                bad.append("M1(concurrent): readers racing a writer, the clock and the eviction worker: %s" % l[:160])
            ref = None          # contents unspecified afterwards
            continue
        if ref is None:
            continue
        if t[0] == "read":
            want = ref.read_line(t)
            got = l.split(" inv=")[0]
            if " inv=" in l:
                bad.append("M1(cache): internal invariant broken after op %d: %s" % (i, l.split(" inv=")[1][:80]))
            if got != want:
                bad.append("M1: read after op %d differs from the reference map: got `%s` want `%s`" % (i, short(got), short(want)))
        elif t[0] in ("state", "sleep", "crashimg"):
            continue
        else:
            want = ref.apply(t)
            got = result_of(l)
            if want is not None and got != want:
                bad.append("M1: result of op %d `%s`: got `%s` want `%s`" % (i, op[:80], got[:80], want[:80]))
    # what a caller can observe through the PUBLIC API comes first; the harness's internal-invariant probe (cache coherence, _expiry within _kv) only
    # when no public read of the case differs
    return [b for b in bad if not b.startswith("M1(cache)")] + [b for b in bad if b.startswith("M1(cache)")]


def short(s, n=400):
    return s if len(s) <= n else s[:n] + "...(%d)" % len(s)
