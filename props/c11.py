"""C11 — Persistent stores recover every acknowledged write after a crash (DESIGN §7 C11)."""
import os, json
from vlib.core import Ctx, hexs, unhex, ddmin
from props import kv_shared as K
from props.c12 import check_stats

ID = "C11"
MODULES = ["IoraModel.Props.C11", "IoraModel.Props.C11Json", "IoraModel.Props.C12"]
OBLIGATIONS = [
    {"id": "C11_gen_limits", "theorem": "Iora.C11.gen_limits_ok", "kind": "proved",
     "statement": "Gen obligation: load() re-admits every key, value and record the API admits (totalLen ceiling covers the largest record writeLogEntry can produce)"},
    {"id": "C11_gen_goodEnd", "theorem": "Iora.C11.gen_goodEnd_ok", "kind": "proved",
     "statement": "Gen obligation (shape of load): goodEnd is the stream position right after every completely read record body, the only write to goodEnd in the loop, before any `continue`"},
    {"id": "C11_truncate", "theorem": "Iora.C11.load_truncates_only_torn_tail", "kind": "proved",
     "statement": "for ARBITRARY log bytes: after a successful load the log is exactly the longest prefix of complete frames of the log found (goodEnd counts skipped records too: CRC mismatch, unknown op, orphan 'X', ...), and the cut-off part does not start with a complete frame"},
    {"id": "C11_truncate_frames", "theorem": "Iora.C11.goodEnd_after_frames", "kind": "proved",
     "statement": "complete frames of admissible length, whatever they contain, followed by a strict prefix of one more frame: the cut is exactly at the end of the last complete frame"},
    {"id": "C11_D1", "theorem": "Iora.C11.D1_roundtrip", "kind": "proved",
     "statement": "replay(encode rs) = foldl apply rs for every list of API-written records, any CRC function; goodEnd = file size"},
    {"id": "C11_gen_format", "theorem": "Iora.C12.gen_format_ok", "kind": "proved",
     "statement": "Gen obligation (shared with C12): the format facts the shared model hard-wires - op letters and which carry an expiry / a value, field widths, snapshot versions, the no-expiry sentinel, load cuts the torn tail and sweeps once at the end"},
    {"id": "C11_gen_snapcount", "theorem": "Iora.C11.gen_snapcount_ok", "kind": "proved",
     "statement": "Gen obligation (repair FC11d): load bounds the snapshot entry count by (file size - header) / kMinSnapshotEntryBytes, not by a constant; the divisor is positive and <= 9 (smallest entry of either version); the count field is 32 bits and compactLocked refuses to write a count that does not fit"},
    {"id": "C11_D1_snapshot", "theorem": "Iora.C11.D1_snapshot", "kind": "proved",
     "statement": "loadSnap(encodeSnap ents) = ok(snapState ents) for every list of valid entries the 32-bit count field can express (no sanity constant left: load's plausibility check never refuses a snapshot compactLocked wrote)"},
    {"id": "C11_D2", "theorem": "Iora.C11.D2_torn_tail", "kind": "proved",
     "statement": "complete records followed by any strict prefix of one more record replay to the complete records only, goodEnd = end of the last complete record; no CRC assumption"},
    {"id": "C11_D3_D4", "theorem": "Iora.C11.D3_D4_crash_recover", "kind": "proved",
     "statement": "from every reachable state, every operation, every crash point (any prefix of its file operations, the write in progress cut at any byte), restart at any t >= now: load succeeds, every key shows its entry before or after the operation (compaction windows included), and the recovered store satisfies the full invariant again (continuation, any number of generations)"},
    {"id": "C11_D3_rel", "theorem": "Iora.C11.D3_every_image", "kind": "proved",
     "statement": "the same for every directory satisfying the relational crash-image definition of DESIGN 6.5 (not only the enumerated ones)"},
    {"id": "C11_D4", "theorem": "Iora.C11.D4_continuation", "kind": "proved",
     "statement": "after recovery from any crash image, any further history followed by a clean close + reopen equals the reference map started from the recovered contents"},
    {"id": "C11_D4_any", "theorem": "Iora.C11.D4_recover_any", "kind": "proved",
     "statement": "the constructor succeeds and re-establishes the invariant on every directory of the crash-image shape (complete snapshot or none, complete records, a torn record, any temp file)"},
    {"id": "C11_enum", "theorem": "Iora.C11.crashImage_sound", "kind": "proved",
     "statement": "the executable crash-image enumeration of the driver produces only crash images"},
    {"id": "C11_J1", "theorem": "Iora.C11.J1_flush_atomic", "kind": "proved",
     "statement": "JSON file store: at every crash point of a flush (any op prefix, any byte cut) the store file is untouched or the complete new text (depends on Gen: saveToFile goes through temp + rename)"},
    {"id": "C11_J1_last", "theorem": "Iora.C11.J1_last_flush", "kind": "proved",
     "statement": "after any sequence of completed flushes the file holds the last one"},
    {"id": "C11_gen_json_ctor", "theorem": "Iora.C11.gen_json_ctor_ok", "kind": "proved",
     "statement": "Gen obligation (repair FC11c): the ParseLimits JsonFileStore's constructor reads its own file with are SIZE_MAX in every field (not the defaults 10000/10000/100/1000000 of operator>>), and saveToFile pretty-prints (dump(n), n >= 0; the theorems hold for every such n)"},
    {"id": "C11_gen_json_flusher", "theorem": "Iora.C11.gen_json_flusher_ok", "kind": "proved",
     "statement": "Gen obligation (repair FC11e): flushThreadFunc flushes the stores while holding registryMutex (a store cannot be destroyed while it is being flushed) and takes it with try_to_lock only (unregisterStore joins the thread while holding it: waiting deadlocked the destructor of the last store)"},
    {"id": "C11_J1_reparse", "theorem": "Iora.C11.J1_reparse", "kind": "proved",
     "statement": "J1 composed with C13-J2, about the CONSTRUCTOR (read whole file, parseOrThrow with its own limits, empty store on a parse error): for every document of finite numbers that fits a 64-bit address space - no limit hypothesis - at every crash point of its flush a new instance starts with what it would have started with before the flush, or with exactly that document"},
    {"id": "C11_J1_last_reparse", "theorem": "Iora.C11.J1_last_reparse", "kind": "proved",
     "statement": "after any sequence of completed flushes the constructor loads exactly the last flushed document (never the empty fall-back)"},
    {"id": "C11_J2_reopen", "theorem": "Iora.C11.J2_history_reopen", "kind": "proved",
     "statement": "the store WITH STATE (_store, _dirty; set / remove / flush / destructor / constructor incl. fall-back): from any directory, after any history of set, remove and flush, clean close (the destructor flushes a dirty store) + new instance gives back exactly the document held"},
    {"id": "C11_J2_crash", "theorem": "Iora.C11.J2_history_crash", "kind": "proved",
     "statement": "after any such history, a crash at any point of the next flush: a new instance starts with the document of the last completed flush or with the one being flushed"},
    {"id": "C11_J3_race", "theorem": "Iora.C11.J3_flush_race", "kind": "proved",
     "statement": "flusher thread (tryFlushIfDirty) against the application thread (set / flush / destructor), every interleaving at the granularity dump - write <file>.tmp - rename, lock scope = Gen fact jsonSaveCallersHoldMutex: the store file is always the dump of a state no older than the last COMPLETED flush(), never newer than memory, and equals memory whenever nobody is flushing and the store is clean"},
    {"id": "C11_J3_locked", "theorem": "Iora.C11.J3_locked", "kind": "proved",
     "statement": "the same for the locked shape as a closed statement (J3_statement true)"},
    {"id": "C11_J3_unlocked", "theorem": "Iora.C11.J3_unlocked_refuted", "kind": "proved",
     "statement": "J3 needs the lock: with the file operations of a save outside _mutex (seed C11-d and its variant) the schedule set; bg dumps; set; flush() completes; bg writes + renames leaves generation 1 on disk after flush() of generation 2, store clean, nobody flushing"},
    {"id": "C11_J1_inplace", "theorem": "Iora.C11.J1_in_place_refuted", "kind": "proved",
     "statement": "the in-place truncating rewrite does not have J1 (witness: crash after the truncating open)"},
]
ANCHOR_FILES = ["include/iora/storage/kvstore.hpp", "include/iora/storage/json_file_store.hpp"]
SAN_FLAGS = ["-fno-sanitize=nonnull-attribute"]     # memcpy(value.data(), ptr, 0) on an empty vector in load(): harmless, unrelated


def corpus_dir():
    return os.path.join(os.path.dirname(os.path.dirname(os.path.abspath(__file__))), "corpus", ID)


def load_corpus():
    out = []
    d = corpus_dir()
    if os.path.isdir(d):
        for fn in sorted(os.listdir(d)):
            if fn.endswith(".json"):
                c = json.load(open(os.path.join(d, fn)))
                c.setdefault("cat", "expect")
                c["corpus_file"] = fn
                out.append(c)
    return out


# ------------------------------------------------------------------ cut points inside a write
def record_boundaries(b):
    """Field boundaries of the records in a log append (offsets inside `b`)."""
    out = set()
    i = 0
    while i + 4 <= len(b):
        n = int.from_bytes(b[i:i + 4], "little")
        if n < 10 or i + 4 + n > len(b):
            break
        op = b[i + 4:i + 5]
        kl = int.from_bytes(b[i + 5:i + 9], "little")
        offs = [0, 4, 5, 9, 9 + kl]
        p = 9 + kl
        if op in (b"E", b"X"):
            p += 8
            offs.append(p)
        if op in (b"E", b"S"):
            p += 4
            offs.append(p)
        offs += [4 + n - 4, 4 + n]
        for o in offs:
            for d in (-1, 0, 1):
                if 0 <= i + o + d <= len(b):
                    out.add(i + o + d)
        i += 4 + n
    return out


def snapshot_boundaries(b):
    out = {0, 1, 4, 8, 11, 12}
    s = K.split_snapshot(b)
    if s:
        i = 12
        for e in s[1]:
            kl = int.from_bytes(e[:4], "little")
            for o in (0, 4, 4 + kl, 4 + kl + 8, 4 + kl + 12, len(e)):
                for d in (-1, 0, 1):
                    if 0 <= i + o + d <= len(b):
                        out.add(i + o + d)
            i += len(e)
    return {x for x in out if x <= len(b)}


def cuts_for(ev, rng, every_byte):
    n = K.ev_len(ev)
    if n == 0:
        return []
    if every_byte and n <= 600:
        return list(range(1, n))
    p = ev.split(":")
    b = bytes.fromhex(p[2])
    bs = record_boundaries(b) if p[1] == "log" else snapshot_boundaries(b)
    bs |= {rng.below(n) for _ in range(3 if not every_byte else 40)}
    return sorted(x for x in bs if 0 < x < n)


# ------------------------------------------------------------------ images of one history
def visible_of_state(line, now):
    """Parse `kv=.. exp=..` (internal state after load) into {key: (value, expiry|None)}; entries with expiry <= now are invisible."""
    kvp, expp = line.split(" ")
    kv = {}
    exp = {}
    if kvp[3:] != "-":
        for x in kvp[3:].split(","):
            k, v = x.split(":")
            kv[unhex(k)] = unhex(v)
    if expp[4:] != "-":
        for x in expp[4:].split(","):
            k, e = x.split(":")
            exp[unhex(k)] = int(e)
    out = {}
    for k, v in kv.items():
        e = exp.get(k)
        if e is None or e > now:
            out[k] = (v, e)
    return out


def enumerate_images(c, impl, rng, every_byte, max_images):
    """Walk a history with the implementation's own file events; returns image descriptors
    dict(files=(snap,log,tmp hex), now, old=visible map, new=visible map, op_index, where)."""
    fs = K.PyFs()
    ref = None
    cfg = None
    imgs = []
    seen = set()
    for i, (op, line) in enumerate(zip(c["ops"], impl)):
        t = op.split()
        if t[0] in ("read", "state", "stats"):
            continue
        if t[0] == "reset":
            cfg = (int(t[1]), int(t[2]), int(t[3]))
            ref = K.RefMap(int(t[4]))
            for ev in K.events_of(K.trace_of(line)):
                fs.apply_event(ev)
            continue
        if ref is None or line.startswith("crash:") or line.startswith("throw"):
            break
        old = ref.copy()
        ref.apply(t)
        new = ref.copy()
        evs = K.events_of(K.trace_of(line))
        cur = fs.copy()
        points = []          # (files, where)
        for e, ev in enumerate(evs):
            # "renamed" = between the snapshot rename and the log reset of a compaction: new snapshot + old log
            renamed = e > 0 and evs[e - 1] == "R:tmp:snap"
            points.append((cur.hexes(), "op %d before event %d%s" % (i, e, " (snapshot renamed, log not yet reset)" if renamed else "")))
            for cpos in cuts_for(ev, rng, every_byte):
                f2 = cur.copy()
                f2.apply_event(ev, cut=cpos)
                points.append((f2.hexes(), "op %d event %d cut %d/%d" % (i, e, cpos, K.ev_len(ev))))
            cur.apply_event(ev)
        fs = cur
        for files, where in points:
            key = (files, old.now)
            if key in seen:
                continue
            seen.add(key)
            imgs.append({"files": files, "now": new.now if t[0] == "now" else old.now, "old": old, "new": new, "op_index": i, "where": where,
                         "cfg": cfg, "op": op, "window": "snapshot renamed" in where})
    # the directory after the last op: everything has completed
    if ref is not None:
        imgs.append({"files": fs.hexes(), "now": ref.now, "old": ref.copy(), "new": ref.copy(), "op_index": len(c["ops"]), "where": "after the last op",
                     "cfg": cfg, "op": "-"})
    if len(imgs) > max_images:
        rng.shuffle(imgs)
        imgs = [x for x in imgs if x.get("window")] + [x for x in imgs if not x.get("window")][:max_images]   # the rename/reset windows are never dropped
    return imgs


def admissible(rec, img, now):
    """Every key shows the last completed op's effect; keys of the op in flight may show old or new."""
    o = img["old"].copy()
    n = img["new"].copy()
    o.now = max(o.now, now)
    n.now = max(n.now, now)
    ov, nv = o.visible(), n.visible()
    bad = []
    for k in sorted(set(rec) | set(ov) | set(nv)):
        r = rec.get(k)
        if r != ov.get(k) and r != nv.get(k):
            bad.append("key %s: recovered %s, before the op in flight %s, after it %s" % (hexs(k), fmt(r), fmt(ov.get(k)), fmt(nv.get(k))))
    return bad


def fmt(x):
    return "absent" if x is None else "(%s, exp=%s)" % (K.short(hexs(x[0]), 40), x[1])


# ------------------------------------------------------------------ run
def replay(ctx):
    """Re-run the op list of a replay file (a crash image + continuation, a history, or a JSON flush history); exit 1 if it still fails."""
    obj = json.load(open(ctx.replay))
    ops = obj.get("ops") or []
    ctx.translate(["kv"])
    ctx.lake_build(MODULES)
    if not ops:
        print("replay: nothing to run (kind=%s)" % obj.get("kind"))
        return 1 if ctx.violations else 0
    kvwork = os.path.join(ctx.work, "kvdirs")
    os.makedirs(kvwork, exist_ok=True)
    env = {"KV_WORK": kvwork}
    still = False
    if ops[0].startswith("j"):
        hj = ctx.build_harness("harness/c11_jfs.cpp", sanitize=True, flags=SAN_FLAGS)
        img = obj.get("image")
        lines = ops + (["jimage %s %s" % (img["file"], img["tmp"])] if img else [])
        out, rc, err = ctx.run_lines([hj], lines, timeout=300, env=env)
        for o, a in zip(lines, out):
            print("op    %s\n impl  %s" % (o[:200], a[:200]))
        still = bool(img) and out[-1:] == [obj.get("observed")]
    else:
        hb = ctx.build_harness("harness/c11_kv.cpp", sanitize=True, flags=SAN_FLAGS)
        if ops[0].startswith("bigvalue") or any(o.startswith("bigvalue") for o in ops):
            out, rc, err = ctx.run_lines([hb], ops, timeout=600, env=env)
            for o, a in zip(ops, out):
                print("op    %s\n impl  %s" % (o[:200], a[:200]))
            still = obj.get("expected") is not None and any(len(out) <= i or out[i] != obj["expected"] for i in (5, 7, 10))
        else:
            (c, impl, model), = K.lockstep(ctx, hb, [{"cat": "replay", "ops": ops}], impl_env=env)
            for o, a, b in zip(ops, impl, model):
                print("op    %s\n impl  %s\n model %s" % (o[:200], a[:200], b[:200]))
            want = obj.get("observed")
            same_as_recorded = want is not None and [K.canon_line(x) for x in impl] == [K.canon_line(x) for x in want]
            mism = [i for i, (a, b) in enumerate(zip(impl, model)) if K.canon_line(a).split(" inv=")[0] != K.canon_line(b)]
            still = same_as_recorded or bool(mism)
    print("replay: %s" % ("still failing" if still else "no longer failing"))
    import shutil
    shutil.rmtree(ctx.work, ignore_errors=True)
    return 1 if still else 0


def run(ctx: Ctx):
    if ctx.replay:
        return replay(ctx)
    quick = ctx.tier == "quick"
    rng = ctx.rng
    ctx.translate(["kv"])
    ok_build = ctx.lake_build(MODULES)
    if ok_build:
        ctx.audit(MODULES, OBLIGATIONS)
        if not quick:
            ctx.leanchecker(MODULES + ["IoraModel.Lemmas.KvCrash", "IoraModel.Lemmas.KvFiles", "IoraModel.Lemmas.KvStore", "IoraModel.Lemmas.KvLog", "IoraModel.Lemmas.KvMap",
                                       "IoraModel.Lemmas.JsonFileStore", "IoraModel.Model.JsonFileStore", "IoraModel.Lemmas.KvJfsStore", "IoraModel.Model.KvJfsStore", "IoraModel.Model.KvSpec",
                                       "IoraModel.Model.KvStore", "IoraModel.Model.KvLog", "IoraModel.Model.KvMap"])
    else:
        ctx.cov["obligations"] = len(OBLIGATIONS)
    hb = ctx.build_harness("harness/c11_kv.cpp", sanitize=True, flags=SAN_FLAGS)
    hj = ctx.build_harness("harness/c11_jfs.cpp", sanitize=True, flags=SAN_FLAGS)
    kvwork = os.path.join(ctx.work, "kvdirs")
    os.makedirs(kvwork, exist_ok=True)
    env = {"KV_WORK": kvwork}
    stats = {"histories": 0, "images": 0, "continuations": 0, "json_images": 0, "load_mismatch": 0, "trace_mismatch": 0}
    where_dist = {}
    if hb:
        run_kv(ctx, hb, env, rng.fork("kv"), quick, stats, where_dist)
        run_malformed(ctx, hb, env, rng.fork("malformed"), quick, stats)
        run_boundary(ctx, hb, env)
    if hb:
        run_manykeys(ctx, hb, env, quick, stats)
    if hj:
        run_json(ctx, hj, env, rng.fork("json"), quick, stats)
        run_json_big(ctx, hj, env, stats)
        run_json_race(ctx, hj, env, rng.fork("jrace"), quick, stats)
    ctx.extra["input_distribution"] = {"counts": stats, "crash_points": where_dist}
    ctx.extra["repo_tree_sha"] = ctx.repo_tree_sha(ANCHOR_FILES)
    ctx.extra["not_proved"] = [
        "power loss (un-fsynced data lost or reordered) is outside the process-crash model of the statement",
        "more than 2^32 - 1 live keys (the width of the snapshot's count field): explicit hypothesis (StepOK) of D3/D4/M4; compactLocked now refuses to write such a snapshot "
        "(translator fact compactRefusesCountOverflow), the refusal itself is not a model transition; the former ceiling of 10^7 keys is gone (repair FC11d, reproduced before the repair: "
        "10 000 001 keys, compact() succeeds, reopen throws 'Unreasonable entry count')",
        "JSON file store: set/remove/flush/destructor/constructor are modelled over C13's Json values (J2), the flusher thread as a two-role skeleton over document GENERATIONS (J3); "
        "not modelled: the registry / flush-thread lifecycle (registerStore, unregisterStore, flushThreadFunc's copy of the registry), get<T>() conversions, a FAILED save "
        "(saveToFile swallows the error and flush() still clears _dirty). The stateful model is tied to the code by the translator facts and by implementation-only monitors "
        "(documents compared with Python's json), not by a line-by-line lockstep of documents; hypothesis DocOK: finite doubles (NaN/Inf are written as null), distinct keys, "
        "document smaller than 2^64 bytes; recursion depth of parse/dump (stack) is C13's stated hypothesis",
        "outside C11's statement but repaired (FC11e): flushThreadFunc flushed a COPY of the registry without the registry lock (destroying one store while another stayed registered: "
        "heap-use-after-free) and waited for registryMutex while unregisterStore() joined it holding that mutex (the destructor of the last store deadlocked; hit by this harness under load). "
        "The registry / flush-thread lifecycle is pinned by a translator fact only, not modelled; residual: the termination notify can be missed (not under terminateCvMutex), delaying the "
        "destructor of the last store by up to one flush interval",
        "observation (I/O failure, outside the process-crash model of C11 and the quantifier of C12; reproduced on the real code with the log descriptor pointed at /dev/full): "
        "writeLogEntry checks the stream BEFORE its final flush(), so a set() whose flush fails returns normally (acknowledged, data only in the ofstream buffer); the NEXT set(k) throws, and its "
        "rollback (_kv.erase(key)) removes a previously acknowledged key from memory: get(k) = absent, size 0, although the key is in the log and comes back after a restart",
        "a batch with a repeated key (impossible through the API: setBatch takes a map) is excluded by hypothesis Op.Distinct",
        "observation (not a clause of C11): kMaxPlausibleEpochMs (year ~2300) exceeds what system_clock::time_point can hold (year 2262): a crafted or corrupted log "
        "with a valid CRC and an expiry in between makes fromEpochMs overflow (UB) in load(); not producible by the API"]
    ctx.assumptions += [
        "process-crash model (DESIGN §6.5): what reached the operating system survives, rename(2) is atomic, no power-loss reordering; fsync is not part of the property",
        "ofstream buffering is observed, not assumed: crash images are built from the write/writev/fopen/rename/truncate calls the real code issued, cut at byte positions inside every write",
        "background compaction thread off (enableBackgroundCompaction=false: maybeCompact runs inline) or idle; TTL wheel tick 1 h with a frozen steady clock, so the only evictions are the ones TimingWheel::drain fires at close",
        "times are whole milliseconds; the wall clock does not go backwards across a restart",
        "fewer than 2^32 keys (width of the snapshot count field; explicit hypothesis of the snapshot theorems)",
        "JSON file store: C13's libc facts (LibcOk) for the number round trip; the real flusher thread's interval is 1 h, the flusher role is played by a second harness thread "
        "calling tryFlushIfDirty() with the schedule forced at the open / rename of <file>.tmp (jbgflush)",
    ]
    return ctx.finish(level="proof", rule="a case = one crash image (a prefix of the file operations the real KVStore/JsonFileStore issued for a generated history, the last write cut at a byte) "
                      "reopened by a fresh real store and by the model's load on the same bytes, checked against the admissible set from the history; or one history (file-operation trace vs model); "
                      "distinct = distinct (image bytes, time) / op lists; non-trivial = image with at least one key recoverable")


def gen_orphan_template(r):
    """History shape: a key lives in the snapshot, gets an expiry-change record ('X') in the log, goes away, then a compaction. In the crash
    window of that compaction (new snapshot renamed, old log not yet reset) the 'X' record is an orphan: complete, CRC-valid, skipped by replay."""
    keys = K.gen_universe(r)[:5]
    k = r.choice(keys)
    now = r.choice([1000, 1700000000000])
    inline = r.chance(1, 4)
    cfg = {"maxCache": r.choice([0, 1, 2, 1000]), "maxLog": 10 ** 7, "inline": 1, "now": now}
    ops = ["reset %d %d 1 %d" % (cfg["maxCache"], cfg["maxLog"], now)]
    for x in keys[:r.range(0, 2)]:
        ops.append("set %s %s" % (hexs(x), hexs(K.gen_value(r))))
    v = r.below(4)
    if v == 1:
        ops += ["setttl %s %s 3600" % (hexs(k), hexs(K.gen_value(r))), "compact", "persist %s" % hexs(k)]
    else:
        ops += ["set %s %s" % (hexs(k), hexs(K.gen_value(r))), "compact", "expireat %s %d" % (hexs(k), now + r.choice([5000, 3600000]))]
    if r.chance(1, 3):
        ops.append("expireat %s %d" % (hexs(k), now + 7200000))                         # a second 'X'
    if v == 2:
        ops += ["now %d" % (now + 7300000), "evict %s cur" % hexs(k)]                   # expired, evicted: 'D' from the eviction callback
    elif v == 3:
        ops.append("rmprefix %s" % hexs(k))
    else:
        ops.append("remove %s" % hexs(k))
    for _ in range(r.range(1, 3)):
        ops.append("set %s %s" % (hexs(r.choice(keys)), hexs(K.gen_value(r))))
    ops += ["compact", "set %s %s" % (hexs(r.choice(keys)), hexs(K.gen_value(r))), "state"]
    return {"cat": "history", "ops": ops, "cfg": cfg, "keys": [hexs(x) for x in keys], "template": "orphan-X"}


def gen_snapshot_x_template(r):
    """History shape of seed C11-e (an acknowledged expiry CHANGE is an acknowledged write): a key with deadline T gets into the SNAPSHOT while T is
    still ahead (explicit compact, or the inline threshold `reset .. 60 ..` compacting right after the TTL write), then persist(key) / expireAt(key, later)
    leaves only an 'X' record in the log, then the clock passes T.  Clean reopen, and every crash image cut after the 'X' record (inside the writes that
    follow, reopened with the clock past T), must show the key with its NEW expiry: load() has to keep a snapshot entry whose own expiry has passed until
    the log has been replayed (repair F05)."""
    keys = K.gen_universe(r)[:5]
    k = r.choice(keys)
    rest = [x for x in keys if x != k] or [b"other"]
    now = r.choice([1000, 1700000000000])
    low = r.chance(1, 3)
    cfg = {"maxCache": r.choice([0, 1, 2, 1000]), "maxLog": 60 if low else 10 ** 7, "inline": 1, "now": now}
    ops = ["reset %d %d 1 %d" % (cfg["maxCache"], cfg["maxLog"], now)]
    rd = "read - %s" % " ".join(hexs(x) for x in keys if len(x) <= 64)
    for x in rest[:r.range(0, 2)]:
        ops.append("set %s %s" % (hexs(x), hexs(K.gen_value(r))))
    ttl = r.choice([1, 2, 5])
    T = now + 1000 * ttl
    val = b"\x5e" + r.bytes(45)                  # longer than the 60-byte threshold: with `low` the write itself triggers the compaction
    v = r.below(3)
    if v == 0:
        ops.append("setttl %s %s %d" % (hexs(k), hexs(val), ttl))
    elif v == 1:
        ops += ["set %s %s" % (hexs(k), hexs(val)), "expireat %s %d" % (hexs(k), T)]
        if low:
            ops.append("compact")                   # the 'X' of the expireat is below the threshold: snapshot it explicitly
    else:
        ops.append("setbatchttl %d %s %s %s %s" % (ttl, hexs(k), hexs(val), hexs(rest[0]), hexs(K.gen_value(r))))
    if not low:
        ops.append("compact")
    ops.append(rd)
    if r.chance(1, 2):
        ops.append("persist %s" % hexs(k))
    else:
        ops.append("expireat %s %d" % (hexs(k), T + r.choice([1, 7000, 3600000])))
    if r.chance(1, 4):
        ops.append("expireat %s %d" % (hexs(k), T + 7200000))                          # a second 'X'
    ops += [rd, "now %d" % (T + r.choice([0, 1, 4000])), rd, "reopen", rd]
    # writes after the clock has passed T: their crash images (snapshot with the old deadline + log = 'X' + a torn/complete record) are reopened past T
    ops += ["set %s %s" % (hexs(rest[0]), hexs(b"\xa1" + r.bytes(3))), "remove %s" % hexs(rest[-1]), rd, "reopen", rd, "state"]
    return {"cat": "history", "ops": ops, "cfg": cfg, "keys": [hexs(x) for x in keys], "template": "snapshot-then-X"}


def run_kv(ctx, hb, env, rng, quick, stats, where_dist):
    n_hist = 60 if quick else 400
    max_images = 120 if quick else 300
    # ---- pass 1: histories (file-operation trace of every op vs the model's fsOps)
    hist = []
    for c in load_corpus():
        if c["cat"] in ("history", "expect"):
            hist.append(c)
    for i in range(n_hist):
        r = rng.fork("h%d" % i)
        cfg = {"maxCache": r.choice([1, 2, 1000]), "maxLog": r.choice([80, 150, 400, 10 ** 7, 10 ** 7]), "inline": r.choice([1, 1, 0]),
               "now": r.choice([1000, 1700000000000])}
        ops, meta = K.gen_history(r, r.range(3, 12), cfg, allow_big=(i % 25 == 3), read_every=False)
        hist.append({"cat": "history", "ops": ops, "cfg": cfg, "keys": [hexs(k) for k in meta["keys"]]})
    for i in range(10 if quick else 120):
        hist.append(gen_orphan_template(rng.fork("orphan%d" % i)))
    for i in range(8 if quick else 100):
        hist.append(gen_snapshot_x_template(rng.fork("snapx%d" % i)))
    # generic histories of C12's shape (every mutating op followed by ALL read paths, compared with the reference map across reopen: M1-style;
    # acknowledged expiry changes are acknowledged writes), small compaction thresholds included
    for i in range(25 if quick else 400):
        r = rng.fork("m1h%d" % i)
        cfg = {"maxCache": r.choice([1, 2, 1000, 0]), "maxLog": r.choice([60, 60, 200, 10 ** 7]), "inline": 1, "now": r.choice([1000, 1700000000000])}
        ops, meta = K.gen_history(r, r.range(6, 25), cfg, read_every=True)
        hist.append({"cat": "history", "ops": ops, "cfg": cfg, "keys": [hexs(k) for k in meta["keys"]], "template": "m1-generic"})
    res = K.lockstep(ctx, hb, hist, impl_env=env, timeout=1500)
    image_cases = []
    for c, impl, model in res:
        stats["histories"] += 1
        if c.get("template"):
            stats["histories_" + c["template"]] = stats.get("histories_" + c["template"], 0) + 1
        ctx.count_case("\n".join(c["ops"]), nontrivial=True)
        if c["cat"] == "expect":
            bad = ["%s: op %s `%s` -> `%s`, expected `%s`" % (c.get("tag", "witness"), i, c["ops"][int(i)][:80], K.short(impl[int(i)], 160), K.short(e, 160))
                   for i, e in c["expect"].items() if K.canon_line(impl[int(i)]) != K.canon_line(e)]
            if bad:
                ctx.violation("property", bad[0], {"ops": c["ops"], "observed": impl, "expected": c["expect"], "corpus_file": c.get("corpus_file")},
                              found_input=True)
                continue
        fails = K.monitor_reads(c["ops"], impl) if c["cat"] == "history" else []
        if fails:
            ctx.violation("property", "D3(no crash): " + fails[0], {"ops": c["ops"], "observed": impl, "failures": fails[:5]}, found_input=True)
            continue
        mism = [(i, a, b) for i, (a, b) in enumerate(zip(impl, model)) if K.canon_line(a).split(" inv=")[0] != K.canon_line(b)]
        if mism:
            stats["trace_mismatch"] += 1
            i, a, b = mism[0]
            ctx.violation("correspondence", "file-operation trace / result of the real KVStore differs from the model's fsOps: op `%s` impl=`%s` model=`%s`"
                          % (c["ops"][i][:100], K.short(a, 200), K.short(b, 200)),
                          {"broken": {"correspondence": "kv lockstep on file-operation traces (harness/c11_kv.cpp vs Model/KvStore.lean)",
                                      "detail": "first differing op index %d" % i}, "ops": c["ops"], "observed": impl, "expected_by_model": model},
                          found_input=False)
            # the images below are built from the implementation's own events: the property monitor still looks for a failing input
        if c["cat"] != "history" or c.get("template") == "m1-generic":
            continue        # (the M1-generic histories are there for the reference-map comparison across reopen; crash images come from the other families)
        # ---- images of this history
        r = rng.fork("img" + c["ops"][0] + str(len(image_cases)))
        keys = [unhex(k) for k in c["keys"]]
        for img in enumerate_images(c, impl, r, every_byte=not quick, max_images=max_images):
            cfg = img["cfg"]
            later = r.choice([0, 0, 0, 1, 999, 5000, 3600000])
            now = min(img["now"] + later, K.MAXMS - 1)        # the clock cannot pass the last representable instant
            ops = ["crashimg %d %d %d %d %s %s %s" % (cfg[0], cfg[1], cfg[2], now, img["files"][0], img["files"][1], img["files"][2]), "state"]
            cont = None
            if r.chance(1, 3) or img["files"][2] != "none" or img.get("window"):
                cont = True
            image_cases.append({"cat": "image", "ops": ops, "img": img, "now": now, "cont": cont, "keys": keys,
                                "cfgd": {"maxCache": cfg[0], "maxLog": cfg[1], "inline": cfg[2], "now": now}, "history": c["ops"]})
            if c.get("template"):
                stats["images_of_" + c["template"]] = stats.get("images_of_" + c["template"], 0) + 1
                if c["template"] == "snapshot-then-X" and img["files"][0] != "none" and any(o.startswith("now ") for o in c["ops"][:img["op_index"]]):
                    # snapshot holds the key with the OLD deadline, the log starts with the 'X' record, the image is reopened with the clock past that deadline
                    stats["images_snapshot_X_reopened_past_old_deadline"] = stats.get("images_snapshot_X_reopened_past_old_deadline", 0) + 1
            w = img["where"].split(" ", 2)[2] if img["where"].startswith("op ") else img["where"]
            w = " ".join(x for x in w.split() if not x.isdigit() and "/" not in x)
            where_dist[w] = where_dist.get(w, 0) + 1
    # ---- the model's own crash-image function on the model's own trace vs the images built here from the same events
    mops = []
    checks = []
    for c, impl, model in res[:40]:
        if c["cat"] != "history":
            continue
        fs = K.PyFs()
        for i, (op, ml) in enumerate(zip(c["ops"], model)):
            mops.append(op)
            evs = K.events_of(K.trace_of(ml))
            t0 = op.split()[0]
            if evs and t0 in ("set", "setttl", "remove", "expireat", "persist", "compact", "evict"):
                k = rng.below(len(evs) + 1)
                n = K.ev_len(evs[k]) if k < len(evs) else 0
                cut = rng.below(n + 1) if n else 0
                f2 = fs.copy()
                for ev in evs[:k]:
                    f2.apply_event(ev)
                if k < len(evs) and evs[k].startswith("A:"):
                    f2.apply_event(evs[k], cut=cut)
                mops.append("crashat %d %d" % (k, cut))
                checks.append((len(mops) - 1, "img %s %s %s" % f2.hexes(), op))
            for ev in evs:
                fs.apply_event(ev)
    if mops:
        mout, mrc, merr = ctx.run_lines(ctx.model_argv("kv"), mops, timeout=600)
        stats["model_crashimage_checks"] = len(checks)
        for idx, want, op in checks:
            if idx >= len(mout) or mout[idx] != want:
                ctx.violation("correspondence", "the model's crashImage differs from the image built from the same file events for `%s`: model=`%s` here=`%s`"
                              % (op[:80], K.short(mout[idx] if idx < len(mout) else "?", 160), K.short(want, 160)),
                              {"broken": {"correspondence": "Model/KvLog.lean crashImage vs props/c11.py image construction", "detail": op}}, found_input=False)
                break
    # continuation ops need the recovered state: generated after a first look at the image? No: the generator does not depend on
    # the recovered state, only the reference does; so the ops are generated now and the reference is seeded from the observed recovery.
    for ic in image_cases:
        if ic["cont"]:
            r = rng.fork("cont" + ic["ops"][0][:200])
            ref = K.RefMap(ic["now"])        # throw-away: steers the generator (clock targets; no multi-key prefix removal under a tiny
            ref.m = dict(ic["img"]["old"].m)  # inline-compaction threshold, whose trace depends on the hash order): a superset of what can be recovered
            ref.m.update(ic["img"]["new"].m)
            more = K.gen_more(r, r.range(1, 5), ref, ic["keys"], ic["cfgd"], allow_reopen=True)
            if ic["img"]["files"][2] != "none":
                # a leftover (possibly torn) temp file: the next compaction must start its snapshot from scratch
                more = ["compact"] + more
            if ic["img"].get("window") or r.chance(1, 4):
                # at least one acknowledged write between the recovery and the next load (what D4 is about), on a key of the universe with a fresh value
                more = ["set %s %s" % (hexs(r.choice(ic["keys"])), hexs(b"\xd4" + r.bytes(3)))] + more
            rd = "read - %s" % " ".join(hexs(k) for k in ic["keys"] if len(k) <= 64)
            ic["ops"] = ic["ops"] + more + ["reopen", rd, "reopen", rd, "state"]
    # ---- pass 2: every image reopened by the real store and by the model's load
    res2 = K.lockstep(ctx, hb, image_cases + [{"cat": "stats", "ops": ["stats"]}], impl_env=env, timeout=6000)
    for c, impl, model in res2:
        if c["cat"] == "stats":
            st = dict(x.split("=") for x in impl[0].split()[1:]) if impl[0].startswith("stats ") else {}
            ctx.extra["interposer_counts"] = st or impl[0]
            check_stats(ctx, st, crashed=any("crash" in cc for cc, _, _ in res2))
            continue
        img = c["img"]
        stats["images"] += 1
        ctx.count_case(c["ops"][0], nontrivial=impl[1] != "kv=- exp=-")
        if len(ctx.cov["samples"]) < 6 and rng.chance(1, 200):
            ctx.sample({"where": img["where"], "op_in_flight": img["op"][:80], "image": [K.short(x, 80) for x in img["files"]], "recovered": K.short(impl[1], 200)})
        fails = []
        if not impl[0].startswith("ok"):
            fails.append("D3: reopening the crash image fails: %s (%s, op in flight `%s`)" % (impl[0][:60], img["where"], img["op"][:80]))
        else:
            try:
                rec = visible_of_state(impl[1], c["now"])
            except Exception:
                rec = None
                fails.append("D3: unreadable state after recovery: %s" % impl[1][:100])
            if rec is not None:
                bad = admissible(rec, img, c["now"])
                if bad:
                    fails.append("D3: crash image (%s, op in flight `%s`, reopened at now=%d) recovers an inadmissible state: %s"
                                 % (img["where"], img["op"][:80], c["now"], bad[0]))
                elif c["cont"]:
                    stats["continuations"] += 1
                    start = K.RefMap(c["now"])
                    start.m = dict(rec)
                    f2 = K.monitor_reads(c["ops"][2:], impl[2:], start_ref=start)
                    if f2:
                        fails.append("D4: after recovering from a crash image (%s), further acknowledged operations are not all there after a clean close + reopen: %s"
                                     % (img["where"], f2[0]))
        if fails:
            ctx.violation("property", fails[0], {"ops": c["ops"], "observed": impl, "expected_by_model": model, "history": c["history"],
                                                 "crash_point": img["where"], "op_in_flight": img["op"], "failures": fails[:5]}, found_input=True)
            continue
        mism = [(i, a, b) for i, (a, b) in enumerate(zip(impl, model)) if K.canon_line(a).split(" inv=")[0] != K.canon_line(b)]
        if mism:
            stats["load_mismatch"] += 1
            i, a, b = mism[0]
            ctx.violation("correspondence", "the real KVStore and the model's load disagree on a crash image (%s): op `%s` impl=`%s` model=`%s`"
                          % (img["where"], K.short(c["ops"][i], 100), K.short(a, 200), K.short(b, 200)),
                          {"broken": {"correspondence": "load on crash images (harness/c11_kv.cpp vs Model/KvLog.lean openStore)",
                                      "detail": "first differing op index %d" % i}, "ops": c["ops"], "observed": impl, "expected_by_model": model},
                          found_input=False)


# ------------------------------------------------------------------ malformed / foreign directories: load() byte by byte
def crc_rec(body):
    import zlib
    crc = zlib.crc32(body) & 0xFFFFFFFF if body else 0
    return (len(body) + 4).to_bytes(4, "little") + body + crc.to_bytes(4, "little")


def snap_bytes(ents, version=2, magic=0xB1A2C3D4, count=None):
    b = magic.to_bytes(4, "little") + version.to_bytes(4, "little") + (len(ents) if count is None else count).to_bytes(4, "little")
    for k, v, e in ents:
        b += len(k).to_bytes(4, "little") + k
        if version == 2:
            b += ((K.SENTINEL if e is None else e) % (1 << 64)).to_bytes(8, "little")
        b += len(v).to_bytes(4, "little") + v
    return b


def gen_malformed(rng, n):
    """Directories that no crash of this code produces: CRC-valid records of odd shapes, mutated logs, v1 and corrupt snapshots.
    Only the tie is checked on them (real load() vs the model's), not admissibility."""
    cases = []
    keys = [b"k", b"ab", b"\x00\xff", b"key-3"]
    for i in range(n):
        now = rng.choice([1000, 5000, 1700000000000])
        recs = []
        for _ in range(rng.range(1, 6)):
            k = rng.choice(keys)
            v = rng.bytes(rng.range(0, 6))
            # (expiries in (9223372036854, kMaxPlausibleEpochMs] pass isPlausibleEpochMs but overflow fromEpochMs' ns arithmetic: UB on a crafted file,
            #  not producible by the API; kept out of the generator and recorded as an observation)
            e = rng.choice([now + 1, now - 1, now, now + 100000, 1, 0, -1, K.SENTINEL, 9223372036854, 10413792000001, 2 ** 62, -(2 ** 62)])
            kind = rng.below(14)
            kl = len(k).to_bytes(4, "little")
            vl = len(v).to_bytes(4, "little")
            e8 = (e % (1 << 64)).to_bytes(8, "little")
            if kind == 0:
                body = b"S" + kl + k + vl + v
            elif kind == 1:
                body = b"E" + kl + k + e8 + vl + v
            elif kind == 2:
                body = b"X" + kl + k + e8
            elif kind == 3:
                body = b"D" + kl + k
            elif kind == 4:
                body = b"S" + kl + k + vl + v + rng.bytes(rng.range(1, 5))            # trailing bytes before the CRC
            elif kind == 5:
                body = b"D" + (len(k) + rng.range(1, 4)).to_bytes(4, "little") + k           # key length runs into the CRC
            elif kind == 6:
                body = rng.choice([b"Q", b"s", b"\x00"]) + kl + k + vl + v                 # unknown op letter
            elif kind == 7:
                body = b"S" + (0).to_bytes(4, "little") + vl + v                          # zero key length
            elif kind == 8:
                body = b"S" + kl + k + (len(v) + rng.range(1, 9)).to_bytes(4, "little") + v  # value length overruns
            elif kind == 9:
                body = b"X" + kl + k + e8[:rng.range(0, 7)]                               # short expiry
            elif kind == 10:
                body = b"E" + kl + k + e8 + (len(v) + 1).to_bytes(4, "little") + v
            elif kind == 11:
                body = b"S" + (70000).to_bytes(4, "little") + k + vl + v                   # key length above the bound
            elif kind == 12:
                body = b"E" + kl + k + e8 + vl + v + rng.bytes(2)
            else:
                body = b"X" + kl + k + e8 + rng.bytes(rng.range(1, 3))
            r = crc_rec(body)
            m = rng.below(12)
            if m == 0:
                r = r[:-1] + bytes([r[-1] ^ 1])                                            # CRC mismatch
            elif m == 1:
                r = (rng.choice([0, 5, 9, 104923157, 2 ** 31, 2 ** 32 - 1])).to_bytes(4, "little") + r[4:]   # bad length prefix
            elif m == 2 and len(r) > 6:
                j = rng.below(len(r))
                r = r[:j] + bytes([r[j] ^ (1 << rng.below(8))]) + r[j + 1:]
            recs.append(r)
        log = b"".join(recs)
        if rng.chance(1, 4):
            log = log[:rng.below(len(log) + 1)]
        if rng.chance(1, 10):
            log += rng.bytes(rng.range(1, 9))
        snap = "none"
        s = rng.below(10)
        ents = [(rng.choice(keys), rng.bytes(rng.range(0, 4)), rng.choice([None, now + 5, now - 5, 0, -3, 10413792000001])) for _ in range(rng.range(0, 4))]
        if s < 3:
            snap = hexs(snap_bytes(ents))
        elif s == 3:
            snap = hexs(snap_bytes(ents, version=1))
        elif s == 4:
            b = snap_bytes(ents, version=rng.choice([0, 1, 2, 3]), magic=rng.choice([0xB1A2C3D4, 0xB1A2C3D5]), count=rng.choice([None, len(ents) + 1, 10000001, 0]))
            snap = hexs(b[:rng.below(len(b) + 1)] if rng.chance(1, 2) else b + rng.bytes(rng.range(0, 3)))
        elif s == 5:
            ents2 = ents + [(b"", b"x", None)]                                            # zero-length key in a snapshot
            snap = hexs(snap_bytes(ents2))
        cases.append({"cat": "malformed", "ops": ["crashimg 2 10000000 1 %d %s %s %s" % (now, snap, hexs(log) if rng.chance(9, 10) else "none",
                                                                                 rng.choice(["none", "00", "-"])), "state"]})
    return cases


def gen_clean_skip(rng, n):
    """Logs made ONLY of complete, CRC-valid frames, some of which the replay skips for a semantic reason (orphan 'X', unknown op letter,
    zero/oversize inner lengths, implausible expiry): nothing is torn, so load() must not truncate, and a write acknowledged after the
    recovery must still be there after the next load (D4 on a directory with skipped records)."""
    cases = []
    keys = [b"k", b"ab", b"\x00\xff", b"key-3", b"gone"]
    for i in range(n):
        now = rng.choice([1000, 5000, 1700000000000])
        recs = []
        nskip = 0
        for _ in range(rng.range(1, 6)):
            k = rng.choice(keys)
            v = rng.bytes(rng.range(0, 6))
            e = rng.choice([now + 100000, now + 5, 1, 0, -1, K.SENTINEL, 9223372036854, 10413792000001])
            kl, vl, e8 = len(k).to_bytes(4, "little"), len(v).to_bytes(4, "little"), (e % (1 << 64)).to_bytes(8, "little")
            kind = rng.below(12)
            if kind < 3:
                body = b"S" + kl + k + vl + v
            elif kind == 3:
                body = b"E" + kl + k + e8 + vl + v
            elif kind < 7:
                body = b"X" + kl + rng.choice([k, b"orphan", b"gone"]) [:len(k)].ljust(len(k), b"o") + e8      # mostly orphan expiry changes
                nskip += 1
            elif kind == 7:
                body = b"D" + kl + k
            elif kind == 8:
                body = rng.choice([b"Q", b"s", b"\x00"]) + kl + k + vl + v
                nskip += 1
            elif kind == 9:
                body = b"S" + (0).to_bytes(4, "little") + vl + v + b"pad"
                nskip += 1
            elif kind == 10:
                body = b"S" + kl + k + (len(v) + rng.range(1, 9)).to_bytes(4, "little") + v
                nskip += 1
            else:
                body = b"E" + kl + k + (0).to_bytes(8, "little") + vl + v                                     # implausible expiry
                nskip += 1
            recs.append(crc_rec(body))
        ents = [(rng.choice(keys[:4]), rng.bytes(rng.range(0, 4)), rng.choice([None, now + 50000])) for _ in range(rng.range(0, 3))]
        snap = hexs(snap_bytes(ents)) if rng.chance(1, 2) else "none"
        x = b"x-new"
        cases.append({"cat": "clean-skip", "nskip": nskip, "loglen": len(b"".join(recs)),
                      "ops": ["crashimg 2 10000000 1 %d %s %s none" % (now, snap, hexs(b"".join(recs))), "state",
                              "set %s 01" % hexs(x), "reopen", "read - %s" % hexs(x), "reopen", "read - %s" % hexs(x)]})
    return cases


def run_malformed(ctx, hb, env, rng, quick, stats):
    cases = gen_malformed(rng, 400 if quick else 8000) + gen_clean_skip(rng.fork("skip"), 150 if quick else 3000)
    res = K.lockstep(ctx, hb, cases, impl_env=env, timeout=3000)
    nontriv = 0
    for c, impl, model in res:
        if c["cat"] == "clean-skip":
            stats["clean_skip_images"] = stats.get("clean_skip_images", 0) + 1
            ctx.count_case(c["ops"][0], nontrivial=c["nskip"] > 0)
            bad = None
            if not impl[0].startswith("ok"):
                bad = "D3: a log of complete CRC-valid records does not load: %s" % impl[0][:80]
            elif "T:log" in impl[0]:
                bad = ("D4(skipped records): load() truncates a log that consists of complete records only (%d bytes, %d of the records are skipped by the replay: orphan 'X' / unknown op / bad inner "
                       "length): `%s` (the model: `%s`)" % (c["loglen"], c["nskip"], impl[0][:60], model[0][:60]))
            else:
                for j in (4, 6):
                    if not (impl[j].startswith("size=") and " ex=1 " in impl[j] and "782d6e6577:01" in impl[j]):
                        bad = ("D4(skipped records): a write acknowledged after recovering from a directory whose log holds complete-but-skipped records is not there after %s: `%s`"
                               % ("the next clean close + reopen" if j == 4 else "the second reopen", K.short(impl[j], 120)))
                        break
            if bad:
                ctx.violation("property", bad, {"ops": c["ops"], "observed": impl, "expected_by_model": model}, found_input=True)
                continue
        stats["malformed_images"] = stats.get("malformed_images", 0) + 1
        ctx.count_case(c["ops"][0], nontrivial=impl[0].startswith("ok") and impl[1] != "kv=- exp=-")
        if any(l.startswith("crash:") or l.startswith("throw") for l in impl):
            ctx.violation("property", "D3: load() crashes on a directory image: %s" % impl[0][:100], {"ops": c["ops"], "observed": impl}, found_input=True)
            continue
        if [K.canon_line(a) for a in impl] != [K.canon_line(b) for b in model]:
            ctx.violation("correspondence", "the real load() and the model disagree on a malformed directory image: impl=`%s | %s` model=`%s | %s`"
                          % (impl[0][:60], K.short(impl[1], 120), model[0][:60], K.short(model[1], 120)),
                          {"broken": {"correspondence": "load on malformed images (harness/c11_kv.cpp vs Model/KvLog.lean parseBuf/loadSnap/replayLoop)",
                                      "detail": "malformed-image generator"}, "ops": c["ops"], "observed": impl, "expected_by_model": model}, found_input=False)


def run_boundary(ctx, hb, env):
    """Implementation-only (values too large for the line protocol): values of exactly MAX_VALUE_LENGTH bytes, without and WITH a TTL,
    must survive a restart through the log ('S' arm and 'E' arm of load()), and - after a compaction - through the snapshot; so must
    what was written after them."""
    ops = ["reset 1 400000000 1 1000", "set 61 01", "bigvalue 62 104857600 7", "bigvalue 64 104857600 9 3600", "set 63 03", "read - 61 63",
           "reopen", "read - 61 63", "compact", "reopen", "read - 61 63"]
    out, rc, err = ctx.run_lines([hb], ops, timeout=1200, env=env)
    want = "size=4 keys=61,62,63,64 pfx=61,62,63,64 batch=61:01,63:03 ex=11 ttl=n,n"
    ctx.count_case("boundary-max-value", nontrivial=True)
    got = [out[i] if len(out) > i else "crash rc=%s" % rc for i in (5, 7, 10)]
    if got != [want] * 3:
        where = ["before the restart", "after close + reopen (log replay: 'S' and 'E' arms)", "after compact + reopen (snapshot)"]
        k = next(i for i in range(3) if got[i] != want)
        ctx.violation("property", "D1(boundary): values of MAX_VALUE_LENGTH bytes (accepted by set, one with a TTL) and the writes after them are not all there %s: got `%s`"
                      % (where[k], got[k][:160]),
                      {"ops": ops, "observed": out, "expected": want, "stderr": err[-500:]}, found_input=True)


def gen_fact(ctx, name):
    """Value text of `def <name> : ... := <value>` in the generated Gen/Kv.lean of this run (None when absent)."""
    import re
    from vlib import core as _core
    try:
        t = open(os.path.join(_core.LEAN, "IoraModel", "Gen", "Kv.lean")).read()
    except OSError:
        return None
    m = re.search(r"^def %s : [^\n]*? := (.*)$" % re.escape(name), t, re.M)
    return m.group(1).strip() if m else None


def run_manykeys(ctx, hb, env, quick, stats):
    """Implementation-only: n keys, compact() (the snapshot's count field = n), clean close, reopen: every key must be there (H3: the store must
    not become unopenable through a successful compaction).  n = 10^5 (quick) / 10^6 (thorough); when load() still refuses counts above a
    CONSTANT (unrepaired shape, translator fact snapCountConstBound = some N) and N + 1 keys fit the time budget, n = N + 1."""
    n = 100000 if quick else 1000000
    cb = gen_fact(ctx, "snapCountConstBound")
    if cb and cb.startswith("some "):
        N = int(cb.split()[1])
        if N + 1 <= (300000 if quick else 20000000):
            n = N + 1
    ops = ["reset 0 4000000000 1 1000", "bigkeys %d" % n]
    out, rc, err = ctx.run_lines([hb], ops, timeout=3000, env=env)
    ctx.count_case("boundary-many-keys-%d" % n, nontrivial=True)
    stats["manykeys_n"] = n
    want = "before=%d reopen=ok size=%d sample=3/3" % (n, n)
    got = out[1] if len(out) > 1 else "crash rc=%s" % rc
    if got != want:
        ctx.violation("property", "D1(snapshot, many keys): %d keys, compact() returned, clean close: the reopened store answers `%s`, expected `%s` "
                      "(a store must stay openable after a successful compaction)" % (n, got[:160], want),
                      {"ops": ops, "observed": out, "expected": want, "stderr": err[-500:]}, found_input=True)


# ------------------------------------------------------------------ JSON file store
def gen_json_value(r, depth=0):
    x = r.below(10 if depth < 3 else 6)
    if x == 0:
        return r.choice([0, 1, -1, 42, 2 ** 31, -2 ** 31 - 1, 2 ** 53 + 1, 2 ** 63 - 1, -2 ** 63])
    if x == 1:
        return r.choice([0.5, 2.5, -1.25, 1e21, 1e-7, 123456.789, 1e300])
    if x == 2:
        return r.choice([True, False, None])
    if x in (3, 4, 5):
        return r.choice(["", "s", "\"q\"", "\u00e9\U0001F600", "a\nb\tc", "\\", "x" * r.range(0, 40)])
    if x in (6, 7):
        return [gen_json_value(r, depth + 1) for _ in range(r.range(0, 4))]
    return {r.choice(["a", "b", "k k", "\u00e9", ""]) + str(i): gen_json_value(r, depth + 1) for i in range(r.range(0, 3))}


def run_json_big(ctx, hj, env, stats):
    """Documents just beyond each DEFAULT ParseLimits bound (set() enforces none of them): flushed, closed, reopened, one more write,
    flushed, reopened - the document must come back (H1: the constructor must not fall back to an EMPTY store on its own file)."""
    for what, n in (("keys", 10001), ("array", 10001), ("deep", 101), ("string", 1000002), ("keys", 10000), ("deep", 100)):
        ops = ["jreset", "jbig %s %d" % (what, n), "jreopencmp", "jset 6e6577 78", "jflush", "jreopencmp"]
        out, rc, err = ctx.run_lines([hj], ops, timeout=600, env=env)
        ctx.count_case("json-big-%s-%d" % (what, n), nontrivial=True)
        stats["json_big_" + what] = stats.get("json_big_" + what, 0) + 1
        bad = [i for i in (2, 5) if len(out) <= i or not out[i].startswith("same ")]
        if rc != 0 or bad:
            i = bad[0] if bad else len(out)
            ctx.violation("property", "J1(limits): a store holding %s (set() accepts it) does not come back after flush + clean close + reopen: `%s` "
                          "(an EMPTY or different store; the next flush then replaces the data on disk)"
                          % ({"keys": "%d keys" % n, "array": "an array of %d items" % n, "deep": "a value nested %d deep" % n, "string": "a string of %d bytes" % n}[what],
                             K.short(out[i] if i < len(out) else "crash rc=%s %s" % (rc, err[-120:]), 160)),
                          {"ops": ops[:i + 1], "observed": out[:i + 1]}, found_input=True)


def run_json_race(ctx, hj, env, rng, quick, stats):
    """The flusher thread against the application thread with the schedule forced (jbgflush): after flush() of the second value has returned and
    the parked background save has landed, the file on disk and a reopened store must hold the SECOND value."""
    n = 6 if quick else 60
    fixed = [c["ops"] for c in load_corpus() if c["cat"] == "jsonrace"]
    for h in range(-len(fixed), n):
        r = rng.fork("race%d" % h)
        gate = ["open", "rename"][h % 2] if h < 4 else r.choice(["open", "open", "rename"])
        k = r.choice(["k", "key with space", "\u00e9", "k%d" % r.below(5)])
        v1, v2 = "v1-%d" % r.below(1000), "v2-%d" % r.below(1000) + "x" * r.range(0, 30)
        ops = ["jreset"]
        for _ in range(r.range(0, 3)):
            ops.append("jset %s %s" % (hexs(("o%d" % r.below(4)).encode()), hexs(("w%d" % r.below(100)).encode())))
        if r.chance(1, 2):
            ops += ["jdump", "jflush"]
        ops += ["jbgflush %s %s %s %s" % (gate, hexs(k.encode()), hexs(v1.encode()), hexs(v2.encode())), "jdump", "jfile", "jreopen"]
        if h < 0:
            ops = fixed[h + len(fixed)]
            gate, k, v1, v2 = ops[-4].split()[1], bytes.fromhex(ops[-4].split()[2]).decode(), bytes.fromhex(ops[-4].split()[3]).decode(), bytes.fromhex(ops[-4].split()[4]).decode()
        out, rc, err = ctx.run_lines([hj], ops, timeout=300, env=env)
        ctx.count_case("\n".join(ops), nontrivial=True)
        stats["json_race_cases"] = stats.get("json_race_cases", 0) + 1
        if rc != 0 or len(out) != len(ops):
            ctx.violation("property", "J3: the JSON file store harness died (rc=%s) on a gated flusher/application schedule: %s" % (rc, err[-200:]),
                          {"ops": ops, "observed": out}, found_input=True)
            continue
        g = out[-4]
        if "parked=1" in g:
            stats["json_race_parked_at_" + gate] = stats.get("json_race_parked_at_" + gate, 0) + 1
        if "flushed_while_parked=1" in g:
            stats["json_race_flush_completed_while_bg_parked"] = stats.get("json_race_flush_completed_while_bg_parked", 0) + 1
        try:
            mem = json.loads(bytes.fromhex(out[-3][4:]).decode())
            disk = json.loads(bytes.fromhex(out[-2][5:]).decode()) if out[-2] not in ("file:none", "file:-") else None
            back = json.loads(bytes.fromhex(out[-1][4:]).decode())
        except Exception:
            mem, disk, back = "?", "unreadable", "unreadable"
        if disk != mem or back != mem:
            ctx.violation("property", "J3: set(%r, %r); a background tryFlushIfDirty() parked before the %s of <file>.tmp; set(%r, %r); flush() RETURNED; background save resumes: "
                          "the file on disk holds %s and a reopened store %s, the completed flush() covered %s (an OLDER snapshot was published over a completed flush)"
                          % (k, v1, gate, k, v2, K.short(str(disk), 100), K.short(str(back), 100), K.short(str(mem), 100)),
                          {"ops": ops, "observed": out}, found_input=True)


def run_json(ctx, hj, env, rng, quick, stats):
    n_hist = 25 if quick else 400
    fixed = [c["ops"] for c in load_corpus() if c["cat"] == "json"]
    for h in range(len(fixed) + n_hist):
        r = rng.fork("j%d" % h)
        if h < len(fixed):
            ops = fixed[h]
        else:
            keys = ["k%d" % i for i in range(r.range(1, 5))] + ["key with space", "q\"uote", "uni\u00e9", "back\\slash", "tab\there", "nl\nx", "\u0001ctl", "\U0001F600", "/slash", ""]
            ops = ["jreset"]
            for _ in range(r.range(2, 10)):
                x = r.below(10)
                if x < 5:
                    val = r.choice(["v%d" % r.below(1000), "", "\"q\"", "\\", "\u00e9\U0001F600", "a\nb\tc", "\u007f\u0000x", "{\"not\":\"nested\"}"]) * r.range(0, 3)
                    ops.append("jset %s %s" % (hexs(r.choice(keys).encode()), hexs(val.encode())))
                elif x < 6:
                    ops.append("jremove %s" % hexs(r.choice(keys).encode()))
                elif x < 8:
                    ops.append("jsetjson %s %s" % (hexs(r.choice(keys).encode()), hexs(json.dumps(gen_json_value(r)).encode())))
                    stats["json_structured_values"] = stats.get("json_structured_values", 0) + 1
                else:
                    ops += ["jdump", "jflush"]
            if r.chance(1, 2):
                ops += ["jdump", "jflush", "jreopen"]
            else:
                ops += ["jdump", "jreopen"]             # no flush(): the destructor has to write the dirty store
                stats["json_reopen_without_flush"] = stats.get("json_reopen_without_flush", 0) + 1
        out, rc, err = ctx.run_lines([hj], ops, timeout=300, env=env)
        ctx.count_case("\n".join(ops), nontrivial=True)
        if rc != 0 or len(out) != len(ops):
            ctx.violation("property", "J1: the JSON file store harness died (rc=%s) on a set/remove/flush history: %s" % (rc, err[-200:]),
                          {"ops": ops, "observed": out}, found_input=True)
            continue
        # "never empty or unreadable": after a clean close the document parses back to what was flushed (real parser, real dump)
        for i, (op, l) in enumerate(zip(ops, out)):
            if op == "jreopencmp" and not l.startswith("same "):
                ctx.violation("property", "J1: after a clean close the store reopens to a different document than it held (compared in the harness): `%s`" % K.short(l, 160),
                              {"ops": ops[:i + 1], "observed": out[:i + 1]}, found_input=True)
            if op == "jreopen":
                last = [out[j] for j in range(i) if ops[j] == "jdump"][-1:]
                try:
                    same = bool(last) and json.loads(bytes.fromhex(l[4:]).decode()) == json.loads(bytes.fromhex(last[0][4:]).decode())
                except Exception:
                    same = False
                if not same:
                    ctx.violation("property", "J1: after flush + clean close the store reopens to `%s`, flushed `%s` (unreadable or different document)"
                                  % (K.short(l, 120), K.short(last[0] if last else "?", 120)), {"ops": ops[:i + 1], "observed": out[:i + 1]}, found_input=True)
        # the file operations of every flush vs the model's saveToFile on the same text
        fs = K.PyFs()
        committed = None            # document of the last completed flush
        images = []
        model_ops = []
        impl_tr = []
        for i, (op, l) in enumerate(zip(ops, out)):
            if op == "jflush":
                evs = K.events_of(K.trace_of(l))
                doc = bytes.fromhex(out[i - 1][4:]) if out[i - 1] != "doc:-" else b""
                if not evs:
                    continue                      # not dirty
                data = b"".join(bytes.fromhex(e.split(":")[2]) for e in evs if e.startswith("A:") and e.split(":")[2] != "-")
                model_ops.append("jflush %s" % hexs(data))
                impl_tr.append(K.result_of(l) + " | " + ";".join(evs))
                cur = fs.copy()
                for e, ev in enumerate(evs):
                    images.append((cur.hexes(), committed, doc, "flush at op %d before event %d" % (i, e)))
                    n = K.ev_len(ev)
                    # thorough: EVERY byte of a write of up to 600 bytes; a longer write (the 10 001-key corpus document is 158 909 bytes: every byte of it
                    # meant 158 908 images of ~160 KB each, tens of GB) is cut at its edges and at 60 seeded positions
                    for cpos in (sorted({1, n // 2, n - 1} | {r.below(n) for _ in range(2)}) if quick else
                                 (range(1, n) if n <= 600 else sorted({1, 2, n // 2, n - 2, n - 1} | {r.below(n) for _ in range(60)}))):
                        if 0 < cpos < n:
                            f2 = cur.copy()
                            f2.apply_event(ev, cut=cpos)
                            images.append((f2.hexes(), committed, doc, "flush at op %d event %d cut %d/%d" % (i, e, cpos, n)))
                    cur.apply_event(ev)
                fs = cur
                committed = doc
                images.append((fs.hexes(), committed, committed, "after the flush at op %d" % i))
        if model_ops:
            mout, mrc, merr = ctx.run_lines(ctx.model_argv("kv"), model_ops, timeout=120)
            if mout != impl_tr:
                k = next((i for i, (a, b) in enumerate(zip(impl_tr, mout)) if a != b), 0)
                ctx.violation("correspondence", "JsonFileStore::saveToFile issues other file operations than the model: impl=`%s` model=`%s`"
                              % (K.short(impl_tr[k], 160), K.short(mout[k] if k < len(mout) else "?", 160)),
                              {"broken": {"correspondence": "jflush trace (harness/c11_jfs.cpp vs Model/JsonFileStore.lean)", "detail": "flush %d" % k},
                               "ops": ops, "observed": impl_tr, "expected_by_model": mout}, found_input=False)
        # leftover (possibly torn) temp file from a crashed flush: the next flush must not build on it
        lt = [(f, old, new, where) for f, old, new, where in images if f[2] != "none"]
        r.shuffle(lt)
        for f, old, new, where in lt[:4]:
            cops = ["jimage %s %s" % (f[0], f[2]), "jset 6e6577 76616c", "jdump", "jflush", "jreopen"]
            cout, crc_, cerr = ctx.run_lines([hj], cops, timeout=120, env=env)
            stats["json_continuations"] = stats.get("json_continuations", 0) + 1
            try:
                ok = len(cout) == 5 and json.loads(bytes.fromhex(cout[4][4:]).decode()) == json.loads(bytes.fromhex(cout[2][4:]).decode())
            except Exception:
                ok = False
            if not ok:
                ctx.violation("property", "J1: after recovering from a crash image with a leftover temp file (%s), set + flush + clean reopen gives `%s`, flushed `%s`"
                              % (where, K.short(cout[4] if len(cout) > 4 else "crash", 120), K.short(cout[2] if len(cout) > 2 else "?", 120)),
                              {"ops": cops, "observed": cout, "crash_point": where}, found_input=True)
        # every image reopened by a fresh real JsonFileStore
        iops = ["jimage %s %s" % (f[0], f[2]) for f, _, _, _ in images]
        iout, rc, err = ctx.run_lines([hj], iops, timeout=600, env=env)
        for (f, old, new, where), l in zip(images, iout + ["crash:%s" % rc] * (len(iops) - len(iout))):
            stats["json_images"] += 1
            try:
                got = json.loads(bytes.fromhex(l[4:]).decode()) if l.startswith("doc:") else None
            except Exception:
                got = None
            cands = [json.loads(x.decode()) for x in (old, new) if x is not None]
            if old is None:
                cands.append({})            # nothing flushed yet: an empty store is the right answer
            if got is None or got not in cands:
                ctx.violation("property", "J1: crash image of a flush (%s) reopens to %s; admissible: last completed flush %s or the flush in progress %s"
                              % (where, K.short(str(got), 120), K.short(str(old), 120), K.short(str(new), 120)),
                              {"ops": ops, "image": {"file": f[0], "tmp": f[2]}, "crash_point": where, "observed": l,
                               "how": "jimage <file> <tmp> on harness/c11_jfs.cpp"}, found_input=True)
