"""C06 — UDP keeps datagram boundaries and the peer-to-session mapping (DESIGN §7 C06).

Model: lean/IoraModel/Model/UdpEngine.lean (the I/O thread's bookkeeping incl. epoll interest masks, one step per epoll event; the
       kernel's answers are inputs).
Tie:   tools/tr_udp.py -> Gen/Udp.lean (config defaults; receive-buffer and data-view shapes; every `_peerIndex` mutation site and
       its guard; epoll mask construction; flags of every send/recv call, socket types, setsockopt names; key()/addressFromSockaddr
       shapes; the id counter declarations)
       + lockstep of the REAL UdpEngine (real I/O thread, real loopback sockets on 127.0.0.1 / 127.0.0.2 / ::1, single-stepped behind an
         epoll_wait interposer that only delivers events whose interest is armed in the recorded epoll_ctl mask, send/sendto answers
         scripted per payload, multi-command and multi-event batches) against the model driver, + implementation-only property monitors.
"""
import json, os, re, time, zlib
from vlib.core import Ctx, ddmin

ID = "C06"
MODULES = ["IoraModel.Props.C06"]
OBLIGATIONS = [
    {"id": "C06_G1", "theorem": "Iora.C06.G1_recv_buffer_holds_max_datagram", "kind": "proved",
     "statement": "derived from the source: one buffer of ioReadChunk bytes offered whole to recvfrom/recv, data view = return value, ioReadChunk >= 65507"},
    {"id": "C06_G2", "theorem": "Iora.C06.G2_closeNow_erase_guarded", "kind": "proved",
     "statement": "closeNow erases _peerIndex[pkey] only when it maps to the closing session (translated from the source)"},
    {"id": "C06_G3", "theorem": "Iora.C06.G3_index_sites", "kind": "proved",
     "statement": "_peerIndex mutated only at the four mirrored sites; inserts only under find()==end of key(addr); found branch is sid = it->second; no default cap"},
    {"id": "C06_G4", "theorem": "Iora.C06.G4_interest_facts", "kind": "proved",
     "statement": "addEpoll arms EPOLLIN for listener and client sockets; updateListener/updateClient keep EPOLLIN (EPOLLOUT only under wantWrite && !wq.empty())"},
    {"id": "C06_G5", "theorem": "Iora.C06.G5_kernel_interface", "kind": "proved",
     "statement": "send flags exactly MSG_NOSIGNAL, recv flags 0, plain non-blocking SOCK_DGRAM sockets, setsockopt only SO_RCVBUF/SO_SNDBUF/IPV6_V6ONLY"},
    {"id": "C06_G6", "theorem": "Iora.C06.G6_address_key", "kind": "proved",
     "statement": "key() = numeric host ':' numeric service of the whole address (both families), buffers NI_MAXHOST/NI_MAXSERV-sized (or >= 63 / >= 6) and passed by sizeof, "
                  "failure returns \"\" and both users refuse an empty key before touching _peerIndex; addressFromSockaddr = host+port; sessions keep the whole sockaddr"},
    {"id": "C06_G7", "theorem": "Iora.C06.G7_id_counters", "kind": "proved",
     "statement": "_nextSessionId/_nextListenerId are std::atomic starting at 1; _nextSessionId++ only in connect, connectViaListener, readFromListener"},
    {"id": "C06_T1_once", "theorem": "Iora.C06.T1_at_most_one", "kind": "proved",
     "statement": "for every history no two sent datagrams belong to the same accepted send (EAGAIN queues, flushes, overflow drops, closes included)"},
    {"id": "C06_T1_faithful", "theorem": "Iora.C06.T1_faithful", "kind": "proved",
     "statement": "for every history a sent datagram with token t: input t is cmdSend sid <same bytes>, sid was open then, dest = its peer then, socket = its socket"},
    {"id": "C06_T2_keyneeded", "theorem": "Iora.C06.T2_refuted_without_injective_key", "kind": "proved",
     "statement": "KeyInjective is necessary: with a key() that merges two addresses (seed C06-c) the second peer gets no accept and lands on the first peer's session"},
    {"id": "C06_T2_keyfail", "theorem": "Iora.C06.T2_key_failure_isolated", "kind": "proved",
     "statement": "a datagram / connect-via-listener whose key() fails (getnameinfo error) is reported and dropped / refused; nothing is created or indexed (FC06a repair)"},
    {"id": "C06_T2_inv", "theorem": "Iora.C06.T2_index_sound", "kind": "proved",
     "statement": "after every history each index entry points to an open ServerPeer session of that very peer AND every open session id is < nextSid (ids never reused)"},
    {"id": "C06_T2_mono", "theorem": "Iora.C06.T2_nextSid_monotone", "kind": "proved",
     "statement": "nextSid never decreases (with T2_index_sound: a new session never takes the id of an open or earlier session)"},
    {"id": "C06_T2_one", "theorem": "Iora.C06.T2_one_datagram", "kind": "proved",
     "statement": "HYPOTHESIS KeyInjective cfg.key; after every history one admitted datagram of 1..65507 bytes = exactly one data event, whole, on a session of its sender; accept iff unknown"},
    {"id": "C06_T2_counter", "theorem": "Iora.C06.T2_counter_exact", "kind": "proved",
     "statement": "after every history sessionsCurrent (what the cap is tested against) = number of open sessions"},
    {"id": "C06_T2_refused", "theorem": "Iora.C06.T2_refused_exactly", "kind": "proved",
     "statement": "a non-admitted datagram (unknown peer while a configured cap is reached) changes nothing and produces no event"},
    {"id": "C06_T2_burst", "theorem": "Iora.C06.T2_burst", "kind": "proved",
     "statement": "a whole recvfrom loop: data events = the datagrams, same number/order/bytes, each on a session of its sender"},
    {"id": "C06_T2_client", "theorem": "Iora.C06.T2_client", "kind": "proved",
     "statement": "client socket: one data event per datagram, whole, on that session"},
    {"id": "C06_T2_nonull", "theorem": "Iora.C06.T2_no_null_session", "kind": "proved",
     "statement": "_sessions[sid] in readFromListener never hits a missing session"},
    {"id": "C06_T2_interest", "theorem": "Iora.C06.T2_interest", "kind": "proved",
     "statement": "after every history every listener and client socket has EPOLLIN armed, and EPOLLOUT armed iff wantWrite && queue non-empty"},
    {"id": "C06_T2_read_l", "theorem": "Iora.C06.T2_listener_always_read", "kind": "proved",
     "statement": "after every history EPOLLIN on an existing listener is the recvfrom loop (never skipped for lack of interest)"},
    {"id": "C06_T2_read_c", "theorem": "Iora.C06.T2_client_always_read", "kind": "proved",
     "statement": "the same for a client socket"},
    {"id": "C06_T3_next", "theorem": "Iora.C06.T3_next_datagram", "kind": "proved",
     "statement": "if a -> sid, the next datagram from a (any listener) is data on sid, no accept, mapping kept"},
    {"id": "C06_T3_step", "theorem": "Iora.C06.T3_step", "kind": "proved",
     "statement": "any step keeps a -> sid unless it closes sid itself (closing another session never redirects or silences)"},
    {"id": "C06_T3_hist", "theorem": "Iora.C06.T3_history", "kind": "proved",
     "statement": "along any continuation that does not close sid: a -> sid at the end and no accept for a"},
    {"id": "C06_T3_trace", "theorem": "Iora.C06.T3_trace", "kind": "proved",
     "statement": "trace form: after any continuation that does not close sid, a datagram from a at ANY position of a recvfrom batch is exactly the one event data sid <bytes>"},
    {"id": "C06_T3_stays", "theorem": "Iora.C06.T3_session_stays", "kind": "proved",
     "statement": "any open session (client-socket or ServerPeer) is still in the table with the same peer/role/owner after any step, unless that step reports closed sid"},
    {"id": "C06_T3_shutdown", "theorem": "Iora.C06.T3_shutdown_index_empty", "kind": "proved",
     "statement": "stop()+start() after any history leaves the index empty, for either form (guarded/unconditional) of shutdownDrain's erase"},
    {"id": "C06_T3_F17", "theorem": "Iora.C06.T3_refuted_without_guard", "kind": "proved",
     "statement": "with the unrepaired unconditional erase T3_step is false (4-step witness): the guard is necessary"},
    {"id": "C06_G8", "theorem": "Iora.C06.G8_read_loops_drain", "kind": "proved",
     "statement": "derived from the source: both receive loops are unbounded loops around one recv/recvfrom whose only exits are the EAGAIN break and the hard-error exit, "
                  "a zero-length read does not leave them (onClient: the FC06b repair); IN before OUT of a merged event; handleFdEvent routes by tag; addEpoll/modEpoll plain"},
    {"id": "C06_T1_api", "theorem": "Iora.C06.T1_api_send_is_one_command", "kind": "proved",
     "statement": "send() = nothing for n == 0, else one memcpy of exactly n bytes and exactly one enqueue(Cmd::send); sendAsync() is one send() call"},
    {"id": "C06_T2_wake", "theorem": "Iora.C06.T2_wake_conserves", "kind": "proved",
     "statement": "for ANY loop shape (budget, zero-length ends it or not): what a wake-up takes ++ what it leaves = the kernel queue (nothing invented, dropped, reordered)"},
    {"id": "C06_T3_drained", "theorem": "Iora.C06.T3_nothing_left_behind", "kind": "proved",
     "statement": "arrival-level model (kernel queues, ET/LT epoll, loop shapes from Gen): with draining loops and EPOLLIN armed, after EVERY history every kernel receive queue is empty"},
    {"id": "C06_T3_refines", "theorem": "Iora.C06.T3_wake_refines", "kind": "proved",
     "statement": "under the same hypotheses a history of ARRIVALS has exactly the events and engine state of `run` on 'every loop returns exactly what arrived': T1-T3 hold for what arrives"},
    {"id": "C06_T3_keeps", "theorem": "Iora.C06.T3_keeps_arriving", "kind": "proved",
     "statement": "event level, one theorem: after ANY arrival-level history ending with a -> sid, a datagram of 1..65507 bytes from a arriving at any existing listener is read by "
                  "that wake-up (queue empty afterwards) and is exactly the one event data sid <bytes>; mapping kept (HYPOTHESES KeyInjective, draining loops, ArmFacts)"},
    {"id": "C06_FC06b", "theorem": "Iora.C06.FC06b_refuted_with_zero_length_break", "kind": "proved",
     "statement": "with the unrepaired `break` after a zero-length read in onClient and EPOLLET, a datagram behind a zero-length one stays in the kernel queue until a THIRD arrives (witness)"},
    {"id": "C06_T3_budget", "theorem": "Iora.C06.T3_refuted_with_read_budget", "kind": "proved",
     "statement": "with a per-wake-up read budget and EPOLLET a burst larger than the budget leaves datagrams undelivered (witness): the loops must be unbounded"},
]
ANCHOR_FILES = ["include/iora/network/detail/udp_engine.hpp", "include/iora/network/transport_types.hpp", "include/iora/network/event_batch_processor.hpp"]
HARNESS = "harness/c06_udp.cpp"
BOUNDARY = [1, 2, 1472, 1473, 8192, 65506, 65507]
MAXDG = 65507
V4_LOCAL = [0, 1, 2, 3, 4]      # 127.0.0.1, distinct ports
V4_OTHER = [5, 6]               # 127.0.0.2, SAME ports as peers 0 and 1
V6 = [7]                        # ::1, same port as peer 0
MAPPED = 10                     # address id 10+k = IPv4 peer k as a dual-stack ("::") listener sees it: ::ffff:127.0.0.x:<port> (host of 16+ characters)
KEY_ANCHORS = ("key", "addressFromSockaddr", "readFromListener", "viaDo")   # a change here forces extra long-address cases
LOOP_ANCHORS = ("readFromListener", "onClient", "onListener", "handleFdEvent", "loopUnbatched", "loopBatched", "processBatch",
                "processBatchWithSpecialFDs")                                 # a change here forces extra burst / zero-length cases

# body hashes of the mirrored C++ functions at the time the model was reviewed (tree = /repo HEAD c577281 + fixes/FC06b); a
# difference is reported in the evidence ("mirrored source changed since the model was reviewed"), it is NOT an alarm: the lockstep decides.
REVIEWED_ANCHORS = {"readFromListener": "eb7bfaf78858aa8d", "onClient": "2afb36f9f903d16d", "connectDo": "e39df8c854b7fcfc",
                    "viaDo": "d8157dd075d5be93", "sendDo": "394eac844294f72c", "flushListener": "29f73234632388ee",
                    "writeClient": "1f8857d0c0cc1bd0", "closeNow": "62ca6ab7c0e25b36", "runGc": "0dacf43630d8a35b",
                    "shutdownDrain": "1933b31c08bbe965", "updateListener": "0f20c0f2a9bff3e5", "updateClient": "b5487b42a89214cd",
                    "process": "e158fb026fb1d6df", "addListenerDo": "f5a0bddd51a71540", "key": "f6e238fdeb9ad40d",
                    "addressFromSockaddr": "20d0db15b5d6c5de", "onListener": "9c99722ce3ac11ca", "handleFdEvent": "3ae6316dd0934b68",
                    "loopUnbatched": "2f4434de1acca664", "loopBatched": "4ed070232d1167d6", "addEpoll": "036ee780dfe555bc",
                    "modEpoll": "c872dc6c107d2b0c", "send": "3898c16046cdb316", "sendAsync": "5a82fd5e9e1df94e",
                    "processBatch": "15ca06eee905d1fa", "processBatchWithSpecialFDs": "ae772e7fdd7a8809"}


def anchors_changed(ctx):
    from vlib.core import LEAN
    try:
        txt = open(os.path.join(LEAN, "IoraModel", "Gen", "Udp.lean")).read()
    except OSError:
        return ["Gen/Udp.lean missing"]
    m = re.search(r"def anchors[^\n]*", txt)
    cur = dict(re.findall(r'\("(\w+)", "([0-9a-f]{16})"\)', m.group(0) if m else ""))
    return sorted(k for k in REVIEWED_ANCHORS if cur.get(k) != REVIEWED_ANCHORS[k])


class MachineryError(Exception):
    pass


# ------------------------------------------------------------------ payload tokens  <len>.<hexpattern>
_exp_cache = {}


def expand(tok):
    r = _exp_cache.get(tok)
    if r is None:
        n, hx = tok.split(".")
        n = int(n)
        pat = bytes.fromhex(hx)
        b = (pat * (n // len(pat) + 1))[:n] if n else b""
        r = (n, zlib.crc32(b) & 0xFFFFFFFF)
        if len(_exp_cache) < 400000:
            _exp_cache[tok] = r
    return r


def rand_payload(rng, used, big_ok=True, allow_over=False):
    """A payload token whose (len, crc) is new in this case: answers and deliveries are matched by payload."""
    for _ in range(50):
        k = rng.below(20)
        if k < 11:
            n = rng.range(1, 48)
        elif k < 14:
            n = rng.range(49, 1600)
        elif k < 18 or not big_ok:
            n = rng.choice([1, 2, 3, 255, 256, 1472, 1473, 1500, 8192])
        else:
            n = rng.choice(BOUNDARY + [65507, 65506, 40000, rng.range(8193, 65505), rng.range(8193, 65505), rng.range(8193, 20000)])
        if allow_over and rng.chance(1, 25):
            n = rng.choice([65508, 65509, 70000])
        plen = rng.choice([2, 3, 5, 7, 13, 31])
        tok = "%d.%s" % (n, rng.bytes(plen).hex())
        key = expand(tok)
        if key not in used:
            used.add(key)
            return tok
    raise RuntimeError("cannot draw a fresh payload")


# ------------------------------------------------------------------ generator-side sketch of the bookkeeping (only to pick plausible ids)
class Sketch:
    def __init__(self, cfg):
        self.cfg = cfg
        self.next_sid = 1
        self.nl = 0
        self.sess = {}        # sid -> [role, peer, owner]
        self.ix = {}          # peer -> sid
        self.lq = {}          # lid -> queued count (open listeners only)
        self.lfam = {}        # lid -> 4 | 6
        self.cq = {}          # sid -> queued count

    def cap(self):
        ms = self.cfg.get("ms", 0)
        return ms and len(self.sess) >= ms

    def close(self, sid):
        s = self.sess.pop(sid, None)
        if s and s[0] == "p" and self.ix.get(s[1]) == sid:
            del self.ix[s[1]]
        self.cq.pop(sid, None)

    def any_sid(self, rng, role=None):
        c = [s for s, v in self.sess.items() if role is None or v[0] == role]
        if c and not rng.chance(1, 12):
            return rng.choice(c)
        return rng.range(1, max(2, self.next_sid + 1))

    def any_lid(self, rng):
        if self.lq and not rng.chance(1, 15):
            return rng.choice(sorted(self.lq))
        return rng.choice([0, self.nl + 1, 9, max(1, self.nl)])

    def listen(self, fam):          # 4, 6, or 0 = dual-stack
        self.nl += 1
        self.lq[self.nl] = 0
        self.lfam[self.nl] = fam

    def addr_on(self, lid, p):
        """the address id under which raw peer p appears on listener lid"""
        return p + MAPPED if self.lfam.get(lid) == 0 and p < 7 else p

    def arrive(self, lid, p):
        if p not in self.ix and not self.cap():
            self.sess[self.next_sid] = ["p", p, lid]
            self.ix[p] = self.next_sid
            self.next_sid += 1


def fam_of(p):
    return 6 if p in V6 else 4


def script(rng, n):
    k = rng.below(6)
    if k == 0:
        return "-"
    return "".join(rng.choice("oooooeex" if k < 5 else "ex") for _ in range(rng.range(1, max(1, n + 1))))


class Gen:
    """One history. Atoms are produced by a_*() (text + sketch update); an op is one atom, or a `multi` of several."""

    def __init__(self, rng, cat):
        self.rng, self.cat = rng, cat
        cfg = {}
        if cat == "cap":
            cfg["ms"] = rng.choice([1, 2, 3])
        elif cat == "queue":
            cfg["wq"] = rng.choice([0, 1, 2, 3])
            cfg["cob"] = rng.below(2)
        elif cat == "gc":
            cfg["idle"] = rng.choice([1, 30, 600])
            if rng.chance(1, 2):
                cfg["age"] = rng.choice([50, 700])
            if rng.chance(1, 2):
                cfg["stall"] = rng.choice([500, 5000])
        elif cat == "small-chunk":
            cfg["chunk"] = rng.choice([100, 1500, 65506, 65507])
        elif cat == "mixed":
            if rng.chance(1, 2): cfg["ms"] = rng.choice([2, 3, 4])
            if rng.chance(1, 2): cfg["wq"] = rng.choice([1, 2, 4])
            if rng.chance(1, 2): cfg["cob"] = rng.below(2)
            if rng.chance(1, 2): cfg["idle"] = rng.choice([1, 30])
        if rng.chance(1, 4):
            cfg["batch"] = 1
        if rng.chance(1, 4):
            cfg["et"] = 0
        elif rng.chance(1, 6):
            cfg["et"] = 1
        self.cfg = cfg
        self.g = Sketch(cfg)
        self.used = set()
        self.big_budget = 2
        self.idle_ms = cfg.get("idle", 600) * 1000
        # which peers take part: always some on 127.0.0.1; often the same-port twins on 127.0.0.2 / ::1 (the host and the family matter)
        self.dual = cat == "dual" or rng.chance(1, 6)
        if cat == "same-peer":
            self.peers = rng.choice([[0], [0, 1], [0, 5], [0, 5, 7], [1, 6]])
        elif cat == "dual":
            self.peers = rng.choice([[0, 1], [0, 5], [0, 1, 5, 6], [0, 5, 7], [0, 1, 2, 5, 6, 7]])
        elif cat == "same-key":
            self.peers = rng.choice([[0, 5], [0, 5, 7], [0, 1, 5, 6], [0, 7], [0, 1, 5, 6, 7]])
        else:
            self.peers = rng.choice([[0, 1], [0, 1, 2], [0, 1, 2, 3, 4], [0, 2, 5], [0, 1, 5, 6, 7], [0, 1, 2, 3, 4, 5, 6, 7]])
        self.ops = ["reset" + "".join(" %s=%d" % kv for kv in sorted(cfg.items()))]
        if self.dual:
            self.ops.append("listenD")
            self.g.listen(0)
        for _ in range(rng.choice([0, 1]) if cat == "dual" else rng.choice([1, 1, 2, 3])):
            self.ops.append("listen")
            self.g.listen(4)
        if any(p in V6 for p in self.peers) and not (cat == "dual" and rng.chance(1, 2)):
            self.ops.append("listen6")
            self.g.listen(6)

    def payload(self, big_ok=True, allow_over=False):
        big_ok = big_ok and self.big_budget > 0
        pl = rand_payload(self.rng, self.used, big_ok=big_ok, allow_over=allow_over)
        if int(pl.split(".")[0]) > 9000:
            self.big_budget -= 1
        return pl

    def tiny(self):
        """a 1..3-byte payload token that is new in this case (deliveries are matched by payload)"""
        for _ in range(200):
            n = self.rng.choice([1, 2, 2, 3])
            tok = "%d.%s" % (n, self.rng.bytes(n).hex())
            key = expand(tok)
            if key not in self.used:
                self.used.add(key)
                return tok
        return rand_payload(self.rng, self.used, big_ok=False)

    def peer_for(self, fam):
        c = [p for p in self.peers if fam == 0 or fam_of(p) == fam]
        return self.rng.choice(c) if c else None

    def target(self, lid=None):
        """an address id to connect to: a peer as it is, or (for a dual-stack listener / a v6 client socket) its v4-mapped form"""
        p = self.rng.choice(self.peers)
        fam = self.g.lfam.get(lid) if lid is not None else (0 if self.dual and self.rng.chance(1, 3) else None)
        if fam == 0 and p < 7 and not self.rng.chance(1, 8):
            return p + MAPPED
        return p

    # ---- atoms
    def a_dg(self, lid=None):
        g, rng = self.g, self.rng
        lid = g.any_lid(rng) if lid is None else lid
        fam = g.lfam.get(lid, 4)
        dgs = []
        burst = self.cat == "burst" and rng.chance(1, 2) or rng.chance(1, 40)
        if burst:
            # more datagrams per wake-up than any plausible read budget / than epollMaxEvents: 17..80 tiny items from a few peers
            n = rng.choice([17, 18, 20, 33, 64, 65, 80])
            ps = [p for p in (self.peer_for(fam), self.peer_for(fam)) if p is not None]
            for k in range(n if ps else 0):
                dgs.append((ps[k % len(ps)] if rng.chance(1, 3) else ps[0], self.tiny()))
        else:
            for _ in range(rng.choice([1, 1, 1, 2, 3, 4, 4, 6, 9, 16])):
                p = self.peer_for(fam)
                if p is None:
                    break
                bad = "!" if rng.chance(1, 60) else ""        # getnameinfo fails for this one datagram
                if rng.chance(1, 6 if self.cat == "burst" else 14):
                    dgs.append((p, "0.00"))                   # a zero-length datagram: consumed without an event, the loop goes on
                else:
                    dgs.append((p, self.payload(big_ok=not dgs) + bad))
        if not dgs:
            return None
        if lid in g.lq:
            for p, pl in dgs:
                if not pl.endswith("!") and not pl.startswith("0."):
                    g.arrive(lid, g.addr_on(lid, p))
        return "dg %d %s" % (lid, ",".join("%d:%s" % d for d in dgs))

    def a_cdg(self):
        rng = self.rng
        sid = self.g.any_sid(rng, "c")
        if self.cat == "burst" and rng.chance(1, 2) or rng.chance(1, 40):
            n = rng.choice([17, 18, 20, 33, 64, 65, 80])
            return "cdg %d %s" % (sid, ",".join(self.tiny() for k in range(n)))
        items = []
        for _ in range(rng.choice([1, 1, 2, 3, 4, 5, 8, 16])):
            # a zero-length datagram on a client socket is delivered as an empty view; what is queued behind it must still come out
            items.append("0.00" if rng.chance(1, 5 if self.cat == "burst" else 12) else self.payload(big_ok=False))
        return "cdg %d %s" % (sid, ",".join(items))

    def a_via(self):
        g, rng = self.g, self.rng
        lid = g.any_lid(rng)
        p = self.target(lid)
        if p >= MAPPED and g.lfam.get(lid) == 6:
            p -= MAPPED                                   # (a v4-mapped target on the ::1 socket is refused by the harness)
        sid = g.next_sid
        g.next_sid += 1
        bad = rng.chance(1, 40)
        lfam6 = g.lfam.get(lid) in (0, 6)
        if not bad and lid in g.lq and lfam6 == (p >= 7) and not g.cap():
            g.sess[sid] = ["p", p, lid]
            g.ix.setdefault(p, sid)
        return "via %d %d%s" % (lid, p, " !" if bad else "")

    def a_connect(self):
        p = self.target()
        self.g.sess[self.g.next_sid] = ["c", p, 0]
        self.g.next_sid += 1
        return "connect %d" % p

    def a_close(self):
        sid = self.g.any_sid(self.rng)
        self.g.close(sid)
        return "close %d" % sid

    def a_send(self):
        g, rng = self.g, self.rng
        sid = g.any_sid(rng)
        pl = self.payload(allow_over=True)
        ans = rng.choice(["ok", "ok", "ok", "eagain", "eagain", "err"]) if self.cat != "queue" else rng.choice(["ok", "eagain", "eagain", "eagain", "err"])
        if rng.chance(1, 40):
            pl = "0.00"
        s = g.sess.get(sid)
        if s and ans == "eagain":
            if s[0] == "c":
                g.cq[sid] = g.cq.get(sid, 0) + 1
            elif s[2] in g.lq:
                g.lq[s[2]] += 1
        elif s and ans == "err":
            g.close(sid)
        return "send %d %s %s" % (sid, pl, ans)

    def a_wl(self):
        g, rng = self.g, self.rng
        lids = [l for l, n in g.lq.items() if n] or [g.any_lid(rng)]
        lid = rng.choice(lids)
        t = "wl %d %s" % (lid, script(rng, g.lq.get(lid, 1)))
        if lid in g.lq:
            g.lq[lid] = 0
        return t

    def a_wc(self):
        g, rng = self.g, self.rng
        sids = [s for s, n in g.cq.items() if n] or [g.any_sid(rng, "c")]
        sid = rng.choice(sids)
        t = "wc %d %s" % (sid, script(rng, g.cq.get(sid, 1)))
        g.cq[sid] = 0
        return t

    def a_cmd(self):
        k = self.rng.below(10)
        return self.a_send() if k < 5 else self.a_close() if k < 7 else self.a_via() if k < 9 else self.a_connect()

    def a_multi(self):
        """One epoll batch: several socket events and/or several commands behind ONE eventfd event."""
        rng, g = self.rng, self.g
        evs, socks = [], set()
        flush_done = False
        for _ in range(rng.choice([2, 2, 3, 4])):
            k = rng.below(10)
            if k < 4:
                evs.append("cmds " + " / ".join(self.a_cmd() for _ in range(rng.choice([1, 2, 2, 3, 4])))) if not any(e.startswith("cmds") for e in evs) else None
            elif k < 7:
                lid = g.any_lid(rng)
                if ("L", lid, "i") not in socks:
                    t = self.a_dg(lid)
                    if t:
                        socks.add(("L", lid, "i"))
                        evs.append(t)
            elif k < 8:
                t = self.a_cdg()
                key = ("C", t.split()[1], "i")
                if key not in socks:
                    socks.add(key)
                    evs.append(t)
            elif k < 9 and not flush_done:
                flush_done = True
                evs.append(self.a_wl() if rng.chance(2, 3) else self.a_wc())
            elif "gc" not in evs:
                evs.append("gc")
        evs = [e for e in evs if e]
        if not evs:
            evs = ["cmds " + self.a_cmd()]
        # a command event that allocates session ids (connect / via) goes first (see the harness: ids are allocated at the API call)
        evs.sort(key=lambda e: 0 if e.startswith("cmds") and re.search(r"\b(connect|via)\b", e) else 1)
        return "multi " + " ; ".join(evs)

    def a_zl_multi(self):
        """ONE epoll batch with zero-length datagrams on SEVERAL client sockets, optionally behind a close / the GC that takes one of those
        sockets away first (its datagrams die unread; the other sockets' empty data events must still come out on their own sessions)."""
        rng, g = self.rng, self.g
        cl = sorted(s for s, v in g.sess.items() if v[0] == "c")
        if len(cl) < 2:
            return self.a_connect()
        rng.shuffle(cl)
        pick = cl[:rng.choice([2, 2, 3])]
        evs = []
        k = rng.below(4)
        if k == 0:
            victim = rng.choice(pick)
            evs.append("cmds close %d" % victim)
            g.close(victim)
        elif k == 1:
            evs.append("gc")
        for sid in pick:
            items = [self.payload(big_ok=False) for _ in range(rng.choice([0, 1, 1, 2, 3]))]
            for _ in range(rng.choice([1, 1, 2])):
                items.insert(rng.below(len(items) + 1), "0.00")
            evs.append("cdg %d %s" % (sid, ",".join(items)))
        if rng.chance(1, 3) and g.lq:
            t = self.a_dg(rng.choice(sorted(g.lq)))
            if t:
                evs.append(t)
        return "multi " + " ; ".join(evs)

    def a_burst(self):
        return "multi cmds " + " / ".join(self.a_cmd() for _ in range(self.rng.choice([2, 2, 3, 4, 5])))

    def run(self, nops):
        rng, g = self.rng, self.g
        while len(self.ops) < nops:
            k = rng.below(100)
            if self.cat == "burst" and rng.chance(1, 5) or rng.chance(1, 60):
                t = self.a_zl_multi()
                if t:
                    self.ops.append(t)
                continue
            if self.cat == "burst" and rng.chance(1, 2):
                k = rng.choice([0, 0, 32, 32, 70, 70, 75])        # mostly arrivals: dg, connect, cdg, multi
            if k < 22:
                t = self.a_dg()
            elif k < 31:
                t = self.a_via()
            elif k < 36:
                t = self.a_connect()
            elif k < 45:
                t = self.a_close()
            elif k < 61:
                t = self.a_send()
            elif k < 67:
                t = self.a_wl()
            elif k < 70:
                t = self.a_wc()
            elif k < 74:
                t = self.a_cdg()
            elif k < 82:
                t = self.a_multi()
            elif k < 90:
                t = self.a_burst()
            elif k < 95:
                im = self.idle_ms
                t = "adv %d" % rng.choice([1, 999, im - 1, im, im + 1, im // 2, 2 * im, 499, 501, 49999, 50001])
            elif k < 98:
                t = "gc"             # the sketch does not follow the clock; stale ids afterwards are fine
            else:
                t = "restart"        # stop() + start(): sessions and listeners are gone, id counters go on
                if rng.chance(1, 2):
                    # commands that race with stop(): in front of Shutdown in the same batch, or enqueued by an onClose callback of that batch
                    # (then run by shutdownDrain's leading process())
                    cmds = " / ".join(self.a_send() if rng.chance(3, 4) else self.a_close() for _ in range(rng.choice([1, 1, 2, 3])))
                    t = "restart %s%s" % ("@%d " % g.any_sid(rng) if rng.chance(1, 2) else "", cmds)
                g.sess.clear(); g.ix.clear(); g.cq.clear()
                g.lq, g.lfam = {}, {}
                self.ops.append(t)
                if rng.chance(2, 3):
                    if self.dual and rng.chance(1, 2):
                        self.ops.append("listenD")
                        g.listen(0)
                    else:
                        self.ops.append("listen")
                        g.listen(4)
                continue
            if t:
                self.ops.append(t)
        return {"cat": self.cat, "ops": self.ops, "cfg": self.cfg}


def gen_case(rng, cat, nops):
    return Gen(rng, cat).run(nops)


def boundary_cases(rng):
    """Every boundary size, in both directions, through every path: direct send, queued+flushed, listener and client socket."""
    cases = []
    for n in BOUNDARY + [65508]:
        pats = [rng.bytes(rng.choice([3, 7, 251])).hex() for _ in range(8)]
        pl = ["%d.%s" % (n, p) for p in pats]
        ops = ["reset", "listen", "connect 1"]
        if n <= MAXDG:
            ops += ["dg 1 0:%s" % pl[0], "cdg 1 %s" % pl[1]]
        else:
            ops += ["dg 1 0:1.61"]
        ops += ["send 2 %s ok" % pl[2], "send 2 %s eagain" % pl[3], "wl 1 o", "send 1 %s ok" % pl[4], "send 1 %s eagain" % pl[5], "wc 1 -"]
        if n <= MAXDG:
            ops += ["dg 1 0:%s,3:2.0102,0:%s" % (pl[6], "5.aabbccddee")]
        cases.append({"cat": "boundary", "ops": ops, "cfg": {}})
    return cases


# ------------------------------------------------------------------ property monitors (implementation output only)
def parse_answer(line):
    """-> (events [str], state dict) or None for a non-standard line"""
    if " | " not in line:
        return None
    ev, st = line.split(" | ", 1)
    evs = [] if ev == "-" else ev.split(";")
    d = {}
    for part in st.split(" "):
        if "=" in part:
            k, v = part.split("=", 1)
            d[k] = v
    return evs, d


def atoms_of(op):
    """The sub-operations of one op line: [(kind, tokens)], kinds dg/cdg/send/other."""
    t = op.split()
    if not t:
        return []
    if t[0] == "restart" and len(t) > 1:
        # restart <cmd> / … | restart @<sid> <cmd> / … : commands run in the batch that carries the Shutdown command / by shutdownDrain's leading process()
        out, cur = [], []
        for y in (t[2:] if t[1].startswith("@") else t[1:]) + ["/"]:
            if y == "/":
                if cur:
                    out.append(cur)
                cur = []
            else:
                cur.append(y)
        return out + [["restart"]]
    if t[0] != "multi":
        return [t]
    out = []
    cur = []
    for x in t[1:] + [";"]:
        if x == ";":
            if cur and cur[0] == "cmds":
                c2 = []
                for y in cur[1:] + ["/"]:
                    if y == "/":
                        if c2:
                            out.append(c2)
                        c2 = []
                    else:
                        c2.append(y)
            elif cur:
                out.append(cur)
            cur = []
        else:
            cur.append(x)
    return out


SUSPECT = ("T0:",)      # failures that may be the machinery (timeout, hang, peer-side kernel drop): decided by re-running the case


def monitor_case(c, impl):
    """Property failures visible in the implementation's own answers for this case (list of strings, tagged T0/T1/T2/T3)."""
    bad = []
    cfg = c.get("cfg", {})
    capped = cfg.get("ms", 0) > 0
    chunk = cfg.get("chunk", None)
    relaxed = capped or (chunk is not None and chunk < MAXDG)
    dual_l = set()        # listener numbers that are dual-stack (from the ops and the implementation's own L<k> answers)
    peer_of = {}          # sid -> peer (from the implementation's accept / connected events)
    open_s = set()
    recv_on = {}          # peer -> session that receives this peer's datagrams on listener sockets (from data events)
    sends = []            # accepted sends not yet matched: [len, crc, peer, sid]
    client_prev = set()   # sessions with their own (client) socket according to the implementation's previous state line
    client_now_holder = [set()]
    for op, line in zip(c["ops"], impl):
        if line.startswith("crash:timeout") or line.startswith("hang:"):
            bad.append("T0: the engine did not come back from `%s`: %s" % (op[:80], line[:60]))
            break
        if line.startswith("crash:") or line.startswith("throw"):
            bad.append("T2: the engine crashed / threw on `%s`: %s" % (op[:80], line[:80]))
            break
        pa = parse_answer(line)
        if pa is None:
            continue
        evs, st = pa
        atoms = atoms_of(op)
        client_prev, client_now = client_now_holder[0], set(int(x) for x in re.findall(r"(?:^|,)(\d+)c@", st.get("s", "")))
        client_now_holder[0] = client_now
        if op == "listenD" and evs and evs[0].startswith("L"):
            dual_l.add(evs[0][1:])
            evs = []
        elif evs and re.fullmatch(r"L\d+", evs[0]):
            evs = []
        # independent check of the index keys: every live ServerPeer session's pkey, and every index key, must be the harness's own
        # numeric formatting of the peer's address; an empty or different key means distinct peers can share one session
        if "!key" in st.get("s", "") or re.search(r"(^|,)\?>", st.get("ix", "")):
            bad.append("T2: a session's index key is not the numeric host:port of its peer (empty or truncated key(): distinct peers would share one session) "
                       "(op `%s` -> ix=%s s=%s)" % (op[:60], st.get("ix", "")[:60], st.get("s", "")[:80]))
        announced = {}
        for e in evs:
            if e[0] in "AN" and "@" in e:
                sid, p = e[1:].split("@")
                announced[int(sid)] = p
        # accepted sends of this op (a send in the same batch as the connect that creates its session counts)
        for t in atoms:
            if t[0] == "send" and len(t) == 4:
                n, crc = expand(t[2])
                sid = int(t[1])
                if n > 0 and (sid in open_s or sid in announced):
                    sends.append([n, crc, peer_of.get(sid, announced.get(sid)), sid])
        # arrivals of this op
        arrivals = []         # [kind, peer-or-sid, n, crc, group, optional]
        keyfailed = set()
        for gi, t in enumerate(atoms):
            if t[0] == "dg" and len(t) == 3:
                if ("L%s:" % t[1]) not in st.get("l", ""):
                    continue
                for item in t[2].split(","):
                    keyfail = item.endswith("!")
                    p, pl = item.rstrip("!").split(":")
                    n, crc = expand(pl)
                    if t[1] in dual_l and int(p) < 7:
                        p = str(int(p) + MAPPED)          # an IPv4 peer appears on a dual-stack listener under its v4-mapped address
                    if keyfail:
                        keyfailed.add((n, crc))           # getnameinfo failed for it: must be dropped, never delivered or indexed
                    elif n >= 1:
                        arrivals.append(["L", p, n, crc, gi, False])
            elif t[0] == "cdg" and len(t) == 3:
                sid = int(t[1])
                # a client socket that existed when the batch was built; if a command of the same batch closes it, the datagram may
                # legitimately die with the socket (optional arrival)
                # (only a session that HAD its own socket when the batch was built can receive there: the implementation's previous state line says
                # which sessions are client-socket sessions; a ServerPeer session has none, the harness sends nothing)
                if sid in open_s and sid in client_prev and (peer_of.get(sid) is not None):
                    after = re.search(r"(^|,)%dc@" % sid, st.get("s", "")) is not None
                    if after or any(e.startswith("X%d:" % sid) for e in evs):
                        for pl in t[2].split(","):
                            n, crc = expand(pl)
                            # (a zero-length datagram on a client socket comes out as ONE empty data event, crc32("") = 0)
                            arrivals.append(["C", sid, n, crc, gi, not after])
        datas = []
        for e in evs:
            k = e[0]
            if k == "A" or k == "N":
                sid, p = e[1:].split("@")
                sid = int(sid)
                if sid in peer_of:
                    bad.append("T2: session id %d announced twice (%s): ids must never be reused" % (sid, e))
                peer_of[sid] = p
                open_s.add(sid)
                if k == "A":
                    if p == "?":
                        bad.append("T2: accept from an address the harness never used (mangled peer address) (op `%s`)" % op[:60])
                    if not any(t[0] == "dg" for t in atoms):
                        bad.append("T2: accept outside a datagram arrival: %s in `%s`" % (e, op[:60]))
                    cur = recv_on.get(p)
                    if cur is not None and cur in open_s:
                        bad.append("T3: re-accept: peer %s gets a NEW session %d while session %d, which receives its datagrams, is still open (op `%s`)"
                                   % (p, sid, cur, op[:60]))
            elif k == "X":
                sid = int(e[1:].split(":")[0])
                open_s.discard(sid)
            elif k == "D":
                sid, n, crc = e[1:].split(":")
                datas.append((int(sid), int(n), int(crc)))
            elif k == "S":
                if e.startswith("S?lost"):
                    bad.append("T0: a datagram the kernel accepted from the engine never reached peer %s (op `%s`)" % (e.split(">")[-1], op[:60]))
                    continue
                if e.startswith("S?extra"):
                    bad.append("T1: a peer received a datagram no send call accounts for: %s (op `%s`)" % (e, op[:60]))
                    continue
                src, rest = e[1:].split(">")
                p, n, crc = rest.split(":")
                n, crc = int(n), int(crc)
                hit = None
                for i, s in enumerate(sends):
                    if s[0] == n and s[1] == crc and s[2] == p:
                        hit = i
                        break
                if hit is None:
                    why = "no accepted send has these bytes for this peer (not byte-identical — merged/split/altered —, wrong destination, or sent twice)"
                    if any(s[0] == n and s[1] == crc for s in sends):
                        why = "addressed to peer %s, but the session it was sent on belongs to another peer" % p
                    bad.append("T1: datagram %s received by peer %s: %s (op `%s`)" % (e, p, why, op[:60]))
                else:
                    sends.pop(hit)
        # T2: what arrived must come out as exactly one data event each, complete, on a session of that sender
        if datas and not arrivals:
            bad.append("T2: data event without a datagram arrival: %s (op `%s`)" % (datas[:3], op[:60]))
        elif arrivals or datas:
            by_key = {}
            for i, a in enumerate(arrivals):
                by_key.setdefault((a[2], a[3]), []).append(i)
            taken = set()
            last_in_group = {}
            for sid, dn, dcrc in datas:
                cand = [i for i in by_key.get((dn, dcrc), []) if i not in taken]
                if not cand and chunk is not None and chunk < MAXDG:
                    cand = [i for i, a in enumerate(arrivals) if i not in taken and a[2] > chunk and dn == chunk]   # truncated by the configured small buffer
                if not cand and (dn, dcrc) in keyfailed:
                    bad.append("T2: a datagram whose peer key could not be formed (getnameinfo failed) was delivered on session %d: it is indexed under the EMPTY key, "
                               "which every such peer shares (op `%s`)" % (sid, op[:80]))
                    continue
                if not cand:
                    bad.append("T2: data event D%d:%d:%d is not one of the datagrams that arrived (merged, split, truncated, altered or duplicated) (op `%s`)"
                               % (sid, dn, dcrc, op[:80]))
                    continue
                # several arrivals of one op can have the same fingerprint (every zero-length datagram is (0, crc 0); one may belong to a client
                # socket that a command / the GC of the same batch closed first, so it died unread): take the arrival this event is consistent
                # with — same client session, or a listener arrival from the session's peer — and only if there is none the first one (which the
                # checks below then report: an event on a session none of the matching datagrams was sent to)
                good = [i for i in cand if (arrivals[i][0] == "C" and arrivals[i][1] == sid) or
                        (arrivals[i][0] == "L" and peer_of.get(sid) == arrivals[i][1])]
                i = (good or cand)[0]
                taken.add(i)
                a = arrivals[i]
                if last_in_group.get(a[4], -1) > i:
                    bad.append("T2: datagrams of one socket delivered out of arrival order (op `%s`)" % op[:80])
                last_in_group[a[4]] = i
                if a[0] == "C":
                    if sid != a[1]:
                        bad.append("T2: datagram for client session %d delivered on session %d (op `%s`)" % (a[1], sid, op[:80]))
                    continue
                p = a[1]
                if peer_of.get(sid) != p:
                    bad.append("T2: datagram from peer %s delivered on session %d, which belongs to peer %s (op `%s`)" % (p, sid, peer_of.get(sid), op[:80]))
                if sid not in open_s and not any(e.startswith("X%d:" % sid) for e in evs):
                    bad.append("T2: datagram delivered on session %d which is not open (op `%s`)" % (sid, op[:80]))
                cur = recv_on.get(p)
                if cur is not None and cur in open_s and cur != sid:
                    bad.append("T3: redirected: peer %s's datagram lands on session %d although session %d, which receives its datagrams, is still open (op `%s`)"
                               % (p, sid, cur, op[:80]))
                recv_on[p] = sid
            missing = [a for i, a in enumerate(arrivals) if i not in taken and not a[5]]
            if missing and not relaxed:
                a = missing[0]
                who = "peer %s" % a[1] if a[0] == "L" else "the peer of client session %s" % a[1]
                bad.append("T2: %d datagram(s) arrived, %d data event(s): the %d-byte datagram from %s was never delivered (silenced) (op `%s` -> %s)"
                           % (len(arrivals), len(datas), a[2], who, op[:80], line[:90]))
    return bad


# ------------------------------------------------------------------ corpus / witnesses
def load_corpus():
    d = os.path.join(os.path.dirname(os.path.dirname(os.path.abspath(__file__))), "corpus", ID)
    out = []
    if os.path.isdir(d):
        for fn in sorted(os.listdir(d)):
            if fn.endswith(".json"):
                c = json.load(open(os.path.join(d, fn)))
                c.setdefault("cat", "corpus")
                c.setdefault("cfg", {})
                out.append(c)
    return out


def check_machinery(impl_lines):
    for l in impl_lines:
        if l and l.startswith("machinery:"):
            raise MachineryError(l)


def run_alone(ctx, hb, c, ops, timeout=60):
    out, rc, err = ctx.run_lines([hb], ops, timeout=timeout, env={"C06_FAST_LOSS": "1"})
    if rc == -999:
        out = out + ["crash:timeout"] * (len(ops) - len(out))
    else:
        out = out + ["crash:exit:%s" % rc] * (len(ops) - len(out))
    check_machinery(out)
    cc = dict(c)
    cc["ops"] = ops
    return out, monitor_case(cc, out)


def report_property(ctx, hb, c, impl, model, fails, state):
    ops = c["ops"]
    tag = fails[0].split(":")[0]
    if tag == "T0":
        # timeout / hang / a datagram lost on the way to the peer socket: the engine's fault only if it happens again, twice, alone
        again = 0
        for _ in range(2):
            _, f2 = run_alone(ctx, hb, c, ops)
            if any(f.startswith("T0:") for f in f2):
                again += 1
        if again < 2:
            state["machinery_suspects"].append({"what": fails[0], "ops": ops, "reproduced": again})
            ctx.log("machinery suspect (did not reproduce twice alone): %s" % fails[0][:160])
            return False
    if not ctx.violation_budget("property", fails[0]):
        ctx.violation("property", fails[0])
        return True

    def still(sub):
        if not sub or not sub[0].startswith("reset"):
            sub = [ops[0]] + [o for o in sub if not o.startswith("reset")]
        _, f2 = run_alone(ctx, hb, c, sub, timeout=40)
        return any(f.split(":")[0] == tag for f in f2)
    small = ops
    hung = "did not come back" in fails[0]
    if hung:
        # every re-run of a hang costs a full watchdog period: keep the history up to the op that hangs, do not minimise further
        k = next((i for i, l in enumerate(impl) if l.startswith("hang:") or l.startswith("crash:timeout")), len(ops) - 1)
        small = ops[:k + 1]
        state["hang_confirmed"] = True
    try:
        if not hung and len(ops) > 3 and still(ops):
            small = ddmin(ops, still, max_tests=40 if tag != "T0" else 6)
            if not small[0].startswith("reset"):
                small = [ops[0]] + small
    except MachineryError:
        raise
    except Exception:
        small = ops
    out = impl[:len(small)] if hung else run_alone(ctx, hb, c, small, timeout=40)[0]
    ctx.violation("property", fails[0], {"ops": small, "observed": out, "failures": fails[:5], "category": c["cat"], "cfg": c.get("cfg", {}),
                                         "full_ops": ops if small is not ops else None, "expected_by_model": model if small is ops else None},
                  found_input=True)
    return True


HARNESS_COUNTS = {}      # sums of the harness-side counters (stderr line `interposers: k=v …`) over every lockstep run of this check


def add_interposer_counts(err):
    for l in (err or "").splitlines():
        if l.startswith("interposers:"):
            for kv in l.split()[1:]:
                k, v = kv.split("=")
                if k == "maxBurst":
                    HARNESS_COUNTS[k] = max(HARNESS_COUNTS.get(k, 0), int(v))
                else:
                    HARNESS_COUNTS[k] = HARNESS_COUNTS.get(k, 0) + int(v)


# ------------------------------------------------------------------ free-running family: the REAL epoll_wait decides (monitors only)
FREE_OPS = ["free burst 20", "free burst 80", "free burst 64 et=0", "free zl", "free zl et=0", "free flush", "free flush et=0"]


def free_family(ctx, hb, state):
    """Real epoll, real clock, no fabricated event. Returns property failures [(what, op, answer)]; a scenario that fails is re-run twice
    (timing): only a failure that reproduces both times counts."""
    def judge(op, line):
        parts = [x.strip() for x in line.split("|")]
        if len(parts) != 3 or not parts[0].startswith("free"):
            return "T0: free-running scenario gave no answer: %s" % line[:80]
        before, after = parts[1], parts[2]
        t = op.split()
        if t[1] == "burst":
            n = int(t[2])
            if before != "data=%d/%d" % (n, n):
                return ("T2: real epoll, ONE readiness edge for a burst of %d datagrams: only %s data events; the rest stays in the kernel queue until new traffic "
                        "arrives (after one more datagram: %s)" % (n, before.split("=")[-1], after))
            if after != "data=%d/%d" % (n + 1, n + 1):
                return "T2: real epoll: after a burst of %d, one more datagram: %s data events" % (n, after)
        elif t[1] == "zl":
            ev = before.split(";")
            if not (len(ev) == 3 and ev[1].endswith(":0:0") and ev[2].split(":")[1] == "5"):
                return ("T3: real epoll: a 5-byte datagram queued behind a zero-length one on a connect()ed session was not delivered (events: %s; after a third "
                        "datagram: %s)" % (before, after))
        elif t[1] == "flush":
            if "peer-received=exact" not in after or "duplicate" in after:
                return "T1: real epoll: a datagram queued on EAGAIN was not flushed exactly once by the real EPOLLOUT report (%s)" % after
        return None
    out, rc, err = ctx.run_lines([hb], FREE_OPS, timeout=120)
    check_machinery(out)
    res = []
    state["free_running"] = {}
    for op, line in zip(FREE_OPS, out + ["-"] * (len(FREE_OPS) - len(out))):
        state["free_running"][op] = line[:160]
        why = judge(op, line)
        if why:
            again = 0
            for _ in range(2):
                o2, _, _ = ctx.run_lines([hb], [op], timeout=60)
                check_machinery(o2)
                if judge(op, o2[0] if o2 else "-"):
                    again += 1
            if again == 2:
                res.append((why, op, line))
            else:
                state["machinery_suspects"].append({"what": why, "ops": [op], "reproduced": again})
    return res


def lockstep_bounded(ctx, hb, cases, timeout, max_crashes=2):
    """Like ctx.lockstep, but the work on a broken tree is bounded: at most `max_crashes` harness restarts, then the remaining cases are
    not run (returned as None)."""
    all_ops, bounds = [], []
    for c in cases:
        bounds.append((len(all_ops), len(all_ops) + len(c["ops"])))
        all_ops += c["ops"]
    model_out, mrc, merr = ctx.run_lines(ctx.model_argv("udp"), all_ops, timeout=timeout)
    if mrc != 0 or len(model_out) != len(all_ops):
        raise RuntimeError("model driver failed rc=%s lines=%d/%d: %s" % (mrc, len(model_out), len(all_ops), merr[-500:]))
    impl_out = [None] * len(all_ops)
    start_case, crashes = 0, 0
    from vlib.core import classify_crash
    while start_case < len(cases):
        lo = bounds[start_case][0]
        out, rc, err = ctx.run_lines([hb], all_ops[lo:], timeout=timeout)
        add_interposer_counts(err)
        for i, l in enumerate(out[: len(all_ops) - lo]):
            impl_out[lo + i] = l
        got = lo + min(len(out), len(all_ops) - lo)
        if got >= len(all_ops) and rc == 0:
            break
        crashes += 1
        why = classify_crash(rc, err)
        k = next(i for i, (a, b) in enumerate(bounds) if a <= got < b) if got < len(all_ops) else len(cases) - 1
        for i in range(got, bounds[k][1]):
            if impl_out[i] is None or not impl_out[i].startswith("hang:"):
                impl_out[i] = "crash:" + why
        cases[k]["crash"] = {"rc": rc, "why": why, "stderr": err[-1500:], "op_index": got - bounds[k][0]}
        start_case = k + 1
        if crashes >= max_crashes:
            break
    res = []
    for c, (a, b) in zip(cases, bounds):
        if any(x is None for x in impl_out[a:b]):
            res.append((c, None, model_out[a:b]))
        else:
            res.append((c, impl_out[a:b], model_out[a:b]))
    ctx.cov["traces_validated_against_impl"] += sum(1 for r in res if r[1] is not None)
    return res, crashes


def replay(ctx):
    obj = json.load(open(ctx.replay))
    ops = obj.get("ops") or []
    ctx.translate(["udp"])
    ctx.lake_build(MODULES)
    hb = ctx.build_harness(HARNESS, sanitize=True)
    if not hb or not ops:
        print("replay: nothing to run (kind=%s)" % obj.get("kind"))
        return 1 if ctx.violations else 0
    c = {"cat": obj.get("category", "corpus"), "ops": ops, "cfg": obj.get("cfg", {})}
    (c, impl, model), = ctx.lockstep("udp", hb, [c])
    check_machinery(impl)
    for o, a, b in zip(ops, impl, model):
        print("op    %s\n impl  %s\n model %s" % (o[:200], a[:200], b[:200]))
    fails = monitor_case(c, impl)
    for f in fails:
        print("PROPERTY FAILS:", f[:300])
    still = bool(fails) or impl != model
    print("replay: %s" % ("still failing" if still else "no longer failing"))
    import shutil
    shutil.rmtree(ctx.work, ignore_errors=True)
    return 1 if still else 0


CATS = [("default", 24), ("same-peer", 13), ("same-key", 9), ("dual", 9), ("queue", 13), ("cap", 7), ("gc", 8), ("mixed", 10), ("small-chunk", 4), ("burst", 6)]


def run(ctx: Ctx):
    if ctx.replay:
        return replay(ctx)
    quick = ctx.tier == "quick"
    ncases = 2500 if quick else 30000
    rng = ctx.rng
    changed = []
    if ctx.translate(["udp"]):
        changed = anchors_changed(ctx)
        ctx.extra["mirrored_source_changed_since_review"] = changed
    force_long = [k for k in changed if k in KEY_ANCHORS]
    if force_long:
        ctx.log("NOTE: %s changed since the model was reviewed: running extra long-address (dual-stack / v4-mapped / same-port) cases" % ", ".join(force_long))
        ctx.notes.append("key()/address code changed since review (%s): extra long-address cases were run" % ", ".join(force_long))
    force_loop = [k for k in changed if k in LOOP_ANCHORS]
    if force_loop:
        ctx.log("NOTE: %s changed since the model was reviewed: running extra burst / zero-length cases" % ", ".join(force_loop))
        ctx.notes.append("receive-loop / dispatch code changed since review (%s): extra burst and zero-length cases were run" % ", ".join(force_loop))
    ok_build = ctx.lake_build(MODULES)
    if ok_build:
        ctx.audit(MODULES, OBLIGATIONS)
        if not quick:
            ctx.leanchecker(MODULES + ["IoraModel.Lemmas.UdpTokens", "IoraModel.Lemmas.UdpCount", "IoraModel.Lemmas.UdpArm", "IoraModel.Lemmas.UdpWake", "IoraModel.Model.UdpWake", "IoraModel.Lemmas.UdpEngine",
                                       "IoraModel.Model.UdpEngine", "IoraModel.Gen.Udp"])
    else:
        ctx.cov["obligations"] = len(OBLIGATIONS)
    hb = ctx.build_harness(HARNESS, sanitize=True)
    dist, opdist, evdist = {}, {}, {}
    burstdist = {"1": 0, "2-4": 0, "5-16": 0, "17-64": 0, "65+": 0}
    cfgdist = {"cases": 0, "batch=1": 0, "et=0": 0, "et=1(explicit)": 0, "cob=0": 0, "cap": 0}
    edist = {"keyfail": 0}
    sizes = {"1": 0, "2-1472": 0, "1473-8192": 0, "8193-65505": 0, "65506": 0, "65507": 0, ">65507": 0, "0": 0}
    peers_used = {}
    state = {"machinery_suspects": [], "stopped_early": None, "not_run": 0, "harness_restarts": 0}
    if hb:
        first = load_corpus() + boundary_cases(rng.fork("boundary"))     # corpus = witnesses and targeted scenarios, always first
        total = sum(w for _, w in CATS)
        grng = rng.fork("gen")
        rest = []
        for cat, w in CATS:
            for i in range(ncases * w // total):
                rest.append(gen_case(grng, cat, grng.choice([8, 12, 20, 30, 40, 40])))
        if force_long:
            for i in range(max(150, ncases // 8)):
                rest.append(gen_case(grng, "dual" if i % 3 else "same-key", grng.choice([12, 20, 30])))
        if force_loop:
            for i in range(max(120, ncases // 10)):
                rest.append(gen_case(grng, "burst", grng.choice([8, 12, 20])))
        grng.shuffle(rest)          # every chunk sees every category
        chunk_n = 500 if quick else 2500
        chunks = [first] + [rest[i:i + chunk_n] for i in range(0, len(rest), chunk_n)]
        n_mismatch = 0
        n_prop = 0
        for ci, chunk in enumerate(chunks):
            res, crashes = lockstep_bounded(ctx, hb, chunk, timeout=150 if quick else 600)
            state["harness_restarts"] += crashes
            for c, impl, model in res:
                if impl is None:
                    state["not_run"] += 1
                    continue
                try:
                    check_machinery(impl)
                except MachineryError as me:
                    # a broken tree can break the machinery too (datagrams the engine never reads fill the socket's receive buffer): once failing
                    # inputs are in hand they are the result; without any, it is the machinery (exit 2)
                    if n_prop == 0:
                        raise
                    state["stopped_early"] = "machinery failure (%s) after %d property failure(s) with a failing input" % (str(me)[:80], n_prop)
                    state["machinery_after_failures"] = True
                    break
                dist[c["cat"]] = dist.get(c["cat"], 0) + 1
                cf = c.get("cfg", {})
                cfgdist["cases"] += 1
                cfgdist["batch=1"] += 1 if cf.get("batch") == 1 else 0
                cfgdist["et=0"] += 1 if cf.get("et") == 0 else 0
                cfgdist["et=1(explicit)"] += 1 if cf.get("et") == 1 else 0
                cfgdist["cob=0"] += 1 if cf.get("cob") == 0 else 0
                cfgdist["cap"] += 1 if cf.get("ms") else 0
                nontrivial = False
                for op, l in zip(c["ops"], impl):
                    for t in atoms_of(op):
                        opdist[t[0]] = opdist.get(t[0], 0) + 1
                        toks = []
                        if t[0] == "dg" and len(t) == 3:
                            for x in t[2].split(","):
                                p, pl = x.rstrip("!").split(":")
                                peers_used[p] = peers_used.get(p, 0) + 1
                                toks.append(pl)
                                if x.endswith("!") and not pl.startswith("0.") and ("L%s:" % t[1]) in (parse_answer(l) or ([], {}))[1].get("l", ""):
                                    edist["keyfail"] += 1
                        elif t[0] == "cdg" and len(t) == 3:
                            toks = t[2].split(",")
                        if t[0] in ("dg", "cdg") and len(t) == 3:
                            nb = len(toks)
                            burstdist["1" if nb == 1 else "2-4" if nb <= 4 else "5-16" if nb <= 16 else "17-64" if nb <= 64 else "65+"] += 1
                        elif t[0] == "send" and len(t) == 4:
                            toks = [t[2]]
                        for tok in toks:
                            n = int(tok.split(".")[0])
                            key = "0" if n == 0 else "1" if n == 1 else "2-1472" if n <= 1472 else "1473-8192" if n <= 8192 else \
                                "8193-65505" if n <= 65505 else "65506" if n == 65506 else "65507" if n == 65507 else ">65507"
                            sizes[key] += 1
                    if op.startswith("multi"):
                        opdist["multi"] = opdist.get("multi", 0) + 1
                    pa = parse_answer(l)
                    if pa:
                        for e in pa[0]:
                            k = e[0] + (":" + e.split(":")[-1] if e[0] == "X" else "")
                            evdist[k] = evdist.get(k, 0) + 1
                            if e[0] in "ADS":
                                nontrivial = True
                ctx.count_case("\n".join(c["ops"]), nontrivial=nontrivial)
                if len(ctx.cov["samples"]) < 6 and ctx.rng.chance(1, 300):
                    ctx.sample({"cat": c["cat"], "ops": c["ops"][:8], "impl": [l[:140] for l in impl[:8]]})
                fails = monitor_case(c, impl)
                mism = [(i, a, b) for i, (a, b) in enumerate(zip(impl, model)) if a != b]
                if fails and (n_prop >= 3 or state.get("hang_confirmed")):
                    ctx.violation("property", fails[0])          # counted, not minimised: three failing inputs are in hand
                elif fails:
                    n_prop += 1 if report_property(ctx, hb, c, impl, model, fails, state) else 0
                elif mism:
                    n_mismatch += 1
                    if n_mismatch <= 3:
                        i, a, b = mism[0]
                        ctx.violation("correspondence", "model and implementation disagree (no property monitor fails on this case): op `%s` impl=`%s` model=`%s`"
                                      % (c["ops"][i][:120], a[:160], b[:160]),
                                      {"broken": {"correspondence": "udp lockstep (harness/c06_udp.cpp vs Model/UdpEngine.lean)", "detail": "first differing op index %d" % i},
                                       "ops": c["ops"], "observed": impl, "expected_by_model": model, "cfg": c.get("cfg", {})}, found_input=False)
            # bounded work on a broken tree: once a few failing inputs are in hand (or the harness keeps dying), more cases add nothing
            if state.get("machinery_after_failures"):
                break
            if n_prop >= 3 or n_mismatch >= 30 or state["harness_restarts"] >= 2 or len(state["machinery_suspects"]) >= 4 or state.get("hang_confirmed"):
                if ci + 1 < len(chunks):
                    state["stopped_early"] = "after chunk %d of %d: %d property failure(s), %d model/impl mismatch(es), %d harness restart(s)" % (
                        ci + 1, len(chunks), n_prop, n_mismatch, state["harness_restarts"])
                    state["not_run"] += sum(len(x) for x in chunks[ci + 1:])
                break
        if not state.get("hang_confirmed") and state["harness_restarts"] < 2 and not state.get("machinery_after_failures"):
            for why, op, line in free_family(ctx, hb, state):
                ctx.violation("property", why, {"ops": [op], "observed": [line], "category": "free-running (real epoll_wait, no model)", "cfg": {}}, found_input=True)
        if state["machinery_suspects"] and not ctx.violations:
            # a timeout / lost datagram that did not reproduce and nothing else wrong: the machinery, not the property (exit 2, no VIOLATION)
            raise MachineryError("non-reproducing timeout/lost-datagram: %s" % state["machinery_suspects"][0]["what"][:200])
        # interposer fire counts (stderr of the harness) on a fixed sample: corpus + boundary cases
        sample_ops = [o for c in first[:16] for o in c["ops"]]
        _, _, err = ctx.run_lines([hb], sample_ops, timeout=300)
        for l in err.splitlines():
            if l.startswith("interposers:"):
                ctx.extra["interposer_counts_on_corpus_and_boundary_sample"] = dict(kv.split("=") for kv in l.split()[1:])
    hc = dict(HARNESS_COUNTS)
    ctx.extra["input_distribution"] = {"categories": dist, "ops": opdist, "payload_sizes": sizes, "events_seen": evdist, "datagrams_by_peer": peers_used,
                                       "datagrams_per_wakeup": burstdist, "cfg_flags": cfgdist,
                                       "branches_measured_in_harness": {
                                           "send_eagain_injected_total": hc.get("eagain", 0), "send_error_injected_total": hc.get("err", 0),
                                           "overflow_close_session(cob=1)": hc.get("overflowClose", 0), "overflow_drop_oldest(cob=0)": hc.get("overflowDropOldest", 0),
                                           "gc_closed_by_idle": hc.get("gcIdle", 0), "gc_closed_by_age": hc.get("gcAge", 0), "gc_closed_by_write_stall": hc.get("gcStall", 0),
                                           "merged_IN|OUT_events": hc.get("mergedInOut", 0), "zero_length_arrivals": hc.get("zeroLenArrivals", 0),
                                           "largest_burst_per_wakeup": hc.get("maxBurst", 0), "level_triggered_redeliveries": hc.get("ltRedeliveries", 0),
                                           "epoll_ctl_failed": hc.get("epollCtlFailed", 0), "getnameinfo_failed(E from key failure)": hc.get("getnameinfoFailed", 0),
                                           "E_events_from_flush_errors": max(0, evdist.get("E", 0) - edist["keyfail"]), "E_events_from_key_failure": edist["keyfail"],
                                           "peer_bind_same_port_fallbacks": hc.get("samePortFallback", 0),
                                           "sendAsync_calls": hc.get("sendAsyncCalls", 0), "restart_with_commands_in_the_shutdown_batch": hc.get("restartWithPending", 0),
                                           "restart_with_commands_enqueued_by_onClose(leading process() of shutdownDrain)": hc.get("restartFromCallback", 0)}}
    if hc.get("samePortFallback", 0):
        ctx.notes.append("REACH LOST: a same-port twin peer (127.0.0.2 / ::1) could not bind the port of its 127.0.0.1 twin and fell back to a random port "
                         "(%d time(s)): the 'same port, other host/family' cases did not exercise the host part of the key" % hc["samePortFallback"])
    ctx.extra["bounded_work"] = state
    ctx.extra["repo_tree_sha"] = ctx.repo_tree_sha(ANCHOR_FILES)
    ctx.extra["not_proved"] = NOT_PROVED
    ctx.assumptions += ASSUMPTIONS
    return ctx.finish(level="proof", rule="a case = one history (<= 40 ops, an op may be a batch of several events/commands) run from a fresh real UdpEngine; "
                      "distinct = distinct op lists; non-trivial = at least one accept, data or sent-datagram event")


NOT_PROVED = [
    "by design, not a defect: with a CONFIGURED maxSessions cap reached (default: no cap, pinned by G3) a datagram from an UNKNOWN peer is dropped without any event; "
    "T2 carries the explicit hypothesis `Admitted` and T2_refused_exactly / T2_counter_exact say precisely when it fails",
    "failure arms of connectDo/viaDo other than the address-family mismatch (getaddrinfo failure, ::connect failure) and hard recv/recvfrom errors are not modelled: "
    "they create no session and touch no index entry (lifecycle = C02)",
    "theorems are over sequences of I/O-thread steps (one epoll event / one command each); a multi-event batch is the sequence of its events in the order the loop "
    "flavour handles them (Model.batchOrder; the harness exercises both flavours); API calls on other threads only enqueue commands, so their order is the step order. "
    "Concurrent callers racing on the id counter are outside the model (G7 pins the counter to std::atomic)",
    "zero-length datagrams are outside the property's size range (1..65507) but not outside the model: on a listener they are consumed without an event, on a client "
    "socket they are delivered as ONE empty view; in both cases the loop goes on (onClient: the FC06b repair — G8 pins it, FC06b_refuted_with_zero_length_break shows what the `break` did)",
    "SCOPE: the property is decided for the engine's DATA EVENTS (EngineBase::Callbacks::onData = Transport in ASYNC read mode). Transport in SYNC read mode "
    "(setReadMode(Sync), transport_impl.hpp: onData appends every datagram to ONE per-session byte buffer, receiveSync cuts it at the caller's length) is a byte-stream "
    "view by design: datagram boundaries are merged/split there. That adapter is not modelled here (its own properties: C03/C04); a caller that needs boundaries on UDP uses the data callback",
    "hard recv/recvfrom errors (not EAGAIN): readFromListener reports and leaves the loop (left-overs wait for the next arrival under EPOLLET), onClient closes the session; "
    "modelled only as 'the wake-up ends' (no input produces them on loopback); shutdownDrain's RESIDUAL-command loop (a connect()/connectViaListener() enqueued after its "
    "leading process(): the id is closed with ShuttingDown) is not modelled or driven; the leading process() and commands sharing the batch with Shutdown are (op `restart <cmds>`)",
    "the wake-up layer (Model/UdpWake.lean) models ONE socket's EPOLLIN per step; that epoll_wait reports every ready descriptor within epollMaxEvents rounds, and that "
    "an arrival on an EPOLLET socket always produces a report, are kernel facts (assumed; exercised by the free-running family on the real epoll)",
    "KeyInjective (distinct socket addresses have distinct key() strings) is an explicit HYPOTHESIS of T2_one_datagram, T2_burst, T3_next_datagram and T3_trace, not a theorem: "
    "G6 pins what the source decides (shape, buffer sizes, empty key refused); getnameinfo itself is exercised, not proved — same-port peers on 127.0.0.1 / 127.0.0.2 / ::1, "
    "and the v4-mapped forms ::ffff:127.0.0.x:<port> (16+ character hosts) on a dual-stack listener, with a monitor that compares every live session's pkey with the harness's own "
    "inet_ntop formatting (corpus m3-*, c06c-*, categories same-key and dual). Long native / scoped IPv6 addresses are not exercised (adding addresses to lo needs privileges)",
    "G5 pins the flags and socket options the engine passes TODAY; what an option that is not on the whitelist would do is not modelled (the obligation simply fails)",
]
ASSUMPTIONS = [
    "kernel UDP is modelled, not verified: one successful send/sendto with flags MSG_NOSIGNAL = one datagram with these bytes to this destination; a connected socket only returns its peer's datagrams; "
    "epoll reports a socket only for events in the interest mask last set by a SUCCESSFUL epoll_ctl; an edge-triggered socket is reported when a datagram arrives, "
    "a level-triggered one whenever its queue is non-empty",
    "getnameinfo's numeric host:port key is injective on socket addresses (the model identifies the string key with the address)",
    "the I/O thread is the only thread that touches the tables; one model step = one epoll event or one queued command",
    "callbacks do not re-enter the engine synchronously (close()/send() from a callback only enqueue a command, which is a later step)",
]
