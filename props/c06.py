"""C06 — UDP keeps datagram boundaries and the peer-to-session mapping (DESIGN §7 C06).

Model: lean/IoraModel/Model/UdpEngine.lean (the I/O thread's bookkeeping, one step per epoll event; the kernel's answers are inputs).
Tie:   tools/tr_udp.py -> Gen/Udp.lean (config defaults, receive-buffer shape, every `_peerIndex` mutation site and its guard)
       + lockstep of the REAL UdpEngine (real I/O thread, real loopback sockets, single-stepped behind an epoll_wait interposer,
         send/sendto answers scripted) against the model driver, + implementation-only property monitors.
"""
import json, os, zlib
from vlib.core import Ctx, ddmin

ID = "C06"
MODULES = ["IoraModel.Props.C06"]
OBLIGATIONS = [
    {"id": "C06_G1", "theorem": "Iora.C06.G1_recv_buffer_holds_max_datagram", "kind": "proved",
     "statement": "the receive buffer is ioReadChunk bytes and ioReadChunk >= 65507 (translated default): no truncation"},
    {"id": "C06_G2", "theorem": "Iora.C06.G2_closeNow_erase_guarded", "kind": "proved",
     "statement": "closeNow erases _peerIndex[pkey] only when it maps to the closing session (translated from the source)"},
    {"id": "C06_G3", "theorem": "Iora.C06.G3_index_sites", "kind": "proved",
     "statement": "_peerIndex is mutated only at the four mirrored sites, inserts only for absent keys, no default session cap"},
    {"id": "C06_T1_once", "theorem": "Iora.C06.T1_at_most_one", "kind": "proved",
     "statement": "for every history no two sent datagrams belong to the same accepted send (EAGAIN queues, flushes, overflow drops, closes included)"},
    {"id": "C06_T1_faithful", "theorem": "Iora.C06.T1_faithful", "kind": "proved",
     "statement": "for every history a sent datagram with token t: input t is cmdSend sid <same bytes>, sid was open then, dest = its peer then, socket = its socket"},
    {"id": "C06_T2_inv", "theorem": "Iora.C06.T2_index_sound", "kind": "proved",
     "statement": "after every history each index entry points to an open ServerPeer session of that very peer"},
    {"id": "C06_T2_one", "theorem": "Iora.C06.T2_one_datagram", "kind": "proved",
     "statement": "after every history one admitted datagram of 1..65507 bytes = exactly one data event, whole, on a session of its sender; accept iff unknown"},
    {"id": "C06_T2_counter", "theorem": "Iora.C06.T2_counter_exact", "kind": "proved",
     "statement": "after every history sessionsCurrent (what the cap is tested against) = number of open sessions"},
    {"id": "C06_T2_refused", "theorem": "Iora.C06.T2_refused_exactly", "kind": "proved",
     "statement": "a non-admitted datagram (unknown peer while a configured cap is reached) changes nothing and produces no event"},
    {"id": "C06_T2_burst", "theorem": "Iora.C06.T2_burst", "kind": "proved",
     "statement": "a whole recvfrom loop: data events = the datagrams, same number/order/bytes, each on a session of its sender"},
    {"id": "C06_T2_client", "theorem": "Iora.C06.T2_client", "kind": "proved",
     "statement": "client socket: one data event per datagram, whole, on that session"},
    {"id": "C06_T2_nonull", "theorem": "Iora.C06.T2_no_null_session", "kind": "proved",
     "statement": "_sessions[sid] in readFromListener never hits a missing session"},
    {"id": "C06_T3_next", "theorem": "Iora.C06.T3_next_datagram", "kind": "proved",
     "statement": "if a -> sid, the next datagram from a (any listener) is data on sid, no accept, mapping kept"},
    {"id": "C06_T3_step", "theorem": "Iora.C06.T3_step", "kind": "proved",
     "statement": "any step keeps a -> sid unless it closes sid itself (closing another session never redirects or silences)"},
    {"id": "C06_T3_hist", "theorem": "Iora.C06.T3_history", "kind": "proved",
     "statement": "along any continuation that does not close sid: a -> sid at the end and no accept for a"},
    {"id": "C06_T3_shutdown", "theorem": "Iora.C06.T3_shutdown_index_empty", "kind": "proved",
     "statement": "stop()+start() after any history leaves the index empty, for either form (guarded/unconditional) of shutdownDrain's erase"},
    {"id": "C06_T3_F17", "theorem": "Iora.C06.T3_refuted_without_guard", "kind": "proved",
     "statement": "with the unrepaired unconditional erase T3_step is false (4-step witness): the guard is necessary"},
]
ANCHOR_FILES = ["include/iora/network/detail/udp_engine.hpp", "include/iora/network/transport_types.hpp"]
HARNESS = "harness/c06_udp.cpp"
BOUNDARY = [1, 2, 1472, 1473, 8192, 65506, 65507]
MAXDG = 65507
NPEERS = 5


# body hashes of the mirrored C++ functions at the time the model was reviewed (tree = /repo HEAD + fixes/F17 patch); a difference is
# reported in the evidence ("mirrored source changed since the model was reviewed"), it is NOT an alarm: the lockstep decides.
REVIEWED_ANCHORS = {"readFromListener": "0fc1a2b6bcc6b684", "onClient": "6369b4f050f08873", "connectDo": "e39df8c854b7fcfc",
                    "viaDo": "8dd0f624e79b440d", "sendDo": "394eac844294f72c", "flushListener": "29f73234632388ee",
                    "writeClient": "1f8857d0c0cc1bd0", "closeNow": "62ca6ab7c0e25b36", "runGc": "0dacf43630d8a35b",
                    "shutdownDrain": "8a475c343c6acaec", "updateListener": "0f20c0f2a9bff3e5", "updateClient": "b5487b42a89214cd",
                    "process": "e158fb026fb1d6df"}


def anchors_changed(ctx):
    import re
    from vlib.core import LEAN
    try:
        txt = open(os.path.join(LEAN, "IoraModel", "Gen", "Udp.lean")).read()
    except OSError:
        return ["Gen/Udp.lean missing"]
    cur = dict(re.findall(r'\("(\w+)", "([0-9a-f]{16})"\)', txt))
    return sorted(k for k in REVIEWED_ANCHORS if cur.get(k) != REVIEWED_ANCHORS[k])


class MachineryError(Exception):
    pass


# ------------------------------------------------------------------ payload tokens  <len>.<hexpattern>
_exp_cache = {}


def expand(tok):
    r = _exp_cache.get(tok)
    if r is None:
        n, hx = tok.split(".")
        n = int(n)
        pat = bytes.fromhex(hx)
        b = (pat * (n // len(pat) + 1))[:n] if n else b""
        r = (n, zlib.crc32(b) & 0xFFFFFFFF)
        if len(_exp_cache) < 200000:
            _exp_cache[tok] = r
    return r


def rand_payload(rng, big_ok=True, allow_over=False):
    k = rng.below(20)
    if k < 11:
        n = rng.range(1, 48)
    elif k < 14:
        n = rng.range(49, 1600)
    elif k < 18 or not big_ok:
        n = rng.choice([1, 2, 3, 255, 256, 1472, 1473, 1500, 8192])
    else:
        n = rng.choice(BOUNDARY + [65507, 65506, 40000])
    if allow_over and rng.chance(1, 25):
        n = rng.choice([65508, 65509, 70000])
    plen = rng.choice([1, 2, 3, 5, 7, 13, 31])
    pat = rng.bytes(plen)
    return "%d.%s" % (n, pat.hex())


# ------------------------------------------------------------------ generator-side sketch of the bookkeeping (only to pick plausible ids)
class Sketch:
    def __init__(self, cfg):
        self.cfg = cfg
        self.next_sid = 1
        self.nl = 0
        self.sess = {}        # sid -> [role, peer, owner]
        self.ix = {}          # peer -> sid
        self.lq = {}          # lid -> queued count
        self.cq = {}          # sid -> queued count

    def cap(self):
        ms = self.cfg.get("ms", 0)
        return ms and len(self.sess) >= ms

    def close(self, sid):
        s = self.sess.pop(sid, None)
        if s and s[0] == "p" and self.ix.get(s[1]) == sid:
            del self.ix[s[1]]
        self.cq.pop(sid, None)

    def any_sid(self, rng, role=None):
        c = [s for s, v in self.sess.items() if role is None or v[0] == role]
        if c and not rng.chance(1, 12):
            return rng.choice(c)
        return rng.range(1, max(2, self.next_sid + 1))

    def any_lid(self, rng):
        if self.lq and not rng.chance(1, 15):
            return rng.choice(sorted(self.lq))
        return rng.choice([0, self.nl + 1, 9, max(1, self.nl)])


def script(rng, n):
    k = rng.below(6)
    if k == 0:
        return "-"
    return "".join(rng.choice("oooooeex" if k < 5 else "ex") for _ in range(rng.range(1, max(1, n + 1))))


def gen_case(rng, cat, nops):
    cfg = {}
    if cat == "default":
        pass
    elif cat == "cap":
        cfg["ms"] = rng.choice([1, 2, 3])
    elif cat == "queue":
        cfg["wq"] = rng.choice([0, 1, 2, 3])
        cfg["cob"] = rng.below(2)
    elif cat == "gc":
        cfg["idle"] = rng.choice([1, 30, 600])
        if rng.chance(1, 2):
            cfg["age"] = rng.choice([50, 700])
        if rng.chance(1, 2):
            cfg["stall"] = rng.choice([500, 5000])
    elif cat == "small-chunk":
        cfg["chunk"] = rng.choice([100, 1500, 65506, 65507])
    elif cat == "mixed":
        if rng.chance(1, 2): cfg["ms"] = rng.choice([2, 3, 4])
        if rng.chance(1, 2): cfg["wq"] = rng.choice([1, 2, 4])
        if rng.chance(1, 2): cfg["cob"] = rng.below(2)
        if rng.chance(1, 2): cfg["idle"] = rng.choice([1, 30])
    if rng.chance(1, 4):
        cfg["batch"] = 1
    if rng.chance(1, 4):
        cfg["et"] = 0
    npeers = rng.choice([1, 2, 2, 3, NPEERS]) if cat != "same-peer" else rng.choice([1, 2])
    ops = ["reset" + "".join(" %s=%d" % kv for kv in sorted(cfg.items()))]
    g = Sketch(cfg)
    for _ in range(rng.choice([1, 1, 2, 3])):
        ops.append("listen")
        g.nl += 1
        g.lq[g.nl] = 0
    big_budget = 2
    idle_ms = cfg.get("idle", 600) * 1000
    while len(ops) < nops:
        k = rng.below(100)
        if k < 26:
            lid = g.any_lid(rng)
            dgs = []
            for _ in range(rng.choice([1, 1, 1, 2, 3])):
                p = rng.below(npeers)
                pl = rand_payload(rng, big_ok=big_budget > 0 and not dgs)
                if int(pl.split(".")[0]) > 9000:
                    big_budget -= 1
                dgs.append((p, pl))
            ops.append("dg %d %s" % (lid, ",".join("%d:%s" % d for d in dgs)))
            if 1 <= lid <= g.nl:
                for p, pl in dgs:
                    if p not in g.ix and not g.cap():
                        g.sess[g.next_sid] = ["p", p, lid]
                        g.ix[p] = g.next_sid
                        g.next_sid += 1
        elif k < 38:
            lid = g.any_lid(rng)
            p = rng.below(npeers)
            ops.append("via %d %d" % (lid, p))
            sid = g.next_sid
            g.next_sid += 1
            if 1 <= lid <= g.nl and not g.cap():
                g.sess[sid] = ["p", p, lid]
                g.ix.setdefault(p, sid)
        elif k < 45:
            p = rng.below(npeers)
            ops.append("connect %d" % p)
            g.sess[g.next_sid] = ["c", p, 0]
            g.next_sid += 1
        elif k < 57:
            sid = g.any_sid(rng)
            ops.append("close %d" % sid)
            g.close(sid)
        elif k < 77:
            sid = g.any_sid(rng)
            pl = rand_payload(rng, big_ok=big_budget > 0, allow_over=True)
            if int(pl.split(".")[0]) > 9000:
                big_budget -= 1
            ans = rng.choice(["ok", "ok", "ok", "eagain", "eagain", "err"]) if cat != "queue" else rng.choice(["ok", "eagain", "eagain", "eagain", "err"])
            if rng.chance(1, 40):
                pl = "0.00"
            ops.append("send %d %s %s" % (sid, pl, ans))
            s = g.sess.get(sid)
            if s and ans == "eagain":
                if s[0] == "c":
                    g.cq[sid] = g.cq.get(sid, 0) + 1
                else:
                    g.lq[s[2]] = g.lq.get(s[2], 0) + 1
            elif s and ans == "err":
                g.close(sid)
        elif k < 84:
            lids = [l for l, n in g.lq.items() if n] or [g.any_lid(rng)]
            lid = rng.choice(lids)
            ops.append("wl %d %s" % (lid, script(rng, g.lq.get(lid, 1))))
            g.lq[lid] = 0
        elif k < 88:
            sids = [s for s, n in g.cq.items() if n] or [g.any_sid(rng, "c")]
            sid = rng.choice(sids)
            ops.append("wc %d %s" % (sid, script(rng, g.cq.get(sid, 1))))
            g.cq[sid] = 0
        elif k < 93:
            sid = g.any_sid(rng, "c")
            ops.append("cdg %d %s" % (sid, ",".join(rand_payload(rng, big_ok=False) for _ in range(rng.choice([1, 1, 2, 3])))))
        elif k < 97:
            ops.append("adv %d" % rng.choice([1, 999, idle_ms - 1, idle_ms, idle_ms + 1, idle_ms // 2, 2 * idle_ms, 499, 501, 49999, 50001]))
        elif k < 99 or not rng.chance(1, 2):
            ops.append("gc")             # the sketch does not follow the clock; stale ids afterwards are fine
        else:
            ops.append("restart")        # stop() + start(): sessions and listeners are gone, id counters go on
            g.sess.clear(); g.ix.clear(); g.cq.clear()
            g.lq = {}
            if rng.chance(2, 3):
                ops.append("listen")
                g.nl += 1
                g.lq[g.nl] = 0
    return {"cat": cat, "ops": ops, "cfg": cfg}


def boundary_cases(rng):
    """Every boundary size, in both directions, through every path: direct send, queued+flushed, listener and client socket."""
    cases = []
    for n in BOUNDARY + [65508]:
        pat = rng.bytes(rng.choice([3, 7, 251])).hex()
        pl = "%d.%s" % (n, pat)
        ops = ["reset", "listen", "connect 1"]
        if n <= MAXDG:
            ops += ["dg 1 0:%s" % pl, "cdg 1 %s" % pl]
        else:
            ops += ["dg 1 0:1.61"]
        ops += ["send 2 %s ok" % pl, "send 2 %s eagain" % pl, "wl 1 o", "send 1 %s ok" % pl, "send 1 %s eagain" % pl, "wc 1 -"]
        if n <= MAXDG:
            ops += ["dg 1 0:%s,3:2.0102,0:%s" % (pl, "5.aabbccddee")]
        cases.append({"cat": "boundary", "ops": ops, "cfg": {}})
    return cases


# ------------------------------------------------------------------ property monitors (implementation output only)
def parse_answer(line):
    """-> (events [str], state dict) or None for a non-standard line"""
    if " | " not in line:
        return None
    ev, st = line.split(" | ", 1)
    evs = [] if ev == "-" else ev.split(";")
    d = {}
    for part in st.split(" "):
        if "=" in part:
            k, v = part.split("=", 1)
            d[k] = v
    return evs, d


def monitor_case(c, impl):
    """Property failures visible in the implementation's own answers for this case (list of strings, tagged T1/T2/T3)."""
    bad = []
    cfg = c.get("cfg", {})
    capped = cfg.get("ms", 0) > 0
    chunk = cfg.get("chunk", None)
    peer_of = {}          # sid -> peer (from the implementation's accept / connected events)
    open_s = set()
    recv_on = {}          # peer -> session that receives this peer's datagrams on listener sockets (from data events)
    sends = []            # accepted sends not yet matched: [len, crc, peer, sid]
    for op, line in zip(c["ops"], impl):
        t = op.split()
        if line.startswith("crash:") or line.startswith("hang:") or line.startswith("throw"):
            bad.append("T2: the engine crashed / hung / threw on `%s`: %s" % (op[:80], line[:80]))
            break
        pa = parse_answer(line)
        if pa is None:
            continue
        evs, st = pa
        datas = []
        if t[0] == "send" and len(t) == 4:
            n, crc = expand(t[2])
            sid = int(t[1])
            if sid in open_s and n > 0:
                sends.append([n, crc, peer_of.get(sid), sid])
        for e in evs:
            k = e[0]
            if k == "A" or k == "N":
                sid, p = e[1:].split("@")
                sid = int(sid)
                if sid in peer_of:
                    bad.append("T3: session id %d announced twice (%s)" % (sid, e))
                peer_of[sid] = p
                open_s.add(sid)
                if k == "A":
                    if t[0] != "dg":
                        bad.append("T2: accept outside a datagram arrival: %s in `%s`" % (e, op[:60]))
                    cur = recv_on.get(p)
                    if cur is not None and cur in open_s:
                        bad.append("T3: re-accept: peer %s gets a NEW session %d while session %d, which receives its datagrams, is still open (op `%s`)"
                                   % (p, sid, cur, op[:60]))
            elif k == "X":
                sid = int(e[1:].split(":")[0])
                open_s.discard(sid)
            elif k == "D":
                sid, n, crc = e[1:].split(":")
                datas.append((int(sid), int(n), int(crc)))
            elif k == "S":
                if e.startswith("S?"):
                    bad.append("T1: datagram lost after the kernel accepted it, or a datagram nobody sent: %s (op `%s`)" % (e, op[:60]))
                    continue
                src, rest = e[1:].split(">")
                p, n, crc = rest.split(":")
                n, crc = int(n), int(crc)
                hit = None
                for i, s in enumerate(sends):
                    if s[0] == n and s[1] == crc and s[2] == p:
                        hit = i
                        break
                if hit is None:
                    why = "no accepted send has these bytes for this peer (not byte-identical, wrong destination, or sent twice)"
                    if any(s[0] == n and s[1] == crc for s in sends):
                        why = "addressed to peer %s, but the session it was sent on belongs to another peer" % p
                    bad.append("T1: datagram %s received by peer %s: %s (op `%s`)" % (e, p, why, op[:60]))
                else:
                    sends.pop(hit)
        # T2: what arrived must come out as exactly one data event each, complete, on a session of that peer
        if t[0] == "dg" and len(t) == 3:
            want = []
            for item in t[2].split(","):
                p, pl = item.split(":")
                n, crc = expand(pl)
                if n >= 1:
                    want.append((p, n, crc))
            listener_exists = ("L%s:" % t[1]) in st.get("l", "")
            if not listener_exists:
                want = []
            relaxed = capped or (chunk is not None and chunk < MAXDG)
            if not relaxed:
                if len(datas) != len(want):
                    bad.append("T2: %d datagram(s) arrived, %d data event(s) delivered (op `%s` -> %s)" % (len(want), len(datas), op[:80], line[:100]))
                for (p, n, crc), (sid, dn, dcrc) in zip(want, datas):
                    if (dn, dcrc) != (n, crc):
                        bad.append("T2: datagram of %d bytes from peer %s delivered as %d bytes / different content (merged, split or truncated) (op `%s`)" % (n, p, dn, op[:80]))
                    if peer_of.get(sid) != p:
                        bad.append("T2: datagram from peer %s delivered on session %d, which belongs to peer %s (op `%s`)" % (p, sid, peer_of.get(sid), op[:80]))
                    if sid not in open_s:
                        bad.append("T2: datagram delivered on session %d which is not open (op `%s`)" % (sid, op[:80]))
                    cur = recv_on.get(p)
                    if cur is not None and cur in open_s and cur != sid:
                        bad.append("T3: redirected: peer %s's datagram lands on session %d although session %d, which receives its datagrams, is still open (op `%s`)"
                                   % (p, sid, cur, op[:80]))
                    recv_on[p] = sid
            else:
                # capped / small receive buffer: every delivery must still be one of the arrivals, in order, on a session of that peer
                j = 0
                for sid, dn, dcrc in datas:
                    while j < len(want) and not (peer_of.get(sid) == want[j][0] and (chunk is not None or (dn, dcrc) == want[j][1:])):
                        j += 1
                    if j >= len(want):
                        bad.append("T2: data event D%d:%d:%d does not correspond to an arrived datagram (op `%s`)" % (sid, dn, dcrc, op[:80]))
                        break
                    recv_on[want[j][0]] = sid
                    j += 1
        elif t[0] == "cdg" and len(t) == 3:
            sid = int(t[1])
            want = [expand(pl) for pl in t[2].split(",")]
            is_client = ("%dc@" % sid) in ("," + st.get("s", "")) and sid in open_s
            if not is_client:
                want = []
            if chunk is None or chunk >= MAXDG:
                if [(d[1], d[2]) for d in datas] != [w for w in want] or any(d[0] != sid for d in datas):
                    bad.append("T2: client session %d: %d datagram(s) arrived, delivered %s (op `%s`)" % (sid, len(want), datas[:4], op[:80]))
        elif datas:
            bad.append("T2: data event without a datagram arrival: %s (op `%s`)" % (datas[:3], op[:60]))
    return bad


# ------------------------------------------------------------------ corpus / witnesses
def load_corpus():
    d = os.path.join(os.path.dirname(os.path.dirname(os.path.abspath(__file__))), "corpus", ID)
    out = []
    if os.path.isdir(d):
        for fn in sorted(os.listdir(d)):
            if fn.endswith(".json"):
                c = json.load(open(os.path.join(d, fn)))
                c.setdefault("cat", "corpus")
                c.setdefault("cfg", {})
                out.append(c)
    return out


def check_machinery(impl_lines):
    for l in impl_lines:
        if l and l.startswith("machinery:"):
            raise MachineryError(l)


def report_property(ctx, hb, c, impl, model, fails):
    ops = c["ops"]
    if not ctx.violation_budget("property", fails[0]):
        ctx.violation("property", fails[0])
        return
    tag = fails[0].split(":")[0]

    def still(sub):
        if not sub or not sub[0].startswith("reset"):
            sub = [ops[0]] + [o for o in sub if not o.startswith("reset")]
        out, rc, err = ctx.run_lines([hb], sub, timeout=120)
        out = out + ["crash:" + str(rc)] * (len(sub) - len(out))
        cc = dict(c)
        cc["ops"] = sub
        return any(f.split(":")[0] == tag for f in monitor_case(cc, out))
    small = ops
    try:
        if len(ops) > 3 and still(ops):
            small = ddmin(ops, still, max_tests=80)
            if not small[0].startswith("reset"):
                small = [ops[0]] + small
    except Exception:
        small = ops
    out, rc, err = ctx.run_lines([hb], small, timeout=120)
    ctx.violation("property", fails[0], {"ops": small, "observed": out, "failures": fails[:5], "category": c["cat"], "cfg": c.get("cfg", {}),
                                         "full_ops": ops if small is not ops else None, "expected_by_model": model if small is ops else None},
                  found_input=True)


def replay(ctx):
    obj = json.load(open(ctx.replay))
    ops = obj.get("ops") or []
    ctx.translate(["udp"])
    ctx.lake_build(MODULES)
    hb = ctx.build_harness(HARNESS, sanitize=True)
    if not hb or not ops:
        print("replay: nothing to run (kind=%s)" % obj.get("kind"))
        return 1 if ctx.violations else 0
    c = {"cat": obj.get("category", "corpus"), "ops": ops, "cfg": obj.get("cfg", {})}
    (c, impl, model), = ctx.lockstep("udp", hb, [c])
    check_machinery(impl)
    for o, a, b in zip(ops, impl, model):
        print("op    %s\n impl  %s\n model %s" % (o[:200], a[:200], b[:200]))
    fails = monitor_case(c, impl)
    for f in fails:
        print("PROPERTY FAILS:", f[:300])
    still = bool(fails) or impl != model
    print("replay: %s" % ("still failing" if still else "no longer failing"))
    import shutil
    shutil.rmtree(ctx.work, ignore_errors=True)
    return 1 if still else 0


CATS = [("default", 30), ("same-peer", 20), ("queue", 15), ("cap", 8), ("gc", 10), ("mixed", 12), ("small-chunk", 5)]


def run(ctx: Ctx):
    if ctx.replay:
        return replay(ctx)
    quick = ctx.tier == "quick"
    ncases = 2500 if quick else 30000
    rng = ctx.rng
    if ctx.translate(["udp"]):
        ctx.extra["mirrored_source_changed_since_review"] = anchors_changed(ctx)
    ok_build = ctx.lake_build(MODULES)
    if ok_build:
        ctx.audit(MODULES, OBLIGATIONS)
        if not quick:
            ctx.leanchecker(MODULES + ["IoraModel.Lemmas.UdpTokens", "IoraModel.Lemmas.UdpCount", "IoraModel.Lemmas.UdpEngine", "IoraModel.Model.UdpEngine", "IoraModel.Gen.Udp"])
    else:
        ctx.cov["obligations"] = len(OBLIGATIONS)
    hb = ctx.build_harness(HARNESS, sanitize=True)
    dist = {}
    opdist = {}
    sizes = {"1": 0, "2-1472": 0, "1473-8192": 0, "8193-65505": 0, "65506": 0, "65507": 0, ">65507": 0, "0": 0}
    evdist = {}
    if hb:
        cases = load_corpus() + boundary_cases(rng.fork("boundary"))
        total = sum(w for _, w in CATS)
        grng = rng.fork("gen")
        for cat, w in CATS:
            for i in range(ncases * w // total):
                cases.append(gen_case(grng, cat, grng.choice([8, 12, 20, 30, 40, 40])))
        res = ctx.lockstep("udp", hb, cases, timeout=1500)
        n_mismatch = 0
        for c, impl, model in res:
            check_machinery(impl)
            dist[c["cat"]] = dist.get(c["cat"], 0) + 1
            nontrivial = False
            for op, l in zip(c["ops"], impl):
                t = op.split()
                opdist[t[0]] = opdist.get(t[0], 0) + 1
                for tok in ([x.split(":")[1] for x in t[2].split(",")] if t[0] == "dg" and len(t) == 3 else
                            t[2].split(",") if t[0] == "cdg" and len(t) == 3 else [t[2]] if t[0] == "send" and len(t) == 4 else []):
                    n = int(tok.split(".")[0])
                    key = "0" if n == 0 else "1" if n == 1 else "2-1472" if n <= 1472 else "1473-8192" if n <= 8192 else \
                        "8193-65505" if n <= 65505 else "65506" if n == 65506 else "65507" if n == 65507 else ">65507"
                    sizes[key] += 1
                pa = parse_answer(l)
                if pa:
                    for e in pa[0]:
                        k = e[0] + (":" + e.split(":")[-1] if e[0] == "X" else "")
                        evdist[k] = evdist.get(k, 0) + 1
                        if e[0] in "ADS":
                            nontrivial = True
            ctx.count_case("\n".join(c["ops"]), nontrivial=nontrivial)
            if len(ctx.cov["samples"]) < 6 and ctx.rng.chance(1, 200):
                ctx.sample({"cat": c["cat"], "ops": c["ops"][:8], "impl": [l[:140] for l in impl[:8]]})
            fails = monitor_case(c, impl)
            mism = [(i, a, b) for i, (a, b) in enumerate(zip(impl, model)) if a != b]
            if fails:
                report_property(ctx, hb, c, impl, model, fails)
            elif mism:
                n_mismatch += 1
                if n_mismatch <= 3:
                    i, a, b = mism[0]
                    ctx.violation("correspondence", "model and implementation disagree (no property monitor fails on this case): op `%s` impl=`%s` model=`%s`"
                                  % (c["ops"][i][:120], a[:160], b[:160]),
                                  {"broken": {"correspondence": "udp lockstep (harness/c06_udp.cpp vs Model/UdpEngine.lean)", "detail": "first differing op index %d" % i},
                                   "ops": c["ops"], "observed": impl, "expected_by_model": model, "cfg": c.get("cfg", {})}, found_input=False)
    if hb:
        # interposer fire counts (stderr of the harness) on a fixed sample: corpus + boundary cases
        sample_ops = [o for c in (load_corpus() + boundary_cases(rng.fork("boundary")))[:12] for o in c["ops"]]
        _, _, err = ctx.run_lines([hb], sample_ops, timeout=300)
        for l in err.splitlines():
            if l.startswith("interposers:"):
                ctx.extra["interposer_counts_on_corpus_and_boundary_sample"] = dict(kv.split("=") for kv in l.split()[1:])
    ctx.extra["input_distribution"] = {"categories": dist, "ops": opdist, "payload_sizes": sizes, "events_seen": evdist}
    ctx.extra["repo_tree_sha"] = ctx.repo_tree_sha(ANCHOR_FILES)
    ctx.extra["not_proved"] = NOT_PROVED
    ctx.assumptions += ASSUMPTIONS
    return ctx.finish(level="proof", rule="a case = one history (<= 40 ops) run from a fresh real UdpEngine; distinct = distinct op lists; "
                      "non-trivial = at least one accept, data or sent-datagram event")


NOT_PROVED = [
    "by design, not a defect: with a CONFIGURED maxSessions cap reached (default: no cap, pinned by G3) a datagram from an UNKNOWN peer is dropped without any event; "
    "T2 carries the explicit hypothesis `Admitted` and T2_refused_exactly / T2_counter_exact say precisely when it fails",
    "failure arms of connectDo/viaDo (getaddrinfo failure, address-family mismatch, ::connect failure) and hard recv/recvfrom errors are not modelled: they create no session and touch no index entry (lifecycle = C02)",
    "theorems are over sequences of I/O-thread steps (one epoll event each); API calls on other threads only enqueue commands, so their order is the step order; an epoll batch carrying a stale event "
    "for a closed-and-reused fd number (DESIGN §8 observation) is outside the model",
    "zero-length datagrams are outside the property (sizes 1..65507): on a listener they are consumed without an event, on a client socket they are delivered as an empty view and end the read loop (modelled as such)",
    "IPv6 / v4-mapped peers are not exercised by the harness (the model is address-agnostic: Addr = Nat, key() assumed injective)",
]
ASSUMPTIONS = [
    "kernel UDP is modelled, not verified: one successful send/sendto = one datagram with these bytes to this destination; a connected socket only returns its peer's datagrams",
    "getnameinfo's numeric host:port key is injective on socket addresses (the model identifies the string key with the address)",
    "the I/O thread is the only thread that touches the tables; one model step = one epoll event (the harness delivers exactly one event per op)",
    "callbacks do not re-enter the engine synchronously (close()/send() from a callback only enqueue a command, which is a later step)",
]
