"""C09 — Every accepted task runs exactly once before pool shutdown completes (DESIGN §7 C09).

Tie: (1) translator unit `tpskel` -> Gen/TpSkel.lean (lock/notify/spawn skeletons + constants the model uses; conformance obligations
closed by `decide`); (2) the REAL iora::core::ThreadPool runs under DetSched (harness/c09_tp.cpp) with scripted tasks; the complete
trace of every scheduling step is replayed by the Lean acceptor (Driver/Tp.lean): every pthread operation of every thread must be the
operation the model thread has pending, enabled, with the same detail (created thread id, woken sleeper, number woken, join target),
and the snapshots of the real object's members taken at the harness' yields must equal the model's state; (3) implementation-only
monitors evaluate the property itself on every run (per epoch when the pool is restarted).

Review round 1 (FC09a/b/c): several controller threads, GRACEFUL mode, restart (reset() + start()), maxSize 0, a throwing error
handler are generated, modelled and replayed; a harness chunk that exceeds its time limit raises (machinery, exit 2); a drain(0)
polling marathon that exhausts the step budget is re-run with a bounded drain; an unfairly completed tail that starves the owner of
a shutdown behind a polling controller is counted (`starved_tails`), not judged."""
import json, os, re
from concurrent.futures import ThreadPoolExecutor
from vlib.core import Ctx, ddmin, VERIF

ID = "C09"
MODULES = ["IoraModel.Props.C09"]
OBLIGATIONS = [
    {"id": "C09_P1", "theorem": "Iora.C09.P1_conservation", "kind": "proved",
     "statement": "every schedule: accepted = queued + in hand + finished and started = running + finished, per task id (nothing lost, duplicated or started more often than accepted) (no restart)"},
    {"id": "C09_B", "theorem": "Iora.C09.accepted_iff_pushed_once", "kind": "proved",
     "statement": "every schedule, every configuration: result id = accepted <-> accCnt id = 1, and accCnt id <= 1 (an id is decided once, by the lock step of its own call)"},
    {"id": "C09_P2", "theorem": "Iora.C09.P2_returns_only_when_finished", "kind": "proved",
     "statement": "every schedule, ANY NUMBER of controller threads calling drain/stop/shutdown concurrently: once stop() (ok), shutdown() (also of a caller that found _shutdown already set) or the destructor has returned, the queue is empty, no task is in hand, every worker has left, result id = accepted -> startCnt id = 1 and doneCnt id = 1, and every other id has startCnt = doneCnt = 0 (mode != DETACHED, no restart)"},
    {"id": "C09_P3", "theorem": "Iora.C09.P3_no_start_after_return", "kind": "proved",
     "statement": "every schedule and every continuation: after such a return (of any controller thread) no task body starts"},
    {"id": "C09_A1", "theorem": "Iora.C09.one_shutdown_owner", "kind": "proved",
     "statement": "every schedule: at most one controller thread is between setting _shutdown and returning from shutdown()/the destructor (only it runs a join loop)"},
    {"id": "C09_A2", "theorem": "Iora.C09.complete_implies_quiesced", "kind": "proved",
     "statement": "every schedule: _shutdownComplete is set only after a join loop has completed (what a second shutdown() caller waits for)"},
    {"id": "C09_D1", "theorem": "Iora.C09.poller_epoch_positive", "kind": "proved",
     "statement": "every schedule: a shutdown() caller on the already-shut-down path waits for a shutdown number > 0 read under _mutex while _shutdown is set (fixes/FC09d)"},
    {"id": "C09_D2", "theorem": "Iora.C09.restart_keeps_complete", "kind": "proved",
     "statement": "no step of reset() + start() changes _shutdownCompleteEpoch (any configuration, restart allowed): a restart cannot hide a completed shutdown from a waiting caller"},
    {"id": "C09_D3", "theorem": "Iora.C09.poller_returns_when_completed", "kind": "proved",
     "statement": "a waiting caller whose shutdown number is <= _shutdownCompleteEpoch returns at its next step (logs 7), also when _shutdown has been cleared by a restart meanwhile"},
    {"id": "C09_E1", "theorem": "Iora.C09.spawn_failure_refused_or_has_worker", "kind": "proved",
     "statement": "thread creation fails after the push (fixes/FC09e, function-level model spawnFailed): refused -> the queue is what it was before the push and the task is not in it; accepted -> the task is queued and _threads is non-empty"},
    {"id": "C09_E2", "theorem": "Iora.C09.spawn_failure_accepted_has_live_worker", "kind": "proved",
     "statement": "every schedule, every reachable state with _shutdown false: thread creation fails after the push and the call is accepted -> some entry of _threads is a worker THREAD that has neither removed itself nor returned (a live worker, not merely a non-empty map; mode != DETACHED, no restart)"},
    {"id": "C09_P5a", "theorem": "Iora.C09.P5_exit_decision_with_empty_queue", "kind": "proved",
     "statement": "a worker enters its exit path only in a critical section in which the queue is empty"},
    {"id": "C09_P5a2", "theorem": "Iora.C09.P5_exit_decision_after_wait", "kind": "proved",
     "statement": "the same for the re-acquisition after a wake-up (time-out, notify, spurious, late clock)"},
    {"id": "C09_P5b", "theorem": "Iora.C09.P5_no_stranded_task", "kind": "proved",
     "statement": "every schedule: a non-empty queue has a registered worker that will look at it again, or a submitter holding the mutex about to create one"},
    {"id": "C09_MUTEX", "theorem": "Iora.C09.mutex_exclusive", "kind": "proved",
     "statement": "every schedule: at most one thread is inside a critical section of _mutex"},
    {"id": "C09_REG", "theorem": "Iora.C09.worker_registered", "kind": "proved",
     "statement": "every schedule: a worker that has not returned is in _threads, or being joined, or self-removed and about to return (no worker runs tasks unregistered)"},
    {"id": "C09_P6", "theorem": "Iora.C09.P6_workers_le_max", "kind": "proved",
     "statement": "every schedule, every initialSize/maxSize (0 included): |_threads| <= _maxSize = effectiveMaxSize(initialSize, maxSize)"},
    {"id": "C09_F", "theorem": "Iora.C09.P6_live_worker_threads_le_max", "kind": "proved",
     "statement": "every schedule: shutdown = false -> countP liveWorker thr <= _maxSize (worker THREADS that have neither removed themselves from _threads nor returned)"},
    {"id": "C09_E", "theorem": "Iora.C09.effMax_ge", "kind": "proved",
     "statement": "the clamp: 1 <= _maxSize, initialSize <= _maxSize, maxSize <= _maxSize"},
    {"id": "C09_P4", "theorem": "Iora.C09.P4_refusal_reasons", "kind": "proved",
     "statement": "a submission is refused only when _accepting is false (draining), _shutdown is set, or the queue is at capacity; it is accepted only when none of these holds"},
    {"id": "C09_SK1", "theorem": "Iora.C09.skel_enqueueImpl", "kind": "conformance",
     "statement": "enqueueImpl: push, spawn decision and spawn inside one critical section, notify after unlock (Gen/TpSkel)"},
    {"id": "C09_SK2", "theorem": "Iora.C09.skel_tryEnqueueImpl", "kind": "conformance", "statement": "the same for tryEnqueueImpl"},
    {"id": "C09_SK3", "theorem": "Iora.C09.skel_spawn", "kind": "conformance",
     "statement": "spawnWorkerLocked = create + register with no lock operation between; spawnWorker = lock / spawnWorkerLocked / unlock; discardNewestTaskLocked (fixes/FC09e) only touches _tasks; the ONLY insertion into _threads is emplace(t.get_id(), std::move(t)) of the std::thread t constructed just before (no placeholder entry: seed C09-e)"},
    {"id": "C09_SK4", "theorem": "Iora.C09.skel_worker", "kind": "conformance",
     "statement": "worker loop: wait, both exit decisions and pop in one critical section; every return under _mutex"},
    {"id": "C09_SK5", "theorem": "Iora.C09.skel_worker_hooks", "kind": "conformance", "statement": "only hook in the worker: tp:popped (or none)"},
    {"id": "C09_SK6", "theorem": "Iora.C09.skel_shutdown", "kind": "conformance",
     "statement": "shutdown(), WHOLE unit: already-shut-down path reads _shutdownEpoch under _mutex, unlocks, polls _shutdownCompleteEpoch with an ACQUIRE load, then returns; owner sets _shutdown and increments _shutdownEpoch under _mutex, notify_all after unlock, the three waits, the join loop (erase under _mutex, join outside) and last a RELEASE store of its own number; phase 1 and phase 4 whole (detach exactly under `mode == ShutdownMode::DETACHED`); getPendingTaskCount; phases 1..5; constructor defaults"},
    {"id": "C09_SK7", "theorem": "Iora.C09.skel_restart", "kind": "conformance",
     "statement": "reset() empties _tasks / clears _threads under _mutex; start() clears _shutdown under _mutex and does not touch _shutdownCompleteEpoch, opens _accepting, spawns with loop condition `i < workerCount`, workerCount = _workerScaling ? _initialSize : _maxSize"},
    {"id": "C09_SK8", "theorem": "Iora.C09.skel_ctor", "kind": "conformance",
     "statement": "constructor: same worker count and loop condition; default shutdown mode IMMEDIATE; _maxSize initialised by effectiveMaxSize(initialSize, maxSize) whose body is the clamp of Cfg.effMax"},
]
ANCHOR_FILES = ["include/iora/core/thread_pool.hpp"]
HARNESS = "harness/c09_tp.cpp"
DETSCHED = os.path.join(VERIF, "harness", "detsched", "detsched.cpp")
MAX_TRACE = 30000     # events of one run kept for the replay in the Lean acceptor (the longest ordinary run has < 6000)


# ------------------------------------------------------------------------------------------------ case generation
def gen_case(rng, hook, cat=None):
    """One scripted scenario + scheduling parameters.  Categories: mixed (mostly valid), tight (limits: queue 1-3, max = initial,
    initial 0, maxSize 0 / below initialSize), idle (tiny idle time-out: idle exits race submissions), race (controller ops in the
    middle of submissions), late (submissions after stop/shutdown: refusals), nested (tasks that submit tasks that submit), multi
    (1-3 additional controller threads calling drain/stop/shutdown/submit concurrently), restart (stop, reset() + start(), more work,
    stop again; sometimes with submitters or a second controller running across the restart).  The shutdown mode is IMMEDIATE (2/3)
    or GRACEFUL (1/3); task bodies return, throw, or throw into an error handler that throws itself."""
    cat = cat or rng.choice(["mixed", "mixed", "tight", "idle", "race", "race", "late", "nested", "multi", "multi", "restart", "span", "detached", "detached"])
    init = rng.choice([0, 1, 1, 2, 3])
    mx = max(1, init) + rng.choice([0, 0, 1, 2])
    q = rng.choice([2, 3, 8, 8, 32])
    idle = rng.choice([100, 100, 3600000])
    if cat == "tight":
        init = rng.choice([0, 1, 2])
        mx = rng.choice([max(1, init), max(1, init), 0, init // 2])   # 0 / below initialSize: clamped by effectiveMaxSize (FC09b)
        q = rng.choice([1, 1, 2, 3])
    if cat == "idle":
        idle = rng.choice([1, 1, 5])
        init = rng.choice([0, 0, 1])
        mx = max(1, init) + rng.choice([1, 2, 3])
    nb = rng.range(1, 5)
    budget = [rng.range(6, 30)]

    def acts(maxn):
        out = []
        for _ in range(rng.range(0, maxn)):
            if budget[0] <= 0:
                break
            budget[0] -= 1
            out.append("%s:%d" % (rng.choice("etr"), rng.below(nb)))
        return ",".join(out) if out else "-"

    bodies = []
    for i in range(nb):
        n = 0
        if i < nb - 1:
            n = rng.choice([0, 0, 0, 1, 2]) if cat != "nested" else rng.choice([1, 2, 2, 3])
        a = ["%s:%d" % (rng.choice("etr"), rng.range(i + 1, nb - 1)) for _ in range(n)]
        # 0 returns, 1 throws, 2 throws and the error handler throws at its first invocation
        bodies.append("body %d %s" % (rng.choice([0, 0, 0, 0, 0, 0, 0, 1, 1, 2]), ",".join(a) if a else "-"))
    pre = []
    nsub = rng.range(0, 4) if cat != "race" else rng.range(2, 4)
    for _ in range(nsub):
        pre.append("s=" + acts(8))
    for _ in range(rng.range(0, 4)):
        pre.append("a=%s:%d" % (rng.choice("etr"), rng.below(nb)))
    rng.shuffle(pre)
    ctl = rng.choice([[], ["stop"], ["sd"], ["d=%d" % rng.choice([50, 100, 30000]), "stop"], ["d=50"], ["stop", "stop"], ["sd", "stop"],
                      ["d=100", "sd"], ["d=0"], ["d=50", "d=50", "stop"]])
    if cat == "race" and not ctl:
        ctl = [rng.choice(["stop", "sd", "d=100"])]
    k = rng.range(0, len(pre)) if cat == "race" or rng.chance(1, 3) else len(pre)
    ops = pre[:k] + ctl[:1] + pre[k:] + ctl[1:]
    if cat == "late":
        ops += ["a=%s:%d" % (rng.choice("etr"), rng.below(nb)) for _ in range(rng.range(1, 3))]
        if rng.chance(1, 2):
            ops.append("s=" + acts(4))
    ctls = []
    if cat == "span":
        # FC09d: a controller is INSIDE shutdown()/stop() while thread 0 stops and restarts the pool; thread 0 joins it right after
        # the restart (it must return on its own: its shutdown number is completed) or only after more work / the next stop
        ctls.append("ctl " + rng.choice(["sd", "sd", "stop", "d=50 sd", "d=50 sd"]))
        if rng.chance(1, 3):
            # no initial worker: after the restart the first worker is spawned by a submission; a shutdown() of the controller that
            # begins DURING reset()/start() returns at once for the old epoch
            init, mx = 0, rng.choice([1, 1, 2])
        ops = [o for o in ops if o not in ("stop", "sd")] + ["c=0", rng.choice(["stop", "d=50"]), "stop", "rs"]
        if rng.chance(1, 2):
            ops.append("j")
        ops += ["a=%s:%d" % (rng.choice("etr"), rng.below(nb)) for _ in range(rng.range(0, 2))]
        ops += [rng.choice(["stop", "sd"])]
    if cat == "multi":
        # additional controller threads calling drain/stop/shutdown concurrently with thread 0 and with each other
        for i in range(rng.range(1, 3)):
            cops = [rng.choice(["stop", "sd", "sd", "d=50", "d=100", "a=%s:%d" % (rng.choice("etr"), rng.below(nb))]) for _ in range(rng.range(1, 3))]
            ctls.append("ctl " + " ".join(cops))
        pos = sorted(rng.range(0, len(ops)) for _ in ctls)
        for i, k2 in reversed(list(enumerate(pos))):
            ops.insert(k2, "c=%d" % i)
        if not any(o in ("stop", "sd") for o in ops):
            ops.append(rng.choice(["stop", "sd"]))
    ops.append("j")
    if cat == "restart":
        # stop, restart (reset() + start()), more work, stop again; sometimes a refused restart
        if not any(o == "stop" for o in ops):
            ops.append("stop")
        if rng.chance(1, 6):
            ops.insert(rng.range(0, len(ops) - 1), "rs")
        if rng.chance(1, 3):
            # submitters that keep submitting WHILE the pool is restarted (refused until start() opens _accepting; FC09c)
            for _ in range(rng.range(1, 2)):
                ops.append("s=" + ",".join("%s:%d" % (rng.choice("ettr"), rng.below(nb)) for _ in range(rng.range(3, 8))))
        ops.append("rs")
        for _ in range(rng.range(1, 4)):
            ops.append(rng.choice(["a=%s:%d" % (rng.choice("etr"), rng.below(nb)), "s=" + acts(5)]))
        ops.append("j")
        conc = rng.chance(1, 3)
        if conc:
            # a second controller calls shutdown()/stop() concurrently with thread 0 in the RESTARTED pool (start() must have
            # cleared _shutdownComplete, or this caller returns early)
            ctls.append("ctl " + rng.choice(["sd", "sd", "stop"]))
            ops.append("c=%d" % (len(ctls) - 1))
        ops.append(rng.choice(["stop", "sd", "stop"]))
        if conc:
            ops.append("j")
        if rng.chance(1, 3):
            ops += ["rs", "a=e:%d" % rng.below(nb), "stop"]
    if rng.chance(1, 3):
        ops += rng.choice([["stop"], ["sd"], ["d=100"], ["a=t:%d" % rng.below(nb)]])
    # IMMEDIATE or GRACEFUL (both join) or DETACHED.  A DETACHED pool is always stopped through the EXPLICIT path (shutdown()/stop(),
    # which join in every mode) before the destructor runs: the destructor then finds _shutdown set and returns at once.  Only the
    # destructor of a DETACHED pool that was never shut down detaches (the modelled exception; not generated: the object dies under
    # its running workers).
    mode = 2 if cat == "detached" else rng.choice([0, 0, 1, 2])
    if mode == 2:
        ops.append(rng.choice(["sd", "sd", "stop"]))
        ops.append("sd")
    ops.append("x")
    lines = ["reset %d %d %d %d %d" % (init, mx, q, mode, hook)] + bodies + ctls + ["main " + " ".join(ops)]
    seed = rng.range(1, 10 ** 9)
    run = "run %d %d %d %d" % (seed, idle, rng.choice([2, 8, 8, 50, 0]), rng.choice([0, 0, 0, 7]))
    return {"cat": cat, "lines": lines, "run": run, "cfg": {"init": init, "max": mx, "queue": q, "detached": 1 if mode == 2 else 0}}


# ------------------------------------------------------------------------------------------------ running
def run_harness(ctx, hb, cases):
    """Feeds the cases to one harness process; returns per case dict(ev=[(input, expected)], mon, done, report) or crash info."""
    lines = []
    for c in cases:
        lines += c["lines"] + [c["run"]]
    out, rc, err = ctx.run_lines([hb], lines, timeout=900)
    if rc == -999:
        # the chunk did not finish within the time limit of the check machinery: not an observation about the pool
        raise RuntimeError("harness chunk of %d cases exceeded 900 s (machinery limit, not a result); first case: %s | %s"
                           % (len(cases), cases[0]["lines"], cases[0]["run"]))
    res = []
    i = 0
    hook = None
    if out and out[0].startswith("hook "):
        hook = out[0].split()[1]
        i = 1
    for c in cases:
        r = {"ev": [], "mon": None, "done": None, "report": None, "hook": hook}
        while i < len(out):
            l = out[i]
            i += 1
            if l.startswith("ev ") or l.startswith("end |"):
                if len(r["ev"]) < MAX_TRACE:
                    a, _, b = l.partition(" | ")
                    r["ev"].append((a, b))
                else:
                    r["truncated"] = True      # a polling marathon (tens of thousands of steps): judged by the monitors, not replayed
            elif l.startswith("mon "):
                r["mon"] = l
            elif l.startswith("report "):
                r["report"] = l[:1500]
            elif l.startswith("done "):
                r["done"] = l
                break
        if r["done"] is None:
            from vlib.core import classify_crash
            r["crash"] = classify_crash(rc, err)
            r["stderr"] = err[-1500:]
            res.append(r)
            break
        res.append(r)
    return res


def run_all(ctx, hb, cases, width=16, chunk=40):
    """All cases through the harness (parallel chunks); a crashed chunk is resumed after the crashing case."""
    results = [None] * len(cases)

    def work(lo):
        idx = lo
        hi = min(len(cases), lo + chunk)
        while idx < hi:
            rs = run_harness(ctx, hb, cases[idx:hi])
            for k, r in enumerate(rs):
                results[idx + k] = r
            idx += len(rs)
            if rs and "crash" not in rs[-1] and idx < hi and len(rs) == 0:
                break
        return lo

    with ThreadPoolExecutor(max_workers=width) as ex:
        list(ex.map(work, range(0, len(cases), chunk)))
    return results


def run_model(ctx, cases, results, width=8, chunk=150):
    """Replays every recorded trace in the Lean acceptor; returns per case the list of model answers."""
    argv = ctx.model_argv("tp")
    answers = [None] * len(cases)

    def work(lo):
        hi = min(len(cases), lo + chunk)
        lines = []
        spans = []
        for k in range(lo, hi):
            c, r = cases[k], results[k]
            a = len(lines)
            lines += c["lines"]
            b = len(lines)
            if r is not None and not r.get("truncated"):
                lines += [e[0] for e in r["ev"]]
            spans.append((a, b, len(lines)))
        out, rc, err = ctx.run_lines(argv, lines, timeout=900)
        # a reject message may carry a multi-line `repr` of a model state: continuation lines start with white space
        merged = []
        for l in out:
            if merged and l[:1] in (" ", "\t"):
                merged[-1] += " " + l.strip()
            else:
                merged.append(l)
        out = merged
        if rc != 0 or len(out) != len(lines):
            raise RuntimeError("model driver failed rc=%s lines=%d/%d: %s" % (rc, len(out), len(lines), err[-400:]))
        for k, (a, b, e) in zip(range(lo, hi), spans):
            answers[k] = (out[a:b], out[b:e])
        return lo

    with ThreadPoolExecutor(max_workers=width) as ex:
        list(ex.map(work, range(0, len(cases), chunk)))
    return answers


# ------------------------------------------------------------------------------------------------ monitors (implementation only)
def parse_mon(l):
    d = {}
    for tok in l.split()[1:]:
        k, _, v = tok.partition("=")
        d[k] = v
    subs = []
    if d.get("subs", "-") != "-":
        for x in d["subs"].split(","):
            f = x.split(":")
            subs.append({"id": int(f[0]), "mode": f[1], "res": f[2], "why": f[3], "tid": int(f[4]), "tick": int(f[5]), "body": int(f[6])})
    tasks = {}
    if d.get("tasks", "-") != "-":
        for x in d["tasks"].split(","):
            f = x.split(":")
            tasks[int(f[0])] = {"start": int(f[1]), "done": int(f[2]), "st": int(f[3]), "dt": int(f[4]), "handled": int(f[5])}
    fut = {}
    if d.get("futures", "-") != "-":
        for x in d["futures"].split(","):
            a, _, b = x.partition(":")
            fut[int(a)] = b
    mlog = []
    if d.get("mlog", "-") != "-":
        for x in d["mlog"].split(","):
            a, _, b = x.partition("@")
            bb = b.split("@")
            mlog.append((int(a), int(bb[0]), int(bb[1]) if len(bb) > 1 else int(bb[0])))
    subtids = [int(x) for x in d["subtids"].split(",")] if d.get("subtids", "-") != "-" else []
    rsbegin = [int(x) for x in d["rsbegin"].split(",")] if d.get("rsbegin", "-") != "-" else []
    # `problems=` is the last key and may contain spaces
    prob = l.split(" problems=", 1)[1] if " problems=" in l else "-"
    return {"max": int(d["max"]), "seen": int(d["maxThreadsSeen"]), "samples": int(d.get("samples", "0")), "early": int(d["futureEarly"]),
            "subs": subs, "tasks": tasks, "futures": fut, "mlog": mlog, "subtids": subtids, "rsbegin": rsbegin, "problems": prob}


def body_throws(case, ix):
    bodies = [l for l in case["lines"] if l.startswith("body ")]
    return bodies[ix].split()[1] != "0"


def body_hthrow(case, ix):
    bodies = [l for l in case["lines"] if l.startswith("body ")]
    return bodies[ix].split()[1] == "2"


def monitor(case, r):
    """The property itself, evaluated on what the real pool did.  Returns a list of failure strings (empty = holds)."""
    fails = []
    if "crash" in r:
        return ["CRASH: the harness died (%s)" % r["crash"]]
    status = r["done"].split()[1]
    if status != "ok":
        what = "DEADLOCK" if status == "deadlock" else ("LIVELOCK (step limit without drain(0))" if status == "steplimit" else "INCOMPLETE")
        return ["%s: the run did not complete: %s %s" % (what, status, (r["report"] or "")[:300])]
    m = parse_mon(r["mon"])
    if m["problems"] != "-":
        fails.append("MON: " + m["problems"].strip())
    detached = False    # DETACHED pools are stopped through the explicit path before `x` (gen_case): same post-conditions
    # worker bound: registered workers at every scheduling decision, and live worker OS threads along the trace
    if m["seen"] > m["max"]:
        fails.append("P6: %d workers registered in _threads, configured maximum %d" % (m["seen"], m["max"]))
    live = 0
    peak = 0
    sub = set(m["subtids"])
    workers = set()
    for a, _ in ([] if r.get("truncated") else r["ev"]):
        f = a.split()
        if f[0] != "ev":
            continue
        if f[2] == "C":
            child = int(f[4])
            # the submitters are created by thread 0 at its `s=` operations; every other created thread is a worker
            if child not in sub and not (int(f[1]) == 0 and child in sub):
                workers.add(child)
        elif f[2] == "S" and int(f[1]) in workers:
            live += 1
            peak = max(peak, live)
        elif f[2] == "X" and int(f[1]) in workers:
            live -= 1
    # a submitter whose thread was created but never started before the end has no S event; created-not-started workers are not live
    if peak > m["max"]:
        fails.append("P6: %d worker threads alive at once, configured maximum %d" % (peak, m["max"]))
    # exactly once / refusals
    for s in m["subs"]:
        t = m["tasks"].get(s["id"], {"start": 0, "done": 0, "st": -1, "dt": -1, "handled": 0})
        if s["res"] == "a":
            if not detached and (t["start"] != 1 or t["done"] != 1):
                fails.append("P1: accepted task %d started %d times, finished %d times" % (s["id"], t["start"], t["done"]))
            if detached and (t["start"] > 1 or t["done"] > 1):
                fails.append("P1: accepted task %d started %d times" % (s["id"], t["start"]))
            throws = body_throws(case, s["body"])
            if s["mode"] == "r" and not detached:
                want = "exc" if throws else "value"
                if m["futures"].get(s["id"]) != want:
                    fails.append("P4: future of task %d is %s, expected %s" % (s["id"], m["futures"].get(s["id"]), want))
            if s["mode"] in "et" and not detached:
                if t["handled"] != ((2 if body_hthrow(case, s["body"]) else 1) if throws else 0):
                    fails.append("P4: error handler ran %d times for task %d (throws=%s)" % (t["handled"], s["id"], throws))
        else:
            if t["start"] != 0:
                fails.append("P1: refused task %d was executed" % s["id"])
            if s["res"] == "!" or s["why"] == "0":
                fails.append("P4: submission %d refused although the pool was accepting, not shut down and the queue not full" % s["id"])
            elif s["res"] != s["why"]:
                fails.append("P4: submission %d refused as '%s' but the pool state says '%s'" % (s["id"], s["res"], s["why"]))
    if m["early"]:
        fails.append("P4: a future was ready before its task's body had finished (%d observations)" % m["early"])
    # returns: only after every accepted task OF THE SAME EPOCH has finished; nothing starts afterwards until a restart.
    # An epoch ends where a successful restart BEGINS (tick taken before reset()): between stop() and that point the pool refuses
    # everything, and a submission accepted while start() is still spawning workers belongs to the new epoch.
    restarts = sorted(m["rsbegin"])

    def epoch(x):
        return sum(1 for r0 in restarts if r0 < x)
    # Epoch of a stop()/shutdown() CALL: the number of restarts that had COMPLETED (code 10: start() has returned) when the call began.
    # A call that begins while reset()/start() is still running (after `rsbegin`, before code 10) may still find _shutdown set by the
    # OLD epoch's shutdown and return at once - it says nothing about tasks of the new epoch; stamping it with the old epoch is
    # false-alarm free (everything of the old epoch had finished before reset() could begin).
    restarts_done = sorted(q for code, q, _ in m["mlog"] if code == 10)

    def call_epoch(x):
        return sum(1 for r0 in restarts_done if r0 < x)
    if not detached:
        for code, q, q0 in m["mlog"]:
            if code not in (4, 7, 8):
                continue
            what = {4: "stop()", 7: "shutdown()", 8: "~ThreadPool"}[code]
            # the epoch of the CALL: a caller that waits for another thread's shutdown may return after the pool was restarted
            e = call_epoch(q0) if code in (4, 7) else epoch(q0)
            for s in m["subs"]:
                t = m["tasks"].get(s["id"])
                if s["res"] == "a" and epoch(s["tick"]) == e and s["tick"] < q and (t is None or t["dt"] < 0 or t["dt"] > q):
                    fails.append("P2: %s returned before accepted task %d had finished" % (what, s["id"]))
            for i, t in m["tasks"].items():
                if t["st"] > q and epoch(t["st"]) == e:
                    fails.append("P3: task %d started after %s returned" % (i, what))
    return fails


# ------------------------------------------------------------------------------------------------ plugin
def detect_hook(ctx):
    try:
        src = open(ctx.repo_file(ANCHOR_FILES[0])).read()
    except OSError:
        return 0
    return 1 if re.search(r'IORA_VERIF_POINT\s*\(\s*"tp:popped"\s*\)', src) else 0


def load_corpus(hook):
    d = os.path.join(VERIF, "corpus", "C09")
    out = []
    if os.path.isdir(d):
        for fn in sorted(os.listdir(d)):
            if fn.endswith(".json"):
                c = json.load(open(os.path.join(d, fn)))
                c["cat"] = "corpus:" + fn[:-5]
                c["lines"] = [re.sub(r"^(reset \d+ \d+ \d+ \d+) \d+$", r"\1 %d" % hook, l) for l in c["lines"]]
                c["cfg"] = dict(zip(("init", "max", "queue", "detached"), map(int, c["lines"][0].split()[1:5])))
                out.append(c)
    return out


def report(ctx, hb, case, r, ans, fails, kind):
    choices = ""
    if r.get("done"):
        mm = re.search(r"choices=(\S*)", r["done"])
        choices = mm.group(1) if mm else ""
    obj = {"category": case["cat"], "lines": case["lines"], "run": case["run"], "choices": choices, "failures": fails[:6],
           "how": "feed `lines` + `run <seed> <idleMs> <timeoutOneIn> <spuriousOneIn> <choices>` to harness/c09_tp.cpp (DetSched replays the schedule)",
           "mon": (r.get("mon") or "")[:1500], "done": (r.get("done") or "")[:200], "report": r.get("report"), "stderr": r.get("stderr")}
    if kind == "property":
        ctx.violation("property", fails[0], obj, found_input=True)
    else:
        obj["broken"] = {"correspondence": "DetSched trace of the real ThreadPool vs Model/ThreadPool.lean (Driver/Tp.lean acceptor)", "detail": fails[0]}
        ctx.violation("correspondence", fails[0], obj, found_input=False)


def run(ctx: Ctx):
    quick = ctx.tier == "quick"
    n_cases = 1500 if quick else 30000
    rng = ctx.rng
    ctx.translate(["tpskel"])
    ok_build = ctx.lake_build(MODULES)
    if ok_build:
        ctx.audit(MODULES, OBLIGATIONS)
        if not quick:
            ctx.leanchecker(MODULES + ["IoraModel.Model.ThreadPool", "IoraModel.Lemmas.TpBase", "IoraModel.Lemmas.TpDefs", "IoraModel.Lemmas.TpLock",
                                       "IoraModel.Lemmas.TpNoRestart", "IoraModel.Lemmas.TpCount", "IoraModel.Lemmas.TpEff", "IoraModel.Lemmas.TpCtl",
                                       "IoraModel.Lemmas.TpCtlStep", "IoraModel.Lemmas.TpWorkers", "IoraModel.Lemmas.TpWorkersStep",
                                       "IoraModel.Lemmas.TpQuiesce", "IoraModel.Lemmas.TpAll", "IoraModel.Lemmas.TpAfter", "IoraModel.Lemmas.TpRefuse",
                                       "IoraModel.Lemmas.TpSize", "IoraModel.Lemmas.TpIds", "IoraModel.Lemmas.TpLive"])
    else:
        ctx.cov["obligations"] = len(OBLIGATIONS)
    hb = ctx.build_harness(HARNESS, sanitize=True, flags=[DETSCHED])
    hook = detect_hook(ctx)
    dist = {}
    stats = {"events": 0, "yields": 0, "steps_max": 0, "accepted": 0, "refused_d": 0, "refused_s": 0, "refused_f": 0, "idle_exits": 0,
             "timeouts": 0, "spurious": 0, "hook_points": 0, "scheduling_samples": 0, "tasks_thrown": 0, "workers_peak_hist": {},
             "restarts": 0, "restarts_refused": 0, "returns_stop_shutdown_dtor": 0, "already_shut_down_returns": 0, "cases_graceful": 0,
             "cases_multi_controller": 0}
    if hb:
        # the implementation-only monitors run even when the proof layer is broken (DESIGN 5.2: search for the failing input)
        model_ok = bool(ok_build and ctx.model_argv("tp"))
        g = rng.fork("cases")
        n_corr = [0]
        retry = []

        def evaluate(cases, results, answers):
            for c, r, ans in zip(cases, results, answers):
                dist[c["cat"].split(":")[0]] = dist.get(c["cat"].split(":")[0], 0) + 1
                if r is None:
                    continue
                if r.get("done") and r["done"].split()[1] == "diverged" and (c["cat"].startswith("corpus") or c["cat"].startswith("tail")):
                    # a directed witness schedule of another tree version (re-run below by seed) / a cut schedule that does not
                    # replay (the join order follows the hash of pthread_t values, which differ between processes): not a result
                    stats["replays_diverged"] = stats.get("replays_diverged", 0) + 1
                    continue
                if r.get("done") and r["done"].split()[1] == "steplimit" and any(" d=0" in l for l in c["lines"]):
                    # drain(0) polls for up to one hour = 72 000 polls of the controller: the step budget of the exploration
                    # (120 000 scheduling steps) ran out, which says nothing about the pool.  Machinery limit, not DEADLOCK; the
                    # scenario is re-run with the same seed and a bounded drain so that its property monitors are still evaluated.
                    stats["steplimit_drain0"] = stats.get("steplimit_drain0", 0) + 1
                    if not c["cat"].startswith("bounded:"):
                        retry.append(dict(c, lines=[re.sub(r"\bd=0\b", "d=30000", l) if l.startswith(("main ", "ctl ")) else l for l in c["lines"]],
                                          cat="bounded:" + c["cat"]))
                    continue
                if (r.get("done") and r["done"].split()[1] == "steplimit" and c["cat"].startswith("tail:")
                        and any(l.startswith("ctl ") for l in c["lines"]) and " sleep " in (r.get("report") or "")):
                    # the adversarial completion of a cut schedule is UNFAIR by construction (lowest enabled thread first).  A
                    # controller on the "already shut down" path polls _shutdownComplete without a bound (FC09a), so when it has a
                    # lower thread id than the owner of the shutdown (or than the worker the owner waits for) the completion runs the
                    # poller for ever.  Starvation produced by the exploration machinery, not a livelock of the pool: counted.
                    stats["starved_tails"] = stats.get("starved_tails", 0) + 1
                    continue
                fails = monitor(c, r)
                # statistics (measured)
                evs = [e[0].split() for e in r["ev"] if e[0].startswith("ev ")]
                stats["events"] += len(evs)
                stats["steps_max"] = max(stats["steps_max"], len(evs))
                nontrivial = False
                if r.get("mon"):
                    m = parse_mon(r["mon"])
                    stats["scheduling_samples"] += m["samples"]
                    for s in m["subs"]:
                        if s["res"] == "a":
                            stats["accepted"] += 1
                            stats["tasks_thrown"] += 1 if body_throws(c, s["body"]) else 0
                        elif s["res"] in "dsf":
                            stats["refused_" + s["res"]] += 1
                    nontrivial = any(s["res"] == "a" for s in m["subs"])
                    codes = [x[0] for x in m["mlog"]]
                    stats["restarts"] += codes.count(10)
                    stats["restarts_refused"] += codes.count(11)
                    stats["returns_stop_shutdown_dtor"] += sum(1 for x in codes if x in (4, 7, 8))
                    # more than one shutdown()/stop() returned in the same epoch: a caller on the "already shut down" path
                    ep, n47 = 0, {}
                    for code, _, _ in sorted(m["mlog"], key=lambda z: z[1]):
                        if code == 10:
                            ep += 1
                        elif code in (4, 7):
                            n47[ep] = n47.get(ep, 0) + 1
                    stats["already_shut_down_returns"] += sum(v - 1 for v in n47.values() if v > 1)
                    stats["workers_peak_hist"][str(m["seen"])] = stats["workers_peak_hist"].get(str(m["seen"]), 0) + 1
                if c["lines"][0].split()[4] == "1":
                    stats["cases_graceful"] += 1
                if c["lines"][0].split()[4] == "2":
                    stats["cases_detached_explicit_stop"] = stats.get("cases_detached_explicit_stop", 0) + 1
                if any(l.startswith("ctl ") for l in c["lines"]):
                    stats["cases_multi_controller"] += 1
                for f in evs:
                    if f[2] == "D" and f[1] == f[4]:
                        stats["idle_exits"] += 1
                    elif f[2] == "O":
                        stats["timeouts"] += 1
                    elif f[2] == "P":
                        stats["spurious"] += 1
                    elif f[2] == "Y":
                        stats["yields"] += 1
                        if len(f) > 6 and f[6] == "tp:popped":
                            stats["hook_points"] += 1
                ctx.count_case("\n".join(c["lines"]) + c["run"] + (r.get("done") or ""), nontrivial=nontrivial)
                if len(ctx.cov["samples"]) < 6 and g.chance(1, 60):
                    ctx.sample({"cat": c["cat"], "lines": c["lines"], "run": c["run"], "mon": (r.get("mon") or "")[:300]})
                if fails:
                    report(ctx, hb, c, r, ans, fails, "property")
                    continue
                if ans is None:
                    continue
                if r.get("truncated"):
                    stats["traces_too_long_for_replay"] = stats.get("traces_too_long_for_replay", 0) + 1
                    continue
                ctx.cov["traces_validated_against_impl"] += 1
                # correspondence: header lines all `ok`, every event answered as the harness expects (`*` = no snapshot possible)
                hdr, evans = ans
                bad = None
                for l, a in zip(c["lines"], hdr):
                    if a != "ok":
                        bad = "case description rejected by the model driver: `%s` -> `%s`" % (l, a)
                        break
                if bad is None:
                    if r.get("hook") is not None and (r["hook"] == "present") != (hook == 1):
                        bad = "harness reports the hook %s but the source scan says %d" % (r["hook"], hook)
                if bad is None:
                    for (inp, exp), a in zip(r["ev"], evans):
                        if exp != "*" and a != exp:
                            bad = "model and implementation disagree at `%s`: impl=`%s` model=`%s`" % (inp[:80], exp[:160], a[:160])
                            break
                if bad:
                    n_corr[0] += 1
                    if n_corr[0] <= 3:
                        report(ctx, hb, c, r, ans, [bad], "correspondence")

        def wave(cases):
            results = run_all(ctx, hb, cases)
            answers = run_model(ctx, cases, results) if model_ok else [None] * len(cases)
            evaluate(cases, results, answers)
            return results

        # wave 1: corpus + seeded random schedules
        cases = load_corpus(hook)
        n1 = (n_cases * 2) // 3
        while len(cases) < n1:
            cases.append(gen_case(g, hook))
        res1 = wave(cases)
        # wave 2: ADVERSARIAL schedules. A recorded schedule is cut at a random point and replayed; DetSched completes an exhausted
        # replay list with "lowest enabled thread first, time-outs only when nothing else can run": from the cut on the controller
        # (thread 0) has priority over submitters and workers, which are starved at whatever point they had reached (between
        # pthread_create and registration, at the tp:popped hook, inside a body) while drain/stop/shutdown/the destructor run.
        cases2 = []
        for c, r in zip(cases, res1):
            if len(cases2) >= n_cases - n1:
                break
            if r is None or not r.get("done"):
                continue
            if r["done"].split()[1] == "diverged" and c["cat"].startswith("corpus"):
                f = c["run"].split()
                cases2.append(dict(c, run=" ".join(f[:5]), cat=c["cat"] + ":by-seed"))
                continue
            mm = re.search(r"choices=(\S*)", r["done"])
            ch = mm.group(1).split(",") if mm and mm.group(1) else []
            if len(ch) < 8 or c["cat"].startswith("corpus") or " d=0" in c["lines"][-1]:
                continue      # drain(0) = one hour of polling: with starved workers the controller would poll 72 000 times
            cut = g.range(3, len(ch) - 1)
            f = c["run"].split()
            cases2.append(dict(c, run=" ".join(f[:5] + [",".join(ch[:cut])]), cat="tail:" + c["cat"]))
        if cases2:
            wave(cases2)
        if retry:
            wave(list(retry))
        spawn_failures(ctx, rng.fork("spawnfail"), stats)
        if True:
            if not quick:
                tsan_stress(ctx)
    ctx.extra["input_distribution"] = dist
    ctx.extra["measured"] = stats
    ctx.extra["hook_tp_popped_present"] = bool(hook)
    ctx.extra["repo_tree_sha"] = ctx.repo_tree_sha(ANCHOR_FILES)
    ctx.extra["not_proved"] = [
        "future readiness (P4, second half) is monitored on the real std::packaged_task, not modelled beyond `outcome` being set when the body ends",
        "liveness (every accepted task is eventually executed under a fair scheduler) is not stated; the safety half is P5b (a non-empty queue always has a guardian) plus deadlock detection in every DetSched run",
        "restart (reset() + start() after stop()): the restart path IS modelled (Model/ThreadPool.lean rsL..kU), its source skeleton is tied by skel_restart, and every restarted run is replayed by the Lean acceptor and judged by epoch-aware P1/P2/P3/P6 monitors; but the theorems P1, P2, P3, P5b, P6, F are proved for Cfg.allowRestart = false only (reset() zeroes counters and clears _threads, which the conservation invariant does not survive as stated) — PARTIAL",
        "setShutdownMode at run time is outside the model (the mode is a constructor argument in every generated case)",
        "the destructor is run by thread 0 only; a destructor that starts while another thread is still inside shutdown() is outside the theorems (C++ object lifetime; the model logs code 13 and the generator joins the controllers first)",
    ]
    ctx.assumptions += [
        "THEOREMS P2/P3/P5b/P6: ShutdownMode IMMEDIATE/GRACEFUL (hypothesis CfgOk.joined). DETACHED pools ARE generated, replayed by the model and judged by the same monitors, always stopped through the explicit path shutdown()/stop() (which joins in every mode - model: `jU` detaches only inside the destructor) before the destructor; only the destructor of a DETACHED pool that was never shut down detaches (modelled exception, not generated: the object dies under its workers)",
        "no restart after stop() in the THEOREMS (CfgOk.norestart); restart is covered by the tie and the monitors only",
        "any number of controller threads may call drain/stop/shutdown/submit concurrently (modelled, Cfg.ctls); only one thread (thread 0) destroys or restarts the pool; a controller may be INSIDE shutdown()/stop() while thread 0 restarts the pool (category `span`, fixes/FC09d), but the destructor starts only after the controllers were joined",
        "no call on the pool is in flight on another thread when the destructor starts (C++ object lifetime); submitters are joined before `x`",
        "granularity: one step = one pthread operation + the code up to the next one (DetSched); atomics are pre-emption points only at IORA_VERIF_POINT(\"tp:popped\"); the theorems do not depend on _activeThreads/_busyThreads",
        "in the interleaving model and its theorems std::thread creation does not fail; the failure path (fixes/FC09e: caught in the critical section, task taken back and call refused only when no worker exists) is tied by skel_enqueueImpl/skel_tryEnqueueImpl/skel_spawn and exercised on the real pool with pthread_create interposed (harness/c09_tp_spawnfail.cpp, implementation-only monitors); tasks do nothing but submit/throw/return",
        "the polling loops (drain, shutdown's waits, the wait for _shutdownComplete) make progress only under a fair scheduler; the adversarial completion of cut schedules is unfair by design, and a tail in which it starves the shutdown owner behind a polling controller ends at the step budget and is counted (`starved_tails`), not judged",
        "pthread mutex/condvar semantics, libstdc++ wait_for (time-out decided by the clock), std::packaged_task/future are modelled-not-verified",
    ]
    return ctx.finish(level="proof", rule="a case = one scripted scenario (config, task bodies, controller script, submitter scripts) + one DetSched schedule "
                      "(seed or choice list); evaluation = one complete run of the real pool whose full scheduling trace the Lean acceptor replayed; "
                      "distinct = distinct (scenario, schedule) pairs; non-trivial = at least one task was accepted and executed")


def spawn_failures(ctx, rng, stats):
    """fixes/FC09e: the real pool with pthread_create interposed (harness/c09_tp_spawnfail.cpp): chosen thread creations fail with
    EAGAIN.  Monitors (implementation only): a refused submission (exception / false) never runs; an accepted one has run exactly
    once and its future holds the value once the pool has been stopped AND destroyed (judged whether or not stop() returned ok: a
    pool without a worker cannot stop); a submission made while NO worker is alive and whose own thread creation failed must be
    refused (seed C09-e: a placeholder left in _threads made the pool accept it); a submission is refused only when its own
    creation failed and no worker was alive (queue bound never reached by construction); tryEnqueue never throws."""
    hb = ctx.build_harness("harness/c09_tp_spawnfail.cpp", sanitize=False)
    if not hb:
        return
    cases = ["case 1 4 8 1 1 45 e,r,t,e", "case 0 2 8 0 1 0 e,r", "case 0 2 8 0 2 0 t,r,e",     # corpus/C09/FC09e-*.json
             "case 0 1 8 0 1 0 e", "case 0 1 8 0 1 0 r,t"]                                      # corpus/C09/C09e-*.json
    # family `noworker` (drawn in EVERY run): no worker exists and no later creation rescues an orphaned task - every creation
    # fails (failFrom 0, failCount 99), or only the first fails and max = 1 (whatever the failed attempt left behind in _threads
    # would use up the only slot for good)
    for _ in range(6 if ctx.tier == "quick" else 40):
        mx = rng.choice([1, 1, 2, 3])
        cnt = rng.choice([99, 99, 1]) if mx == 1 else 99
        cases.append("case 0 %d 8 0 %d 0 %s" % (mx, cnt, ",".join(rng.choice("etr") for _ in range(rng.range(1, 4)))))
    stats["spawnfail_noworker_cases"] = len(cases) - 3
    n = 32 if ctx.tier == "quick" else 340
    while len(cases) < n:
        init = rng.choice([0, 0, 1, 1, 2])
        mx = max(1, init) + rng.choice([0, 1, 2, 3])
        nacts = rng.range(1, 6)
        acts = ",".join(rng.choice("etr") for _ in range(nacts))
        # never inside the constructor: a constructor whose k-th initial worker cannot be created throws with the earlier workers
        # still joinable in _threads => std::terminate (observation, outside the property: no pool exists yet)
        frm = rng.range(init, init + 3)
        cnt = rng.choice([0, 1, 1, 2, 3, 9])
        busy = rng.choice([0, 0, 30, 45])
        cases.append("case %d %d 8 %d %d %d %s" % (init, mx, frm, cnt, busy, acts))
    out, rc, err = ctx.run_lines([hb], cases, timeout=600)
    for c, l in zip(cases, out):
        fails = []
        head, _, tail = l.partition(" | ")
        kv = dict(x.split("=") for x in tail.split())
        stats["spawnfail_cases"] = stats.get("spawnfail_cases", 0) + 1
        stats["spawnfail_failed_creations"] = stats.get("spawnfail_failed_creations", 0) + int(kv.get("failed", 0))
        if kv.get("ctor") != "ok":
            stats["spawnfail_ctor_threw"] = stats.get("spawnfail_ctor_threw", 0) + 1      # the constructor itself could not start its workers
            continue
        for tok in head.split()[1:]:
            i, mode, res, ran, fut, live, fd = tok.split(":")
            ran, live, fd = int(ran), int(live), int(fd)
            if live == 0 and fd > 0:
                stats["spawnfail_no_worker_and_creation_failed"] = stats.get("spawnfail_no_worker_and_creation_failed", 0) + 1
                if res not in "xf":
                    fails.append("P2: submission %s was ACCEPTED although no worker was alive and the thread creation for it failed "
                                 "(nobody can run it); it ran %d time(s), future `%s`" % (i, ran, fut))
            if res in "xf":
                stats["spawnfail_refused"] = stats.get("spawnfail_refused", 0) + 1
                if ran != 0:
                    fails.append("P1: submission %s was refused (%s) after a failed thread creation and its task ran %d time(s)"
                                 % (i, "exception" if res == "x" else "false", ran))
                if fd == 0 or live > 0:
                    fails.append("P4: submission %s refused although %s, the pool was accepting and the queue not full"
                                 % (i, "no thread creation failed" if fd == 0 else "%d worker(s) were alive" % live))
            else:
                stats["spawnfail_accepted"] = stats.get("spawnfail_accepted", 0) + 1
                if ran != 1:
                    fails.append("P2: accepted submission %s ran %d time(s) by the time the pool had been stopped (stop ok=%s) and destroyed"
                                 % (i, ran, kv["stop"]))
                if mode == "r" and fut != "v":
                    fails.append("P4: future of accepted submission %s is `%s` after the pool was stopped and destroyed" % (i, fut))
            if mode == "t" and res == "x":
                fails.append("P4: tryEnqueue threw instead of returning false (submission %s)" % i)
        ctx.count_case("spawnfail " + c + " " + l, nontrivial=int(kv.get("failed", 0)) > 0)
        if fails:
            ctx.violation("property", fails[0], {"category": "spawnfail", "lines": [c], "answer": l, "failures": fails[:6],
                          "how": "feed `lines` to harness/c09_tp_spawnfail.cpp (pthread_create interposed: creations failFrom..failFrom+failCount-1 answer EAGAIN)"},
                          found_input=True)
    if rc != 0 or len(out) != len(cases):
        ctx.violation("property", "CRASH: the spawn-failure harness died after %d of %d cases (rc=%s): %s" % (len(out), len(cases), rc, err[-300:]),
                      {"category": "spawnfail", "lines": cases[len(out):len(out) + 1], "stderr": err[-1500:]}, found_input=True)


def tsan_stress(ctx):
    """Thorough tier: the real pool without DetSched under ThreadSanitizer — the SEARCH for data races."""
    src = "harness/c09_tp_tsan.cpp"
    if not os.path.exists(os.path.join(VERIF, src)):
        return
    out = os.path.join(ctx.work, "c09_tp_tsan")
    cmd = ["g++", "-std=c++17", "-O1", "-g", "-w", "-fsanitize=thread", "-I", os.path.join(ctx.repo, "include"), os.path.join(VERIF, src), "-o", out, "-lpthread"]
    rc, o = ctx.sh(cmd, timeout=900)
    if rc != 0:
        ctx.violation("harness-build", "TSan stress harness no longer compiles: " + " | ".join([l for l in o.splitlines() if "error" in l][:5])[:400],
                      {"broken": {"correspondence": src, "detail": o[-1500:]}})
        return
    rc, o = ctx.sh([out, str(ctx.seed)], timeout=1200, env={"TSAN_OPTIONS": "halt_on_error=0:exitcode=66:second_deadlock_stack=1"})
    races = len(re.findall(r"WARNING: ThreadSanitizer: data race", o))
    ctx.extra["tsan"] = {"rc": rc, "data_race_reports": races, "tail": o[-400:]}
    if races or rc not in (0,):
        first = re.search(r"WARNING: ThreadSanitizer: data race.*?(?=\n\n|\Z)", o, re.S)
        ctx.violation("property", "TSAN: data race / failure in the thread pool under load (rc=%d, %d reports)" % (rc, races),
                      {"tsan_report": (first.group(0) if first else o[-2000:])[:3000], "how": "g++ -fsanitize=thread harness/c09_tp_tsan.cpp && ./a.out %d" % ctx.seed},
                      found_input=True)
