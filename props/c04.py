"""C04 — Synchronous connect yields a live session or a definite error in time (DESIGN §7 C04).

Model: lean/IoraModel/Model/ConnectSync.lean (caller program of connectSync with an explicit syncMutex, the onConnect/onClose
handlers, the engine FIFO, the teardown fence, the cancellable wrapper; every step appends to a log the theorems quantify over).
Tie:   tools/tr_tsyncskel.py -> Gen/TsyncSkel.lean (lock extent of connectSync, its single unlock window, the handlers),
       harness/c04_connectsync.cpp: single-threaded lockstep over a scripted FIFO engine + DetSched schedules (1-8 callers, the I/O
       thread as a policy-driven loop, cancel and fence threads) replayed step by step by the Lean acceptor.
Extension round: (i) tools/tr_enginecontract.py -> Gen/EngineContract.lean: close()/connect() of BOTH engines only enqueue, the Close arm of
process() closes what it finds, connectSync has no protocol bypass and assigns `timeout` only through the clamp; Model/ConnectSyncFacts.lean pins
head/tail of connectSync, the pending branches of both handlers and the wrapper's statement order by exact list equality; Cfg gained `engine` and
`noBypass`, `timing` and `args` are load-bearing (doWakeTokenFirst / sessTls), each with a refutation theorem for the non-conforming behaviour
(seed C04-d, seed C04-b, the unrepaired UDP bypass FC04b). (ii) harness/c04_real.cpp: monitor-only family on the REAL TcpEngine/UdpEngine over
loopback (accept, closed port, black hole, RST, TLS failure / TLS not configured, unresolvable host, stop() under a parked caller, the I/O-thread
guard, many concurrent callers, and the gated-I/O-thread schedule of seed C04-d); every failing real or real-time case is re-run ALONE before it
is reported. (iii) `reset udp` / `polu`: the scripted-engine lockstep and DetSched programs also run a Protocol::UDP transport.
(iv) follow-up of seed C04-e: the engine's own connect-timeout timer is a model step (`timerClose sid` = the Close arm of process() for a
ConnectTimeout-tagged close: executed only while the connect is pending); Cfg.engine now also requires each TcpEngine timer handler to tag its
Close with its CloseOrigin (tr_enginecontract), T1_established_closed_only_by_peer_or_close_cmd needs it, untagged_timer_close_refutes_T1 is the
witness; `real stale <T>` drives the real engine through that race (connectTimeout = T, I/O thread gated, SYN retransmit), `timer <sid>` the model.
"In time" is PARTIAL: the model proves a bound on the caller's own steps; that the wait lasts the caller's timeout is TIED, not proved:
skeleton facts on the wait_for argument and the wrapper's sub-interval arithmetic (decide), a DetSched virtual-time monitor
(single-caller programs: elapsed virtual time <= timeout + 5 ms, <= timeout + 100 ms + 5 ms under the cancellable wrapper) and a
real-time monitor on the sequential `connect` op (elapsed <= timeout + 1.5 s). Wall-clock slack is not proved.
Observation FC04a (not a finding against C04 as stated): the global close callback can fire BEFORE connectSync has returned the id, when the
PEER closes between onConnect and the caller's wake-up; the id is still handed to the caller (Props: T2_ordered_refuted)."""
import json, os
FINDING_KEY = "FC04a:gclose-before-ret-ok"
from vlib.core import Ctx, ddmin, VERIF, load_known_findings

ID = "C04"
MODULES = ["IoraModel.Props.C04"]
DETSCHED = os.path.join(VERIF, "harness", "detsched", "detsched.cpp")
ANCHOR_FILES = ["include/iora/network/transport_impl.hpp", "include/iora/network/detail/engine_base.hpp", "include/iora/network/detail/tcp_engine.hpp",
                "include/iora/network/detail/udp_engine.hpp"]
OBLIGATIONS = [
    {"id": "C04_skel", "theorem": "Iora.C04.skeleton_conforms", "kind": "proved",
     "statement": "genCfg.Good: the model is instantiated from the regenerated skeleton - lock extent of connectSync, one unlock window with only engine->close and abandoned set before it, handlers complete under the lock, wait_for(lk, timeout, done||shuttingDown), wrapper subInterval 100 ms / deadline now+timeout / min(remaining, subInterval), host/port/tls passed unchanged, engine error returned as is (decide)"},
    {"id": "C04_saturate", "theorem": "Iora.C04.timeouts_saturate", "kind": "proved",
     "statement": "connectSync and connectSyncCancellable saturate their timeout (detail::clampSyncTimeout, 100 years) before wait_for / the deadline computation: milliseconds::max() cannot wrap the deadline into the past (FC03b) (decide)"},
    {"id": "C04_engine", "theorem": "Iora.C04.engine_contract_from_source", "kind": "proved",
     "statement": "the EngineContract instance regenerated from tcp_engine.hpp/udp_engine.hpp holds: close(sid) of both engines is exactly `return enqueue(close(sid))`, connect() only takes an id and enqueues (ShuttingDown iff the queue refused), the Close arm of process() closes the session it finds and meets each timer origin with its stale-timer guard, each of the three timer handlers enqueues a Close TAGGED with its own CloseOrigin (decide); Cfg.engine is computed from it and every theorem below is stated under it"},
    {"id": "C04_exact", "theorem": "Iora.C04.skeleton_exact", "kind": "proved",
     "statement": "exact-equality pins (review item C): head and tail of connectSync, the pending branches of onConnect/onClose, the statement order of connectSyncCancellable (result before token), timeout assigned only by the clamp, no protocol bypass (decide)"},
    {"id": "C04_T3_closed", "theorem": "Iora.C04.T3_timed_out_attempt_is_closed", "kind": "proved",
     "statement": "the clause as stated: once the engine FIFO is drained, the session of every attempt that returned its own Timeout is CLOSED in the engine"},
    {"id": "C04_T3_contract_needed", "theorem": "Iora.C04.dropped_close_refutes_T3", "kind": "proved",
     "statement": "the engine contract is necessary: with a close() that drops the command for an id not yet in the session table (seed C04-d) the call returns Timeout, the FIFO drains and the session is ESTABLISHED with its abandoned record never erased (witness schedule, decide)"},
    {"id": "C04_T1_stays_live", "theorem": "Iora.C04.T1_established_closed_only_by_peer_or_close_cmd", "kind": "proved",
     "statement": "T1 second half, every state and step: an established session stays established unless the step is the peer closing it or the I/O thread popping a Close command for it (none exists for a returned session, T1) - in particular the engine's own connect-timeout timer (timerClose: tagged, ignored by process() once the connect completed) cannot close a session connectSync returned; needs Cfg.engine (timersTagged)"},
    {"id": "C04_T1_tag_needed", "theorem": "Iora.C04.untagged_timer_close_refutes_T1", "kind": "proved",
     "statement": "the origin tag of the timer handlers is necessary (seed C04-e): with an untagged timer close the call returns ok 1, nobody closes session 1, yet the transport closes it itself and fires the GLOBAL close callback; under the contract the same schedule leaves it established (witness schedule, decide)"},
    {"id": "C04_udp_refuted", "theorem": "Iora.C04.C04_udp_refuted", "kind": "proved",
     "statement": "FC04b: with the protocol bypass of the unrepaired tree (UDP: return engine->connect directly) C04_udp_statement is false - ok sid is returned before any onConnect"},
    {"id": "C04_udp_gconnect", "theorem": "Iora.C04.C04_udp_refuted_global_connect", "kind": "proved",
     "statement": "FC04b witness 2: under the bypass the global connect callback fires for a connectSync-created id"},
    {"id": "C04_udp_unresolved", "theorem": "Iora.C04.C04_udp_refuted_unresolved", "kind": "proved",
     "statement": "FC04b witness 3: under the bypass an unresolvable host yields ok sid and then the GLOBAL close callback for a session that never existed"},
    {"id": "C04_udp_repaired", "theorem": "Iora.C04.C04_udp_holds_when_repaired", "kind": "proved",
     "statement": "C04_udp_statement holds of every Good configuration (the repaired tree: UDP takes the same path as TCP)"},
    {"id": "C04_T1", "theorem": "Iora.C04.T1_ok_is_live", "kind": "proved",
     "statement": "every schedule: ret ok sid only for the session this call created, after the onConnect handler delivered it, and never for a session any connectSync issued engine->close for"},
    {"id": "C04_T2_connect", "theorem": "Iora.C04.T2_no_global_connect", "kind": "proved",
     "statement": "every schedule: the global connect callback never fires for a connectSync-created session"},
    {"id": "C04_T2_close", "theorem": "Iora.C04.T2_global_close_only_for_handed_out", "kind": "proved",
     "statement": "a global close for a connectSync-created session implies its completion was delivered and the creating call returns nothing but ok sid (NOT: that it had already returned)"},
    {"id": "C04_T2_ordered", "theorem": "Iora.C04.T2_ordered_refuted", "kind": "observation-refuted",
     "statement": "REFUTED: 'globalClose sid is logged only after ret ok sid' - witness: complete, deliver, peer close, global close, then the caller wakes and returns ok"},
    {"id": "C04_T3", "theorem": "Iora.C04.T3_timeout_closes", "kind": "proved",
     "statement": "every return of connectSync's OWN timeout exit is preceded by this call's engine->close(sid)"},
    {"id": "C04_T3_fifo", "theorem": "Iora.C04.T3_nothing_left_open", "kind": "proved",
     "statement": "once the engine FIFO is drained, a session for which engine->close was issued is closed (Connect is processed before Close)"},
    {"id": "C04_T3_nonok", "theorem": "Iora.C04.T3_non_ok_leaves_nothing_open", "kind": "proved",
     "statement": "every finished attempt that did not return ok sid (timed out, failed, woken by teardown, abandoned by a cancelled/timed-out wrapper): engine->close was issued, or the engine closed the session, or teardown began"},
    {"id": "C04_T4", "theorem": "Iora.C04.T4_register_before_completion", "kind": "proved",
     "statement": "no schedule runs the onConnect critical section of a connectSync-created session before it is registered in pendingConnects"},
    {"id": "C04_T5_wake", "theorem": "Iora.C04.T5_no_lost_wakeup", "kind": "proved",
     "statement": "a caller asleep with its predicate true (completion delivered or fence set) has a notify on its way, in every reachable state"},
    {"id": "C04_T5_bound", "theorem": "Iora.C04.T5_step_bound", "kind": "partial",
     "statement": "from any state with the mutex free a parked caller that takes its timeout returns within 3 of its own steps (that the wait lasts `timeout` is tied by skeleton facts + monitors, wall-clock slack NOT proved)"},
    {"id": "C04_T5_lock", "theorem": "Iora.C04.T5_lock_released", "kind": "proved",
     "statement": "a caller holding syncMutex releases it within 3 of its own steps"},
    {"id": "C04_T5_fence", "theorem": "Iora.C04.T5_fence_rejects", "kind": "proved",
     "statement": "a connectSync that acquires the mutex after the fence returns ShuttingDown without calling the engine"},
    {"id": "C04_refused", "theorem": "Iora.C04.T_connect_refused", "kind": "proved",
     "statement": "when engine->connect returns an error the call returns it at once: mutex released, nothing registered, counted or enqueued, no session id"},
    {"id": "C04_tls", "theorem": "Iora.C04.T_tls_mode_as_requested", "kind": "proved",
     "statement": "argument layer, every schedule: the session an attempt works on (and returns ok for) was created with the TLS mode this call requested"},
    {"id": "C04_tls_returned", "theorem": "Iora.C04.T_tls_mode_of_returned_session", "kind": "proved",
     "statement": "argument layer, every schedule: at the step that logs ret ok sid for caller c, session sid was created by an engine->connect carrying the TLS mode this call requested (Cfg.args is load-bearing: sessTls is defined through it)"},
    {"id": "C04_error_reported", "theorem": "Iora.C04.T_error_is_the_reported_one", "kind": "proved",
     "statement": "definite error, every schedule: an attempt returns the engine-reported error class only after the engine's onClose handler ran for THIS session and completed its waiter, the engine has closed the session, and the recorded reason can no longer change"},
    {"id": "C04_reason_written", "theorem": "Iora.C04.T_reason_is_written_by_the_closing_step", "kind": "proved",
     "statement": "the reason class of a session is the one carried by the step that begins its close handler, and such a step exists only while the engine has not closed the session (written exactly once)"},
    {"id": "C04_T6_ok", "theorem": "Iora.C04.T6_wrapper_ok", "kind": "proved",
     "statement": "connectSyncCancellable returns ok sid only if its last sub-attempt returned ok sid, never for a sub-attempt it abandoned"},
    {"id": "C04_T6_cancel", "theorem": "Iora.C04.T6_cancelled_only_if_cancelled", "kind": "proved",
     "statement": "it returns Cancelled only if the token was cancelled"},
    {"id": "C04_T6_token_checks", "theorem": "Iora.C04.T6_cancelled_only_at_token_checks", "kind": "proved",
     "statement": "every schedule: the step that logs wrapRet Cancelled is the wrapper's pre-cancel check or its loop check taken from the loop head (after a sub-attempt's own Timeout, whose session engine->close closed) - never the step in which a sub-attempt returns (an ok sid is always handed on)"},
    {"id": "C04_T6_order_needed", "theorem": "Iora.C04.token_first_refutes_cancel_clause", "kind": "proved",
     "statement": "the wrapper's statement order (Cfg.timing / wrapperOrderExact) is necessary: with the token looked at before the sub-attempt's result (seed C04-b) the wrapper returns Cancelled for a sub-attempt that returned ok 1, no engine->close is ever issued and session 1 stays established (witness schedule, decide)"},
    {"id": "C04_T6_pre", "theorem": "Iora.C04.T6_precancelled", "kind": "proved",
     "statement": "entered with a cancelled token it returns Cancelled without touching the engine"},
]

REASON = {1: "Connect", 2: "Resolve", 3: "Timeout", 4: "TLSHandshake", 5: "Unknown", 6: "PeerClosed"}


# ------------------------------------------------------------------ single-threaded cases
def gen_seq_case(rng):
    # a third of the cases run a Transport configured with Protocol::UDP (same scripted engine): after repair FC04b connectSync takes
    # one path for every protocol, so the same model answers; on the unrepaired tree `connect` returns ok at once (monitor T1)
    ops = ["reset udp" if rng.chance(1, 3) else "reset"]
    nsid = 0
    n = rng.range(2, 14)
    caller = 0
    refusing = False
    for _ in range(n):
        k = rng.below(100)
        if k < 45:
            win = rng.choice(["n", "n", "c", "c", "f", "p"])
            ops.append("connect %d %d %s %d" % (caller, rng.choice([0, 0, 1, 2, 30]), win, rng.below(3)))
            caller += 1
            if not refusing:
                nsid += 1
        elif k < 68:
            ops.append("pop %d" % rng.choice([1, 1, 1, 0]))
        elif k < 78 and nsid:
            ops.append("complete %d" % rng.range(1, nsid))
        elif k < 85 and nsid:
            ops.append("fail %d %d" % (rng.range(1, nsid), rng.range(1, 4)))
        elif k < 89 and nsid:
            ops.append("peerclose %d" % rng.range(1, nsid))
        elif k < 91 and nsid:
            ops.append("timer %d" % rng.range(1, nsid))      # the engine's connect-timeout Close is processed (stale once the connect completed)
        elif k < 95:
            refusing = not refusing          # engine->connect refuses (TcpEngine::connect on a closed queue, e.g. after a plain stop())
            ops.append("refuse %d" % (1 if refusing else 0))
        elif k < 97 and rng.chance(1, 3):
            ops.append("fence")
    for _ in range(2 * nsid + 2):          # let the engine drain its queue
        ops.append("pop 1")
    return {"cat": "seq-udp" if ops[0] == "reset udp" else "seq", "ops": ops}


def seq_monitor(c, impl):
    bad = []
    created_by = {}      # sid -> caller
    result = {}          # caller -> result string
    closes = set()
    fence = False
    refusing = False
    for op, l in zip(c["ops"], impl):
        if l.startswith("crash:") or l.startswith("throw"):
            bad.append("X: connectSync layer crashes/throws: %s -> %s" % (op, l[:80]))
            break
        t = op.split()
        head = l.split(" | ")[0]
        evs = []
        for tok in head.split():
            evs += [e for e in tok.split(";") if e != "-"]
        cur_created = None
        if t[0] == "refuse":
            refusing = t[1] == "1"
        for e in evs:
            if e.startswith("elapsed-exceeded"):
                bad.append("T5/in-time: connectSync returned later than its timeout + 1.5 s (%s) for `%s`" % (e, op))
            if e.startswith("created:"):
                cur_created = int(e.split(":")[1])
                created_by[cur_created] = int(t[1]) if t[0] == "connect" else -1
                if t[0] == "connect" and e.split("tls=")[1] != t[4]:
                    bad.append("H2/TLS: connectSync was asked for TLS mode %s but called engine->connect with mode %s (`%s`)" % (t[4], e.split("tls=")[1], op))
                if refusing:
                    bad.append("M3: a session was created although engine->connect refused")
            elif e.startswith("engineClose:"):
                closes.add(int(e.split(":")[1]))
            elif e.startswith("ret:"):
                _, cid, r = e.split(":", 2)
                result[int(cid)] = r
        for e in evs:
            if e.startswith("gconnect:"):
                sid = int(e.split(":")[1])
                if sid in created_by:
                    bad.append("T2: the global connect callback fired for session %d, which a connectSync created" % sid)
            elif e.startswith("gclose:"):
                sid = int(e.split(":")[1])
                if sid in created_by and result.get(created_by[sid]) != "ok:%d" % sid:
                    bad.append("T2: the global close callback fired for session %d although connectSync returned %s to its caller (it never handed out that id)"
                               % (sid, result.get(created_by[sid])))
            elif e.startswith("ret:"):
                _, cid, r = e.split(":", 2)
                if r.startswith("ok:"):
                    bad.append("T1: single-threaded connectSync returned success although nothing can complete while it waits")
                if t[0] == "connect" and refusing and r != "err:ShuttingDown":
                    bad.append("M3: engine->connect refused (ShuttingDown) but connectSync returned %s" % r)
                if r == "err:Timeout" and (cur_created is None or cur_created not in closes):
                    bad.append("T3: connectSync returned Timeout without issuing engine->close for its session")
                if fence and not refusing and r != "err:ShuttingDown":
                    bad.append("T5: a connectSync entered after the teardown fence returned %s" % r)
                if fence and cur_created is not None:
                    bad.append("T5: a connectSync entered after the teardown fence still called engine->connect")
        if t[0] == "fence":
            fence = True
    return bad


# ------------------------------------------------------------------ DetSched programs
HUGE = [9223372036854775807, 9223372036854775, 9223372036854, 4294967296]     # ms; milliseconds::max() = "no timeout" (FC03b)


def gen_sched_case(rng, big):
    ncall = rng.choice([1, 1, 1, 2, 2, 3, 4]) if not big else rng.choice([5, 8])
    kind = rng.choice(["plain", "plain", "late", "mixed", "wrapped", "fence", "cancel", "refuse", "reasons", "long-timeout"])
    threads = []
    has_wrapped = False
    if kind == "long-timeout":
        # timeouts up to milliseconds::max(): every attempt is resolved by the engine (never `n`/`l`), so the call must return the
        # engine's outcome - never an early Timeout (the unrepaired deadline arithmetic wrapped into the past, FC03b)
        for i in range(rng.choice([1, 1, 2])):
            threads.append(["%s:%d:%d" % (rng.choice(["k", "k", "w"]), rng.choice(HUGE), rng.choice([0, 1, 2]))])
        policy = "".join(rng.choice("oofrpus") for _ in range(rng.range(1, 4)))
        return {"cat": "sched-long-timeout", "seed": rng.below(2 ** 31), "timeoutOneIn": 0, "spuriousOneIn": rng.choice([0, 0, 5]),
                "policy": policy, "threads": threads, "udp": rng.chance(1, 4)}
    for i in range(ncall):
        ops = []
        for _ in range(rng.choice([1, 1, 2]) if not big else 1):
            tls = rng.choice([0, 0, 1, 2])
            if kind in ("wrapped", "cancel") or (kind in ("mixed", "refuse", "fence") and rng.chance(1, 3)):
                # wrapper timeouts: below one sub-interval, at exact multiples of it, in between, zero and negative
                ops.append("w:%d:%d" % (rng.choice([50, 120, 250, 350, 0, 10, 40, 100, 200, 300, -5]), tls))
                has_wrapped = True
            else:
                ops.append("k:%d:%d" % (rng.choice([0, 30, 60, 200, 0, 30, 60, 200, 1, -5]), tls))
        threads.append(ops)
    if kind == "cancel" or (kind in ("wrapped", "mixed") and rng.chance(1, 3)):
        x = []
        for _ in range(rng.range(0, 3)):
            x.append("y")
        x.append("x:%d" % rng.below(ncall))
        if rng.chance(1, 3):
            x.append("x:%d" % rng.below(ncall))
        threads.append(x)
    if kind == "fence" or rng.chance(1, 20):
        # f = setTeardownFence; T = teardownWaitOut(true), the way ~Transport / performTeardown raise the fence (and wait the callers out)
        threads.append(["y"] * rng.range(0, 4) + [rng.choice(["f", "f", "T"])])
    if kind == "refuse":
        threads.append(["y"] * rng.range(0, 3) + ["R"])       # engine->connect starts refusing (queue closed by a plain stop())
    # policy letters: o ok, f/u fail at pop (refused/unresolved), r/t/s fail later (refused / engine-side connect timeout / TLS failure),
    # n never, l late (completes once the caller's Close is queued), p ok then peer close. `t` only without wrapped callers: the
    # cancellable wrapper treats an engine-reported Timeout like a sub-attempt timeout and retries (not modelled)
    letters = {"plain": "oooofrnp", "late": "llllon", "mixed": "ofrnlpus", "wrapped": "onnnrlpu", "fence": "onnl", "cancel": "nnnol",
               "refuse": "oonp", "reasons": "furs" + ("" if has_wrapped else "tt")}[kind]
    policy = "".join(rng.choice(letters) for _ in range(rng.range(1, 6)))
    return {"cat": "sched-" + kind, "seed": rng.below(2 ** 31), "timeoutOneIn": rng.choice([0, 0, 0, 4, 8, 16]), "spuriousOneIn": rng.choice([0, 0, 5]),
            "policy": policy, "threads": threads, "udp": rng.chance(1, 4)}


def sched_line(c, choices=None):
    first = ("c:" + ",".join(map(str, choices))) if choices is not None else ("c:" + c["choices"] if "choices" in c else str(c["seed"]))
    parts = ["sched", first, str(c["timeoutOneIn"]), str(c["spuriousOneIn"]), "polu" if c.get("udp") else "pol", c["policy"] or "-"]
    for t in c["threads"]:
        parts += ["t"] + t
    return " ".join(parts)


def parse_sched(line):
    if line.startswith("crash:") or " | " not in line:
        return None
    parts = line.split(" | ")
    status = parts[0].strip().rstrip("|").strip()
    steps = []
    for tok in (parts[1].split() if len(parts) > 1 else []):
        if "=>" not in tok:
            continue
        lhs, obs = tok.split("=>", 1)
        f = lhs.split(",")
        steps.append({"tid": int(f[0]), "step": " ".join(f[1:]), "obs": obs})
    tail = parts[3] if len(parts) > 3 else ""
    info = dict(kv.split("=", 1) for kv in tail.split() if "=" in kv)
    times = []
    for t in info.get("times", "-").split(","):
        f = t.split(":", 5)
        if len(f) == 6:
            times.append({"caller": int(f[0]), "wrapped": f[1] == "1", "timeout_ms": int(f[2]), "elapsed_us": int(f[3]), "start_us": int(f[4]), "ret": f[5]})
    cancels = []
    for t in info.get("cancels", "").split(","):
        f = t.split(":")
        if len(f) == 2:
            cancels.append((int(f[0]), int(f[1])))
    return {"status": status.split()[0] if status else "?", "steps": steps, "choices": parts[2].strip() if len(parts) > 2 else "",
            "open": [int(x) for x in info.get("open", "-").split(",") if x not in ("-", "")], "q": int(info.get("q", "0") or 0),
            "times": times, "cancels": cancels, "final": parts[4].strip() if len(parts) > 4 else "-", "report": parts[5] if len(parts) > 5 else ""}


SLACK_US = 5000           # virtual-time slack: every look at the clock costs 1 us under DetSched
SUB_US = 100000           # the cancellable wrapper's sub-interval


def sched_monitor(c, res):
    """Returns (violations, findings). findings = occurrences of the recorded finding FC04a (ordering of the global close callback)."""
    bad = []
    finding = []
    if res is None:
        return ["X: the harness produced no trace"], []
    if res["status"] != "ok":
        if res["status"] == "diverged" and "choices" in c:
            return [], []
        if res["status"] == "steplimit":
            return [], []          # DetSched's step budget ran out (starvation-style schedule): machinery, counted in the distribution
        return ["T5: not every connectSync returns under this schedule (%s): %s" % (res["status"], res["report"][:300])], []
    created_by = {}       # sid -> (caller, call index)
    created_tls = {}
    calls = {}            # caller -> list of dict(wrapped, sids, ret)
    completed = set()
    closes = set()
    cancelled = set()
    reason = {}           # sid -> reason the engine reported with onClose
    returned_ok = set()   # sids already handed to a caller
    fence = False
    refusing_seen = False
    for st in res["steps"]:
        f = st["step"].split()
        if f[0] == "call":
            calls.setdefault(int(f[1]), []).append({"wrapped": f[2] == "1", "tls": f[3], "sids": [], "ret": None, "after_fence": fence,
                                                    "cancelled_before": int(f[1]) in cancelled, "refused": False})
        elif f[0] == "cancel":
            cancelled.add(int(f[1]))
        elif f[0] == "fence":
            fence = True
        elif f[0] == "ioComplete":
            completed.add(int(f[1]))
        elif f[0] in ("ioFail", "ioPeerClose"):
            reason.setdefault(int(f[1]), int(f[2]))
        elif f[0] == "ioPop" and f[1] == "0":
            for e in st["obs"].split(";"):
                if e.startswith("cmd:connect:"):
                    reason.setdefault(int(e.split(":")[2]), int(f[2]))
        elif f[0] == "cRefuse":
            calls[int(f[1])][-1]["refused"] = True
            refusing_seen = True
            if calls[int(f[1])][-1]["sids"] and not calls[int(f[1])][-1]["wrapped"]:
                bad.append("M3: engine->connect refused after this call had already created a session")
        for e in st["obs"].split(";"):
            if e.startswith("created:"):
                sid = int(e.split(":")[1])
                cid = int(f[1])
                calls[cid][-1]["sids"].append(sid)
                created_by[sid] = (cid, len(calls[cid]) - 1)
                created_tls[sid] = e.split("tls=")[1]
                if created_tls[sid] != calls[cid][-1]["tls"]:
                    bad.append("H2/TLS: caller %d asked for TLS mode %s but engine->connect was called with mode %s (session %d)"
                               % (cid, calls[cid][-1]["tls"], created_tls[sid], sid))
                if calls[cid][-1]["after_fence"]:
                    bad.append("T5: a connectSync entered after the teardown fence still called engine->connect (session %d)" % sid)
            elif e.startswith("engineClose:"):
                closes.add(int(e.split(":")[1]))
            elif e.startswith("gconnect:"):
                sid = int(e.split(":")[1])
                if sid in created_by:
                    bad.append("T2: the global connect callback fired for session %d, which a connectSync created" % sid)
            elif e.startswith("gclose:"):
                sid = int(e.split(":")[1])
                if sid in created_by and sid not in returned_ok:
                    finding.append(sid)        # decided below: finding FC04a only if the creating call does return ok sid later
            elif e.startswith("ret:"):
                _, cid, r = e.split(":", 2)
                cid = int(cid)
                call = calls[cid][-1]
                call["ret"] = r
                last = call["sids"][-1] if call["sids"] else None
                if r.startswith("ok:"):
                    sid = int(r[3:])
                    returned_ok.add(sid)
                    if last != sid:
                        bad.append("T1/T6: caller %d got ok:%d but the last session its call created is %s" % (cid, sid, last))
                    if sid not in completed:
                        bad.append("T1: caller %d got ok:%d before that session's connect completed" % (cid, sid))
                    if sid in closes:
                        bad.append("T1: caller %d got ok:%d although the transport itself had issued engine->close(%d)" % (cid, sid, sid))
                    if call["refused"] and not call["wrapped"]:
                        bad.append("M3: engine->connect refused but connectSync returned ok")
                elif r == "err:Cancelled":
                    if cid not in cancelled:
                        bad.append("T6: caller %d got Cancelled although its token was never cancelled" % cid)
                    if not call["wrapped"]:
                        bad.append("T6: a plain connectSync returned Cancelled")
                elif call["refused"]:
                    if r != "err:ShuttingDown":
                        bad.append("M3: engine->connect refused with ShuttingDown but caller %d got %s" % (cid, r))
                elif r == "err:Timeout":
                    # connectSync's own timeout exit closes its session; an engine-reported Timeout (onClose reason) is passed through
                    if not call["sids"]:
                        if not call["wrapped"]:
                            bad.append("T3: caller %d got Timeout without having created a session" % cid)
                    else:
                        for s_ in call["sids"]:
                            if s_ not in closes and reason.get(s_) is None and not fence:
                                bad.append("T3: caller %d got Timeout but session %d of this call was neither closed by connectSync nor "
                                           "closed by the engine" % (cid, s_))
                        if last not in closes and reason.get(last) not in (None, 3):
                            bad.append("L8: caller %d got Timeout but the engine closed session %d with reason %s" % (cid, last, REASON.get(reason.get(last))))
                elif r.startswith("err:") and r != "err:ShuttingDown":
                    # a failed connect: the error must be the one the engine reported for THIS call's current session
                    want = REASON.get(reason.get(last)) if last is not None else None
                    if want is None or r != "err:" + want:
                        bad.append("L8: caller %d got %s but the engine reported %s for session %s of this call" % (cid, r, want, last))
                elif r == "err:ShuttingDown":
                    if not fence and not call["after_fence"]:
                        bad.append("T5: caller %d got ShuttingDown although neither the fence was set nor engine->connect refused" % cid)
                if call["after_fence"] and r != "err:ShuttingDown" and not (call["wrapped"] and call["cancelled_before"] and r == "err:Cancelled"):
                    bad.append("T5: a connectSync entered after the teardown fence returned %s" % r)
                if call["wrapped"] and call["cancelled_before"] and r != "err:Cancelled":
                    bad.append("T6: connectSyncCancellable entered with a cancelled token returned %s" % r)
    fc04a = []
    for st in res["steps"]:
        for e in st["obs"].split(";"):
            if e.startswith("gclose:"):
                sid = int(e.split(":")[1])
                if sid in created_by:
                    cid, k = created_by[sid]
                    if calls[cid][k]["ret"] != "ok:%d" % sid:
                        bad.append("T2: the global close callback fired for session %d although the connectSync that created it returned %s "
                                   "(the id was never handed to the caller)" % (sid, calls[cid][k]["ret"]))
                    elif sid in finding:
                        fc04a.append("FC04a: the global close callback for session %d ran before connectSync returned ok:%d to caller %d" % (sid, sid, cid))
    for sid in res["open"]:
        if sid in closes:
            bad.append("T3: session %d is still open in the engine after the run although connectSync issued engine->close for it" % sid)
        if sid in created_by:
            cid, k = created_by[sid]
            if calls[cid][k]["ret"] is not None and calls[cid][k]["ret"] != "ok:%d" % sid and not fence:
                bad.append("T3: session %d was left open by a connectSync that returned %s" % (sid, calls[cid][k]["ret"]))
    for cid, lst in calls.items():
        for call in lst:
            if call["ret"] is None:
                bad.append("T5: a call of caller %d never returned" % cid)
    # in time, in DetSched virtual time: only programs with ONE calling thread (another caller's timed wait moves the shared clock)
    ncallers = sum(1 for t in c["threads"] if any(o[0] in "kw" for o in t))
    if ncallers == 1:
        for t in res["times"]:
            lim = max(0, t["timeout_ms"]) * 1000 + SLACK_US + (SUB_US if t["wrapped"] else 0)
            if t["elapsed_us"] > lim:
                bad.append("H1/in-time: caller %d asked for %d ms (%s) and returned %s after %d us of virtual time (> %d us)"
                           % (t["caller"], t["timeout_ms"], "cancellable" if t["wrapped"] else "plain", t["ret"], t["elapsed_us"], lim))
            if t["wrapped"]:
                # a cancel is honoured within one sub-interval, whatever the call then returns (it may still complete or time out first)
                cs = [v for (cc, v) in res["cancels"] if cc == t["caller"] and v <= t["start_us"] + t["elapsed_us"]]
                if cs:
                    lat = t["start_us"] + t["elapsed_us"] - max(min(cs), t["start_us"])
                    if lat > SUB_US + SLACK_US:
                        bad.append("H1/cancel latency: caller %d's token was cancelled but connectSyncCancellable returned (%s) %d us of virtual "
                                   "time later (> sub-interval 100 ms + slack)" % (t["caller"], t["ret"], lat))
            if t["ret"] == "err:Timeout" and not t["wrapped"] and t["elapsed_us"] + SLACK_US < t["timeout_ms"] * 1000:
                sids = [s_ for s_, (cc, _) in created_by.items() if cc == t["caller"]]
                if not any(reason.get(s_) == 3 for s_ in sids):
                    bad.append("H1/in-time: caller %d got Timeout after only %d us of virtual time although it asked for %d ms"
                               % (t["caller"], t["elapsed_us"], t["timeout_ms"]))
    return bad, fc04a


def reach_counters(c, res):
    """Branch / window counters of one accepted schedule (from the second review's reach.py): which windows of the property the
    correspondence run actually reached. Returned as a set of labels; run_sched adds them to input_distribution as `reach:<label>`."""
    per = set()
    owner, cstate, csid, wrapped, eng, retd = {}, {}, {}, {}, {}, {}
    cancelled, cancelled_while_parked, abandoned, delivered = set(), set(), set(), set()
    fence = False
    try:
        for st in res["steps"]:
            f = st["step"].split()
            obs = st["obs"]
            k = f[0]
            if k == "call":
                cid = int(f[1]); wrapped[cid] = f[2] == "1"; cstate[cid] = "start"
                if fence: per.add("call-after-fence")
                if cid in cancelled and wrapped[cid]: per.add("call-precancelled")
            elif k == "cancel":
                cid = int(f[1]); cancelled.add(cid)
                s_ = cstate.get(cid)
                per.add("cancel-while:" + str(s_))
                if s_ == "parked": cancelled_while_parked.add((cid, csid.get(cid)))
            elif k == "cEnter":
                cid = int(f[1])
                if "ret:" in obs: per.add("cEnter-fence-reject"); cstate[cid] = "done"
                else: cstate[cid] = "haveLock"
            elif k == "cConnect":
                cid = int(f[1]); sid = int(obs.split(":")[1]); owner[sid] = cid; csid[cid] = sid; cstate[cid] = "connected"; eng[sid] = "queued"
            elif k == "cRefuse":
                cid = int(f[1]); per.add("cRefuse" + ("-wrapped" if wrapped.get(cid) else "-plain")); cstate[cid] = "done"
            elif k == "cRegister":
                cstate[int(f[1])] = "registered"
            elif k == "cPark":
                cstate[int(f[1])] = "parked"
            elif k == "cWake":
                cid = int(f[1]); t = f[2]; sid = csid[cid]
                if "ret:" in obs:
                    r = obs.split("ret:")[1].split(":", 1)[1]
                    kind = "ok" if r.startswith("ok") else r
                    per.add("cWake%s->%s" % (t, kind))
                    if kind == "ok" and (cid, sid) in cancelled_while_parked: per.add("C04b-window:cancel-while-parked-then-ok")
                    if kind == "ok" and eng.get(sid) == "closed": per.add("ok-for-session-already-closed-by-peer")
                    if kind == "ok" and fence: per.add("ok-after-fence")
                    retd[sid] = kind; cstate[cid] = "done"
                    if kind == "err:ShuttingDown": abandoned.add(sid)
                elif t == "1":
                    cstate[cid] = "closing"; abandoned.add(sid); per.add("cWake1->window")
                else:
                    per.add("cWake0->repark-or-loop")
            elif k == "cClose":
                cstate[int(f[1])] = "relock"
            elif k == "cRelock":
                cid = int(f[1]); sid = csid[cid]
                if "ret:" in obs:
                    r = obs.split("ret:")[1].split(":", 1)[1]
                    per.add("cRelock->" + r); cstate[cid] = "done"; retd[sid] = r
                else:
                    cstate[cid] = "wloop"; per.add("cRelock->wloop")
                if fence: per.add("cRelock-after-fence")
            elif k == "wLoop":
                per.add("wLoop" + f[2] + ("->" + obs.split("ret:")[1].split(":", 1)[1] if "ret:" in obs else "->retry"))
                cstate[int(f[1])] = "done" if "ret:" in obs else "start"
            elif k == "fence":
                fence = True
                for s_ in set(cstate.values()):
                    if s_ != "done": per.add("fence-with-caller-in:" + s_)
            elif k == "ioPop":
                ob = obs.split(";")[0]
                if ob.startswith("cmd:connect:"):
                    sid = int(ob.split(":")[2])
                    if f[1] == "1": eng[sid] = "connecting"
                    else:
                        eng[sid] = "closed"
                        per.add("popfail-owner:" + str(cstate.get(owner[sid])) + ("-abandoned" if sid in abandoned else ""))
                    if sid in abandoned: per.add("connect-popped-after-abandon(C04-d window)")
                elif ob.startswith("cmd:close:"):
                    sid = int(ob.split(":")[2])
                    per.add("closecmd-on:" + str(eng.get(sid)))
                    if eng.get(sid) in ("connecting", "established"): eng[sid] = "closed"
            elif k == "ioComplete":
                sid = int(f[1]); eng[sid] = "established"
                o = owner[sid]; s_ = cstate.get(o) if csid.get(o) == sid else "moved-on"
                if sid in abandoned: per.add("lateConnect-abandoned-owner:" + str(s_) + ("-ret:" + retd[sid] if sid in retd else ""))
                else: delivered.add(sid); per.add("onConnect-delivered-owner:" + str(s_))
            elif k == "ioFail":
                sid = int(f[1]); eng[sid] = "closed"
                o = owner[sid]; s_ = cstate.get(o) if csid.get(o) == sid else "moved-on"
                per.add("ioFail-" + ("abandoned" if sid in abandoned else "live") + "-owner:" + str(s_) + "-reason" + f[2])
            elif k == "ioPeerClose":
                sid = int(f[1]); eng[sid] = "closed"
                per.add("peerClose-" + ("abandoned" if sid in abandoned else "delivered"))
            elif k == "ioStep":
                if "gclose" in obs: per.add("gclose")
                if "gconnect" in obs: per.add("gconnect")
    except (KeyError, IndexError, ValueError):
        per.add("tracker-lost")          # a trace the tracker cannot follow is judged by the monitors / the acceptor, not here
    if fence and any(wrapped.values()): per.add("fence+wrapped-caller")
    if fence and cancelled: per.add("fence+cancel")
    for t in c["threads"]:
        for o in t:
            if o[0] in "kw":
                ms = int(o.split(":")[1])
                if ms < 0: per.add("timeout-negative")
                elif ms == 0: per.add("timeout-0")
                elif o[0] == "w" and ms < 50: per.add("wrapper-timeout<50ms")
                elif o[0] == "w" and ms % 100 == 0: per.add("wrapper-timeout-multiple-of-100ms")
            if o == "T": per.add("fence-through-teardownWaitOut")
    if c.get("udp"): per.add("protocol-udp")
    return per


# ------------------------------------------------------------------ the real engines on loopback (monitor-only)
REAL_SLACK_MS = 1500      # generous: sanitizer build on a loaded machine; every failing real case is re-run alone before it is reported


def gen_real_cases(rng, n):
    """Scenarios of harness/c04_real.cpp: the REAL TcpEngine/UdpEngine behind the REAL Transport; peers that accept, refuse, black-hole,
    reset, fail TLS, do not resolve; the gated-I/O-thread schedule of seed C04-d; stop() under a parked caller; the I/O-thread guard."""
    fixed = ["real gated %d 0" % rng.choice([50, 60, 80, 100]), "real gated %d 1" % rng.choice([150, 250, 320]),
             "real resolve udp 3000 0", "real resolve tcp 3000 %d" % rng.below(2), "real udp ok 1000", "real udp tls 1000",
             "real accept 1500 0 %d keep" % rng.below(2), "real accept 1500 1 0 keep", "real accept 1500 2 %d keep" % rng.below(2),
             "real refused 1000 %d" % rng.below(2), "real blackhole %d 0 -1" % rng.choice([120, 200]),
             "real blackhole %d 1 %d" % (rng.choice([600, 900]), rng.choice([50, 130, 220])), "real stop 2000 %d" % rng.choice([80, 150]),
             "real ioguard", "real stale %d" % rng.choice([1250, 1300, 1400]), "real many %d %d" % (rng.choice([4, 6, 9]), rng.choice([150, 300]))]
    out = list(fixed)
    while len(out) < n:
        k = rng.below(100)
        if k < 25:
            out.append("real accept %d %d %d %s" % (rng.choice([300, 1000, 2000]), rng.choice([0, 0, 0, 1, 2]), rng.below(2),
                                                   rng.choice(["keep", "peerclose", "rst", "appclose"])))
        elif k < 35:
            out.append("real refused %d %d" % (rng.choice([100, 500, 1500]), rng.below(2)))
        elif k < 55:
            w = rng.below(2)
            tmo = rng.choice([60, 100, 150, 230, 300]) if w else rng.choice([50, 120, 200])
            out.append("real blackhole %d %d %d" % (tmo, w, rng.choice([-1, -1, 30, 120]) if w else -1))
        elif k < 80:
            w = rng.below(2)
            out.append("real gated %d %d" % (rng.choice([100, 150, 200, 250, 350]) if w else rng.choice([50, 70, 100]), w))
        elif k < 88:
            out.append("real stop %d %d" % (rng.choice([1000, 2000]), rng.choice([50, 100, 200])))
        elif k < 92:
            out.append("real resolve %s 3000 %d" % (rng.choice(["tcp", "udp"]), rng.below(2)))
        elif k < 96:
            out.append("real many %d %d" % (rng.choice([2, 3, 5, 8, 12]), rng.choice([120, 200, 350])))
        else:
            out.append("real udp %s 1000" % rng.choice(["ok", "tls"]))
    return out


def parse_real(line):
    if not line.startswith("real "):
        return None
    f = line.split()
    d = {"scen": f[1]}
    for tok in f[2:]:
        if "=" in tok:
            k, v = tok.split("=", 1)
            d[k] = v
    d["rets"] = [] if d.get("ret", "-") == "-" else d["ret"].split(",")
    d["els"] = [] if d.get("el", "-") == "-" else [int(x) for x in d["el"].split(",")]
    for k in ("gconnect", "gdata", "held"):
        d[k + "_ids"] = [] if d.get(k, "-") == "-" else [int(x) for x in d[k].split(",")]
    d["gclose_ids"] = [] if d.get("gclose", "-") == "-" else [(int(x.split(":")[0]), x.split(":")[1]) for x in d["gclose"].split(",")]
    return d


def real_monitor(op, line):
    """-> (violations, timing_only): verdicts over the raw observations of one real-engine scenario (implementation only)."""
    bad = []
    if line.startswith("crash:") or line.startswith("throw"):
        return ["X: the real Transport crashes/throws in scenario `%s`: %s" % (op, line[:200])], False
    d = parse_real(line)
    if d is None or "skip" in d:
        return [], False
    t = op.split()
    scen = t[1]
    held = set(d["held_ids"])
    rets, els = d["rets"], d["els"]
    timing = []
    # ---- clauses that hold in every scenario
    for sid in d["gconnect_ids"]:
        bad.append("T2: the global connect callback fired for session %d, which a connectSync created (no async connect() exists in this scenario)" % sid)
    for sid, code in d["gclose_ids"]:
        if sid not in held:
            bad.append("T2: the global close callback (%s) fired for session %d, an id no connectSync call handed to the application" % (code, sid))
    for sid in d["gdata_ids"]:
        if sid not in held:
            bad.append("T3/T2: the data callback fired for session %d, an id the application never received - the connection of a finished, "
                       "non-ok attempt is alive" % sid)
    if "want_sessions" in d and int(d["sessions"]) != int(d["want_sessions"]):
        bad.append("T3: the engine holds %s live sessions but the application holds %s (a finished attempt left a connection behind, or a "
                   "returned session is not live)" % (d["sessions"], d["want_sessions"]))
    if int(d.get("left_open", "0")) > 0:
        bad.append("T3: %s connection(s) of a timed-out / failed attempt were accepted by the target and never closed by the library "
                   "(no EOF/RST within 2 s)" % d["left_open"])
    if int(d.get("pend", "0")) != 0:
        bad.append("T3: %s pendingConnects record(s) survive after every attempt is over and the engine is idle (no onClose ever reaps them)" % d["pend"])
    if int(d.get("ac", "0")) != 0:
        bad.append("T5: activeConnects = %s after every call has returned" % d["ac"])
    for r in rets:
        if r.startswith("err:Other") or r == "err:None":
            bad.append("L8: connectSync returned an error without a definite code (%s)" % r)
    # ---- per scenario
    r0 = rets[0] if rets else None
    e0 = els[0] if els else 0
    if scen == "accept":
        tmo, tls, then = int(t[2]), int(t[3]), t[5]
        if tls == 0:
            if r0 is None or not r0.startswith("ok:"):
                bad.append("T1: connectSync to an accepting target returned %s" % r0)
            elif int(d.get("accepted", "0")) < 1:
                bad.append("T1: connectSync returned %s although the target accepted no connection" % r0)
            elif int(d.get("sessions_after_ret", "0")) != 1:
                bad.append("T1: connectSync returned %s but the engine holds %s sessions right afterwards" % (r0, d.get("sessions_after_ret")))
            if then in ("peerclose", "rst") and r0 and r0.startswith("ok:") and not d["gclose_ids"]:
                bad.append("T2: the peer closed a session that WAS handed out and no global close callback reported it within 2 s")
            if then == "appclose" and d.get("peer_saw_close") == "0":
                bad.append("X: close(sid) of a returned session did not close the connection")
        elif tls == 1:
            if r0 is None or r0.startswith("ok:"):
                bad.append("T1: connectSync(TLS) returned %s although the peer never completed a TLS handshake" % r0)
            elif r0 not in ("err:TLSHandshake", "err:PeerClosed", "err:Timeout"):
                bad.append("L8: connectSync(TLS) against a non-TLS peer returned %s" % r0)
        else:
            if r0 is None or r0.startswith("ok:"):
                bad.append("T1: connectSync(TLS) returned %s on a transport without a client TLS context" % r0)
        if e0 > tmo + REAL_SLACK_MS:
            timing.append("T5/in-time: connectSync(%d ms) returned after %d ms" % (tmo, e0))
    elif scen == "refused":
        tmo = int(t[2])
        if r0 != "err:Connect":
            bad.append("L8: connectSync to a closed port returned %s (expected the definite error Connect)" % r0)
        if e0 > tmo + REAL_SLACK_MS:
            timing.append("T5/in-time: connectSync(%d ms) to a closed port returned after %d ms" % (tmo, e0))
    elif scen == "blackhole":
        tmo, w, cancel_at = int(t[2]), int(t[3]), int(t[4])
        allowed = ["err:Timeout"] + (["err:Cancelled"] if cancel_at >= 0 else [])
        if r0 not in allowed:
            bad.append("T1/L8: connectSync to a black-holed target returned %s" % r0)
        if r0 == "err:Cancelled" and not w:
            bad.append("T6: a plain connectSync returned Cancelled")
        if e0 > tmo + REAL_SLACK_MS + (100 if w else 0):
            timing.append("T5/in-time: connectSync(%d ms) to a black hole returned after %d ms" % (tmo, e0))
        if r0 == "err:Timeout" and e0 + 20 < tmo:
            timing.append("H1: Timeout after only %d ms of a %d ms timeout" % (e0, tmo))
        if w and 0 <= cancel_at < tmo - 150 and e0 > cancel_at + 100 + REAL_SLACK_MS:
            timing.append("H1/cancel latency: cancelled at %d ms, returned after %d ms" % (cancel_at, e0))
    elif scen == "gated":
        tmo, w = int(t[2]), int(t[3])
        if r0 != "err:Timeout":
            bad.append("T1: connectSync returned %s while the I/O thread was parked in a callback (nothing can complete)" % r0)
        if e0 > tmo + REAL_SLACK_MS + (100 if w else 0):
            timing.append("T5/in-time: connectSync(%d ms) with a busy I/O thread returned after %d ms" % (tmo, e0))
    elif scen == "stop":
        tmo, stop_at = int(t[2]), int(t[3])
        if r0 is None or r0.startswith("ok:"):
            bad.append("T1: a connectSync parked on a black hole returned %s when the transport was stopped" % r0)
        if e0 > stop_at + REAL_SLACK_MS:
            timing.append("T5/in-time: stop() at %d ms, the parked connectSync returned after %d ms" % (stop_at, e0))
        if d.get("sessions_after_stop") not in (None, "0"):
            bad.append("T3: %s sessions alive after stop()" % d.get("sessions_after_stop"))
        for r in rets[1:]:
            if r != "err:ShuttingDown":
                bad.append("M3: connectSync on a stopped transport (engine->connect refuses) returned %s" % r)
        for e in els[1:]:
            if e > 300 + REAL_SLACK_MS:
                timing.append("T5/in-time: connectSync on a stopped transport returned after %d ms" % e)
    elif scen == "resolve":
        tmo = int(t[3])
        if r0 is None or r0.startswith("ok:"):
            bad.append("T1: connectSync to a host that does not resolve returned %s on a %s transport (the Resolve error %s)"
                       % (r0, d.get("proto"), "reached the GLOBAL close callback instead" if d["gclose_ids"] else "was lost"))
        elif r0 not in ("err:Resolve", "err:Timeout"):
            bad.append("L8: connectSync to a host that does not resolve returned %s" % r0)
        if e0 > tmo + REAL_SLACK_MS:
            timing.append("T5/in-time: connectSync(%d ms) to an unresolvable host returned after %d ms" % (tmo, e0))
    elif scen == "udp":
        if t[2] == "ok":
            if r0 is None or not r0.startswith("ok:"):
                bad.append("T1: UDP connectSync to a bound loopback socket returned %s" % r0)
            elif d.get("peer_got_datagram") != "1":
                bad.append("T1: UDP connectSync returned %s but a datagram sent on that session did not reach the peer" % r0)
        elif r0 != "err:Config":
            bad.append("L8: UDP connectSync with a TLS mode returned %s (expected the definite error Config)" % r0)
    elif scen == "many":
        n, tmo = int(t[2]), int(t[3])
        if len(rets) != n:
            bad.append("T5: %d of %d concurrent callers returned" % (len(rets), n))
        for r in rets:
            if not (r.startswith("ok:") or r == "err:Timeout"):
                bad.append("L8: a concurrent caller got %s (targets: accepting / black hole)" % r)
        if int(d.get("accepted", "0")) < len(held):
            bad.append("T1: %d callers were handed a session but the accepting target saw only %s connections" % (len(held), d.get("accepted")))
        if d.get("blackhole") == "1" and len(held) != (n + 1) // 2:
            bad.append("T1: %d of %d callers aimed at the accepting target got ok" % (len(held), (n + 1) // 2))
        for e in els:
            if e > tmo + 100 + REAL_SLACK_MS:
                timing.append("T5/in-time: a concurrent connectSync(%d ms) returned after %d ms" % (tmo, e))
    elif scen == "stale":
        # seed C04-e: nobody but the transport can close the session here (the peer keeps it open, the application never calls close())
        if r0 is not None and r0.startswith("ok:"):
            sid = int(r0[3:])
            for gs, code in d["gclose_ids"]:
                if gs == sid:
                    bad.insert(0, "T1: connectSync returned ok:%d and the transport then closed that session ITSELF (global close callback, %s) - "
                               "neither the peer nor the application closed it; the engine's stale connect-timeout Close (connectTimeout %s ms) "
                               "was executed after the connect had completed" % (sid, code, d.get("T")))
        elif r0 not in ("err:Timeout",):
            bad.append("L8: connectSync to a slowly accepting target returned %s" % r0)
    elif scen == "ioguard":
        if d.get("threw") != "1" or d.get("returned") != "0":
            bad.append("T5: connectSync called on the I/O thread did not throw logic_error (threw=%s returned=%s): it would deadlock"
                       % (d.get("threw"), d.get("returned")))
    return bad + timing, (not bad and bool(timing))


def run_real(ctx, hr, rng, scale, dist):
    ops = [op for c in load_corpus() if c.get("cat") == "real" for op in c["ops"]] + gen_real_cases(rng, 28 * scale)
    unrep = 0
    k = 0
    outs = []
    while k < len(ops):
        out, rc, err = ctx.run_lines([hr], ops[k:], timeout=1200)
        out = [l for l in out if not l.startswith("[")]
        outs += out[:len(ops) - k]
        k = len(outs)
        if k < len(ops):
            outs.append("crash:rc=%s %s" % (rc, err[-400:].replace("\n", " ")))
            k += 1
    for op, l in zip(ops, outs):
        scen = op.split()[1]
        dist["real:" + scen] = dist.get("real:" + scen, 0) + 1
        d = parse_real(l)
        if d and "skip" in d:
            dist["real-skipped:" + d["skip"]] = dist.get("real-skipped:" + d["skip"], 0) + 1
            continue
        if d:
            for r in d["rets"][:1]:
                dist["real-ret:%s:%s" % (scen, "ok" if r.startswith("ok:") else r)] = dist.get("real-ret:%s:%s" % (scen, "ok" if r.startswith("ok:") else r), 0) + 1
            if scen == "gated":
                dist["real-gated:connections-accepted-after-timeout"] = dist.get("real-gated:connections-accepted-after-timeout", 0) + int(d.get("accepted_late", "0"))
            if scen == "stale":
                lined = d.get("parked") == "1" and d.get("kernel_connected_before_release") == "1" and d["rets"] and d["rets"][0].startswith("ok:")
                k_ = "real-stale:schedule-lined-up" if lined else "real-stale:inconclusive(timing)"
                dist[k_] = dist.get(k_, 0) + 1
            if scen == "stop" and d["rets"]:
                dist["real-stop:parked-caller-got:" + d["rets"][0]] = dist.get("real-stop:parked-caller-got:" + d["rets"][0], 0) + 1
        ctx.cov["traces_validated_against_impl"] += 1
        ctx.count_case(op + "|" + l[:60], nontrivial=bool(d and d["rets"]))
        fails, timing_only = real_monitor(op, l)
        if fails:
            # real sockets, real time: re-run the scenario ALONE (fresh process) before anything is reported
            out2, rc2, err2 = ctx.run_lines([hr], [op], timeout=120)
            out2 = [x for x in out2 if not x.startswith("[")]
            l2 = out2[0] if out2 else "crash:rc=%s %s" % (rc2, err2[-300:].replace("\n", " "))
            fails2, _ = real_monitor(op, l2)
            if not fails2:
                unrep += 1
                ctx.notes.append("real-engine scenario `%s` failed a monitor in the batch (%s) and passed when re-run alone: not reported" % (op, fails[0][:160]))
                continue
            ctx.violation("property", fails2[0], {"ops": [op], "observed": [l2[:2000]], "first_observed": [l[:2000]], "failures": fails2[:6],
                                                  "category": "real-" + scen,
                                                  "note": "replay: feed the op line to harness/c04_real.cpp (real TcpEngine/UdpEngine on loopback)"},
                          found_input=True)
    return unrep


def run_sched(ctx, hb, cases, dist):
    lines = [sched_line(c) for c in cases]
    outs = []
    k = 0
    while k < len(lines):
        out, rc, err = ctx.run_lines([hb], lines[k:], timeout=1200)
        outs += out[:len(lines) - k]
        k = len(outs)
        if k < len(lines):
            outs.append("crash:rc=%s %s" % (rc, err[-400:].replace("\n", " ")))
            k += 1
    model_lines = []
    spans = []
    parsed = []
    for c, l in zip(cases, outs):
        res = parse_sched(l)
        parsed.append(res)
        a = len(model_lines)
        model_lines.append("reset")
        if res:
            for st in res["steps"]:
                model_lines.append("st " + st["step"])
        model_lines.append("state")
        spans.append((a, len(model_lines)))
    mout, mrc, merr = ctx.run_lines(ctx.model_argv("connectsync"), model_lines, timeout=1200)
    if mrc != 0 or len(mout) != len(model_lines):
        raise RuntimeError("model driver failed on schedule replay rc=%s lines=%d/%d %s" % (mrc, len(mout), len(model_lines), merr[-300:]))
    n_mis = 0
    found = []
    for c, l, res, (a, b) in zip(cases, outs, parsed, spans):
        dist[c["cat"]] = dist.get(c["cat"], 0) + 1
        ctx.cov["traces_validated_against_impl"] += 1
        if l.startswith("crash:"):
            ctx.violation("property", "X: the real Transport crashes under a DetSched schedule: %s" % l[:300],
                          {"ops": [sched_line(c)], "observed": [l]}, found_input=True)
            continue
        nsw = 0
        if res:
            dist["sched-status:" + res["status"]] = dist.get("sched-status:" + res["status"], 0) + 1
            nsw = sum(1 for x, y in zip(res["steps"], res["steps"][1:]) if x["tid"] != y["tid"])
            ncall = sum(1 for t in c["threads"] if any(o[0] in "kw" for o in t))
            dist["callers:%d" % ncall] = dist.get("callers:%d" % ncall, 0) + 1
            if ncall == 1:
                dist["in-time-monitored-calls"] = dist.get("in-time-monitored-calls", 0) + len(res["times"])
            for st in res["steps"]:
                if st["step"].startswith("cRefuse"):
                    dist["step:cRefuse"] = dist.get("step:cRefuse", 0) + 1
                for e in st["obs"].split(";"):
                    if e.startswith("ret:"):
                        r = e.split(":", 2)[2]
                        r = "ok" if r.startswith("ok:") else r
                        dist["ret:" + r] = dist.get("ret:" + r, 0) + 1
                    elif e.startswith("gclose") or e.startswith("gconnect"):
                        dist[e.split(":")[0]] = dist.get(e.split(":")[0], 0) + 1
                    elif e.startswith("created:"):
                        dist["tls=" + e.split("tls=")[1]] = dist.get("tls=" + e.split("tls=")[1], 0) + 1
            if res["status"] == "ok":
                for lab in reach_counters(c, res):
                    dist["reach:" + lab] = dist.get("reach:" + lab, 0) + 1
            elif res["status"] == "diverged" and "choices" in c:
                # a corpus schedule recorded as a choice list no longer replays (a harmless change in the number of scheduling points
                # is enough): it is NOT judged - counted, so that a silently dead corpus shows in the evidence
                dist["corpus-replay-diverged"] = dist.get("corpus-replay-diverged", 0) + 1
        ctx.count_case(sched_line(c) + "|" + (res["choices"] if res else ""), nontrivial=nsw >= 2)
        if len(ctx.cov["samples"]) < 6 and ctx.rng.chance(1, 60) and res:
            ctx.sample({"cat": c["cat"], "line": sched_line(c)[:300], "steps": ["%d:%s=>%s" % (s["tid"], s["step"], s["obs"]) for s in res["steps"][:16]]})
        fails, fc04a = sched_monitor(c, res)
        replay_line = sched_line(c, choices=[int(x) for x in res["choices"].split(",")]) if res and res["choices"] else sched_line(c)
        if fc04a:
            dist["finding-FC04a"] = dist.get("finding-FC04a", 0) + 1
            found.append((replay_line, fc04a[0], l))
        if fails:
            ctx.violation("property", fails[0], {"ops": [replay_line], "observed": [l[:4000]], "failures": fails[:5], "category": c["cat"],
                                                 "note": "replay: feed the op line to the harness; the schedule is the recorded DetSched choice list"},
                          found_input=True)
            continue
        if not res or res["status"] != "ok":
            continue
        mism = None
        for st, ml in zip(res["steps"], mout[a + 1:b - 1]):
            if ml != st["obs"]:
                mism = "step `%s` observed `%s`, model `%s`" % (st["step"], st["obs"][:100], ml[:100])
                break
        if mism is None and mout[b - 1] != res["final"]:
            mism = "final state of the real Transport `%s`, model `%s`" % (res["final"], mout[b - 1])
        if mism:
            n_mis += 1
            if n_mis <= 3:
                ctx.violation("correspondence", "acceptor: the model cannot explain the recorded trace of the real class (no property monitor fails): " + mism,
                              {"broken": {"correspondence": "connectsync trace inclusion (harness/c04_connectsync.cpp under DetSched vs Model/ConnectSync.lean)",
                                          "detail": mism},
                               "ops": [replay_line],
                               "observed": ["%d:%s=>%s" % (s["tid"], s["step"], s["obs"]) for s in res["steps"]] + [res["final"]],
                               "expected_by_model": mout[a + 1:b]}, found_input=False)
    return found


def case_of_sched_line(line):
    """inverse of sched_line: the program of a recorded `sched …` op line (choice list or seed as recorded)"""
    t = line.split()
    c = {"cat": "replay", "timeoutOneIn": int(t[2]), "spuriousOneIn": int(t[3]), "udp": t[4] == "polu", "policy": "" if t[5] == "-" else t[5], "threads": []}
    if t[1].startswith("c:"):
        c["choices"] = t[1][2:]
    else:
        c["seed"] = int(t[1])
    for tok in t[6:]:
        if tok == "t":
            c["threads"].append([])
        elif c["threads"]:
            c["threads"][-1].append(tok)
    return c


def replay_case(ctx, hb, hr):
    """--replay: re-run the op list of a replay file on the real code (and the model where one answers); exit 1 if it still fails."""
    obj = json.load(open(ctx.replay))
    ops = obj.get("ops") or []
    if not ops:
        print("replay: nothing to run (kind=%s)" % obj.get("kind"))
        return 1 if ctx.violations else 0
    still = False
    if ops[0].startswith("real "):
        if not hr:
            return 1
        for op in ops:
            out, rc, err = ctx.run_lines([hr], [op], timeout=120)
            out = [x for x in out if not x.startswith("[")]
            l = out[0] if out else "crash:rc=%s %s" % (rc, err[-200:].replace("\n", " "))
            print("op    %s\n impl  %s" % (op, l[:400]))
            fails, _ = real_monitor(op, l)
            for f in fails:
                print("PROPERTY FAILS:", f[:300])
            still = still or bool(fails)
    elif ops[0].startswith("sched "):
        if not hb:
            return 1
        dist = {}
        nv = len(ctx.violations)
        cases = [case_of_sched_line(o) for o in ops]
        run_sched(ctx, hb, cases, dist)
        for v in ctx.violations[nv:]:
            print("PROPERTY/CORRESPONDENCE FAILS:", str(getattr(v, "what", v))[:300])
        still = len(ctx.violations) > nv
        if dist.get("corpus-replay-diverged"):
            print("replay: the recorded choice list no longer replays on this tree (diverged) - not judged")
    else:
        if not hb:
            return 1
        c = {"cat": obj.get("category", "corpus"), "ops": ops}
        (c, impl, model), = ctx.lockstep("connectsync", hb, [c])
        for o, a, b in zip(ops, impl, model):
            print("op    %s\n impl  %s\n model %s" % (o[:200], a[:200], b[:200]))
        fails = seq_monitor(c, impl)
        for f in fails:
            print("PROPERTY FAILS:", f[:300])
        still = bool(fails) or impl != model
    print("replay: %s" % ("still failing" if still else "no longer failing"))
    return 1 if still else 0


def known_keys():
    keys = {d.get("key") for d in load_known_findings() if d.get("kind") == "finding" and d.get("property") == ID}
    extra = os.environ.get("VERIF_KNOWN_FINDINGS_EXTRA")      # for trying out a proposed line; KNOWN_FINDINGS.txt itself is never written
    if extra and os.path.exists(extra):
        for l in open(extra):
            if l.startswith("finding:") and "property=%s" % ID in l:
                for tok in l.split():
                    if tok.startswith("key="):
                        keys.add(tok[4:])
    return keys


FC04A_PROGRAM = {"cat": "sched-fc04a", "timeoutOneIn": 0, "spuriousOneIn": 0, "policy": "p", "threads": [["k:400:0"]]}


def finding_fc04a(ctx, hb, found, dist):
    """OBSERVATION FC04a (Props: T2_ordered_refuted), NOT a finding against C04: the global close callback can run for a
    connectSync-created session before connectSync has returned that id (the peer closes between onConnect and the caller's wake-up).
    C04 as stated forbids the global callbacks for a session the call does NOT hand to its caller, and allows a returned session that
    the PEER has already closed; here the id IS handed out, only later than the callback. The stricter ordering statement is refuted
    in Lean and the witness is replayed to keep model and code tied, but it is recorded in the evidence, never reported."""
    if not found:
        cases = []
        for i in range(400):
            cc = dict(FC04A_PROGRAM)
            cc["seed"] = 1000 + i
            cases.append(cc)
        found = run_sched(ctx, hb, cases, dist)
    if not found:
        ctx.notes.append("observation FC04a (global close callback before connectSync returns the id) did not reproduce on the real class in "
                         "400 schedules of its witness program; the model still proves it reachable (T2_ordered_refuted)")
        ctx.extra["observation_FC04a"] = {"reproduced": False}
        return
    line, msg, obs = found[0]
    ctx.extra["observation_FC04a"] = {"reproduced": True, "what": msg, "ops": [line], "observed": [obs[:2000]]}


def run(ctx: Ctx):
    quick = ctx.tier == "quick"
    scale = 1 if quick else 15
    rng = ctx.rng
    ctx.translate(["tsyncskel", "enginecontract"])
    ok_build = ctx.lake_build(MODULES)
    if ok_build:
        ctx.audit(MODULES, OBLIGATIONS)
        if not quick:
            ctx.leanchecker(MODULES + ["IoraModel.Lemmas.ConnectSync", "IoraModel.Lemmas.ConnectSyncBase", "IoraModel.Lemmas.ConnectSyncA", "IoraModel.Lemmas.ConnectSyncB", "IoraModel.Lemmas.ConnectSyncC", "IoraModel.Lemmas.ConnectSyncD", "IoraModel.Lemmas.ConnectSyncE", "IoraModel.Lemmas.ConnectSyncF", "IoraModel.Lemmas.ConnectSyncR", "IoraModel.Lemmas.ConnectSyncG0", "IoraModel.Lemmas.ConnectSyncG", "IoraModel.Lemmas.ConnectSyncH", "IoraModel.Model.ConnectSync", "IoraModel.Model.ConnectSyncX", "IoraModel.Model.TsyncFacts", "IoraModel.Model.ConnectSyncFacts", "IoraModel.Gen.TsyncSkel", "IoraModel.Gen.EngineContract"])
    else:
        ctx.cov["obligations"] = len(OBLIGATIONS)
    hb = ctx.build_harness("harness/c04_connectsync.cpp", sanitize=True, flags=[DETSCHED])
    hr = ctx.build_harness("harness/c04_real.cpp", sanitize=True, opt="-O0")
    dist = {}
    unreproduced = {"seq-in-time": 0, "real": 0}
    if ctx.replay:
        return replay_case(ctx, hb, hr)
    if hb:
        corpus = load_corpus()
        r1 = rng.fork("seq")
        cases = [c for c in corpus if c.get("cat") not in ("sched", "real")] + [gen_seq_case(r1) for _ in range(300 * scale)]
        res = ctx.lockstep("connectsync", hb, cases)
        n_mis = 0
        for c, impl, model in res:
            dist[c["cat"]] = dist.get(c["cat"], 0) + 1
            for op in c["ops"]:
                dist["op:" + op.split()[0]] = dist.get("op:" + op.split()[0], 0) + 1
            ctx.count_case("\n".join(c["ops"]), nontrivial=any("created:" in l for l in impl))
            if len(ctx.cov["samples"]) < 2 and ctx.rng.chance(1, 100):
                ctx.sample({"cat": c["cat"], "ops": c["ops"][:10], "impl": [l[:100] for l in impl[:10]]})
            fails = seq_monitor(c, impl)
            if fails and all(f.startswith("T5/in-time") for f in fails):
                # real time under ASan on a loaded machine: re-run the case ALONE before reporting (review item H)
                out2, rc2, err2 = ctx.run_lines([hb], c["ops"], timeout=120)
                out2 = out2 + ["crash:" + str(rc2)] * (len(c["ops"]) - len(out2))
                if not seq_monitor(c, out2):
                    unreproduced["seq-in-time"] += 1
                    ctx.notes.append("sequential case exceeded timeout + 1.5 s in the batch and not when re-run alone: not reported (%s)" % fails[0][:120])
                    impl = out2[:len(c["ops"])]
                    fails = []
            mism = [(i, a, b) for i, (a, b) in enumerate(zip(impl, model)) if a != b]
            if fails:
                report_seq(ctx, hb, c, impl, model, fails)
            elif mism:
                n_mis += 1
                if n_mis <= 3:
                    i, a, b = mism[0]
                    ctx.violation("correspondence", "model and implementation disagree (no property monitor fails on this case): op `%s` impl=`%s` model=`%s`"
                                  % (c["ops"][i][:100], a[:140], b[:140]),
                                  {"broken": {"correspondence": "connectsync lockstep (harness/c04_connectsync.cpp vs Model/ConnectSync.lean)",
                                              "detail": "first differing op index %d" % i},
                                   "ops": c["ops"], "observed": impl, "expected_by_model": model}, found_input=False)
        r2 = rng.fork("sched")
        scases = [c for c in corpus if c.get("cat") == "sched"] + [gen_sched_case(r2, big=(i % 25 == 24)) for i in range(500 * scale)]
        found = run_sched(ctx, hb, scases, dist)
        finding_fc04a(ctx, hb, found, dist)
    if hr:
        unreproduced["real"] = run_real(ctx, hr, rng.fork("real"), scale, dist)
    ctx.extra["unreproduced_when_run_alone"] = unreproduced
    ctx.extra["input_distribution"] = dist
    ctx.extra["repo_tree_sha"] = ctx.repo_tree_sha(ANCHOR_FILES)
    ctx.extra["not_proved"] = [
        "'no later than timeout + bounded slack' is a statement about real time: PARTIAL. Proved: a bound on the caller's own steps after its "
        "timeout choice (T5_step_bound, T5_lock_released). TIED, not proved: that the wait lasts the caller's timeout - skeleton facts "
        "(wait_for(lk, timeout, pred), the wrapper's subInterval = 100 ms, deadline = now + timeout, subTimeout = min(remaining, subInterval); "
        "skeleton_conforms), a DetSched virtual-time monitor on programs with one calling thread (elapsed <= timeout + 5 ms; cancellable: "
        "+ one sub-interval; a cancel is honoured within one sub-interval; no early Timeout) and a real-time monitor on the sequential "
        "connect op (elapsed <= timeout + 1.5 s). The wall-clock slack of a loaded machine is not proved",
        "OBSERVATION FC04a — the stricter ordering statement is refuted (not claimed by C04, which allows returning a session the peer has already closed): 'the global close callback fires for a connectSync-created session only after connectSync "
        "returned its id' (T2_ordered_refuted; what holds is T2_global_close_only_for_handed_out: the creating call returns nothing but ok sid)",
        "the cancellable wrapper retries a sub-attempt that ended with an engine-reported Timeout (onClose reason Timeout) exactly like its own "
        "sub-interval time-out; the model has no separate step for this: engine-reported Timeout is generated only for plain callers",
        "the TLS mode / host / port are carried by an argument layer over the control model (Model/ConnectSyncX.lean, T_tls_mode_as_requested); "
        "what TcpEngine then does with the mode is C07's subject",
        "the real TcpEngine/UdpEngine (DNS, TCP/TLS handshake, RST, black-holed peers) is represented in Lean by the abstract FIFO engine of the "
        "EngineBase contract. Backed, not proved: (i) regenerated source facts the model is instantiated with (engine_contract_from_source: "
        "close()/connect() of both engines only enqueue, the Close arm of process() closes what it finds; dropped_close_refutes_T3 shows the "
        "contract is necessary), (ii) a monitor-only real-engine family on loopback (harness/c04_real.cpp: accept / closed port / black hole / "
        "RST / TLS failure / unresolvable / stop() under a parked caller / I/O-thread guard / the gated-I/O-thread schedule of seed C04-d). "
        "doConnect/closeNow themselves (every id gets exactly one onClose) remain C02's subject",
        "the wrapper's retry on an engine-reported Timeout, Transport::stop()/~Transport as model steps, and async connect() sessions sharing the "
        "callbacks have no model step (the real-engine family exercises stop() and the engine-refusal path; T2_no_global_connect's hypothesis is "
        "reachable only in the cfgBypass configuration)",
        "process() catch arm (tcp_engine.hpp): if doConnect THROWS no onClose fires for that id - the caller still returns Timeout in time and "
        "engine->close finds nothing, but the abandoned pendingConnects record is never erased (a leaked map entry, no open connection; observation, "
        "not reproduced: needs an allocation/thread-start failure inside doConnect)",
        "schedules whose DetSched step budget runs out (status steplimit) are counted in input_distribution, not judged",
    ]
    ctx.assumptions += [
        "engine contract (detail/engine_base.hpp): connect()/close() only enqueue [now a regenerated source fact: engine_contract_from_source]; "
        "commands are processed FIFO; onConnect at most once per id and never after onClose [C02]",
        "timeouts are scheduler choices (DetSched virtual time / model step `cWake c true`)",
        "engine->connect may refuse (model step cRefuse): the scripted engine refuses with ShuttingDown, the code TcpEngine::connect returns on a closed command queue",
    ]
    return ctx.finish(level="proof", rule="a case = one op list from reset over the scripted FIFO engine (single-threaded lockstep) or one DetSched schedule of a "
                      "2-10 thread program (trace inclusion); distinct = distinct op list / (program, choice list); non-trivial = at least one session was "
                      "created (lockstep) / at least 2 context switches between model steps (schedules)")


def report_seq(ctx, hb, c, impl, model, fails):
    ops = c["ops"]
    if not ctx.violation_budget("property", fails[0]):
        ctx.violation("property", fails[0])
        return
    cls = fails[0].split(":")[0]

    def still(sub):
        sub = [ops[0]] + sub
        out, rc, err = ctx.run_lines([hb], sub, timeout=60)
        out = out + ["crash:" + str(rc)] * (len(sub) - len(out))
        cc = dict(c)
        cc["ops"] = sub
        return any(f.split(":")[0] == cls for f in seq_monitor(cc, out))
    try:
        if len(ops) > 3 and still(ops[1:]):
            ops = [ops[0]] + ddmin(ops[1:], still, max_tests=100)
    except Exception:
        pass
    out, rc, err = ctx.run_lines([hb], ops, timeout=60)
    ctx.violation("property", fails[0], {"ops": ops, "observed": out, "expected_by_model": model if ops is c["ops"] else None,
                                         "failures": fails[:5], "category": c["cat"]}, found_input=True)


def load_corpus():
    d = os.path.join(VERIF, "corpus", "C04")
    out = []
    if os.path.isdir(d):
        for fn in sorted(os.listdir(d)):
            if fn.endswith(".json"):
                c = json.load(open(os.path.join(d, fn)))
                c.setdefault("cat", "corpus")
                c["corpus_file"] = fn
                out.append(c)
    return out
