"""C20, serve layer — helper module of props/c20.py (not a plugin): the HTTP glue in front of Assets::getStatic / getTemplate.

Lean: Model/AssetsServe.lean, Lemmas/AssetsServe.lean, Props/C20Serve.lean (S1..S5 + Gen conformance), translator unit
`assetserve`, driver ops `pdec` / `hasdd` / `serve` / `render` (Driver/AssetsServe.lean, called from Driver/Assets.lean), harness
harness/c20_serve.cpp (the REAL Application::serveStatic handler found through the REAL HttpServer route table, the REAL
Application::render).  Cases use the symbolic-op format of props/c20.py."""
import os

SERVE_MODULES = ["IoraModel.Props.C20Serve"]
SERVE_TRANSLATE = ["assetserve"]
SERVE_ANCHOR_FILES = ["include/iora/web/application.hpp", "include/iora/parsers/html_escape.hpp"]
SERVE_LEANCHECK = ["IoraModel.Props.C20Serve", "IoraModel.Lemmas.AssetsServe", "IoraModel.Model.AssetsServe", "IoraModel.Gen.AssetsServe"]

SERVE_OBLIGATIONS = [
    {"id": "C20_S1", "theorem": "Iora.C20.S1_decode_once", "kind": "proved",
     "statement": "urlDecode for ALL byte strings: output never longer; a non-% byte is copied; %XY (two hex digits) becomes the ONE byte 16X+Y and is never looked at again; a % not followed by two hex digits is kept; no % -> identity; + is not a space"},
    {"id": "C20_S1_hex", "theorem": "Iora.C20.S1_hex_digits", "kind": "proved", "statement": "hexNibble: 0-9, a-f, A-F and nothing else"},
    {"id": "C20_S1_once", "theorem": "Iora.C20.S1_not_idempotent", "kind": "proved",
     "statement": "witness: %252e -> %2e -> '.': the decoder is not idempotent, so exactly one level is removed (plus %2E, %2, %, %zz, %2e%2e%2f, %00, %5c)"},
    {"id": "C20_S2", "theorem": "Iora.C20.S2_serve_status", "kind": "proved",
     "statement": "every raw path: status in {200,400,404}; 200 <-> pre-check passed and getStatic(DECODED) found a blob, and then the decoded path has no leading '/', NUL, backslash, '..' segment; 400 <-> pre-check or Rejected; 404 <-> NotFound"},
    {"id": "C20_S3", "theorem": "Iora.C20.S3_serve_body", "kind": "proved",
     "statement": "200: body = bytes of THE blob getStatic(decoded) returned, or (only if gzip accepted) its gzip bytes, Content-Encoding gzip exactly then; non-200: one of two fixed strings, no file byte"},
    {"id": "C20_S4", "theorem": "Iora.C20.S4_serve_contained", "kind": "proved",
     "statement": "filesystem mode at rest, empty cache, canonical root: a 200 body is the content of a regular file strictly inside the static root (S3 + A3_static + NamedFile.inside)"},
    {"id": "C20_S4_points", "theorem": "Iora.C20.S4_serve_every_point", "kind": "proved",
     "statement": "the same through the handler with one snapshot per system call and a LeafOnly environment (A4's quantifier): a 200 body was strictly inside the root in the snapshot of the open that read it"},
    {"id": "C20_S5", "theorem": "Iora.C20.S5_prefilter_redundant", "kind": "proved",
     "statement": "hasDotDotSegment(d) or leading '/' -> lexicallyRejected(d): containment does not depend on the glue's pre-check"},
    {"id": "C20_Gen_percent", "theorem": "Iora.C20.Gen_percent_shape", "kind": "gen-conformance",
     "statement": "percentDecode: '%', i + 2 < n, digits at i+1/i+2, (hi<<4)|lo, i += 3, stray % copied; urlDecode passes plusIsSpace=false; hex ranges"},
    {"id": "C20_Gen_dotdot", "theorem": "Iora.C20.Gen_dotdot", "kind": "gen-conformance",
     "statement": "hasDotDotSegment uses the separator and refused segment of lexicallyRejected"},
    {"id": "C20_Gen_serve", "theorem": "Iora.C20.Gen_serve_skeleton", "kind": "gen-conformance",
     "statement": "serveStatic: urlDecode(req.pathRest) once, pre-check and getStatic on decodedPath, one _assets access, step order, codes, gzip selection, every write of status/body; render: only getTemplate; HttpServer never decodes"},
]
SERVE_NOT_PROVED = [
    "serve layer: the If-None-Match / 304 branch (bodyless), ETag/Cache-Control/Vary/CSP headers and the q-value grammar of gzipAcceptable are outside the model (the harness sends `Accept-Encoding: gzip` or nothing)",
    "serve layer: Mustache is not modelled; for Application::render only the generated census (every _assets access is getTemplate) is a checked fact, the partial names' containment is A3_template/A5_history; render outputs are checked by the implementation-only monitor",
    "serve layer: S4_serve_every_point inherits A4's quantifier (LeafOnly environment, empty cache); the harness drives the handler on a file system at rest only (the mid-lookup schedules are exercised one layer below, by harness/c20_assets.cpp)",
]

BAD_REQUEST, NOT_FOUND = b"Bad request", b"Not Found"


# ------------------------------------------------------------------ independent references
def ref_decode(s):
    """one level of percent-decoding, written independently of the implementation and of the model"""
    out = bytearray()
    i = 0
    hexd = b"0123456789abcdefABCDEF"
    while i < len(s):
        if s[i] == 0x25 and len(s) - i >= 3 and s[i + 1] in hexd and s[i + 2] in hexd:
            out.append(int(s[i + 1:i + 3].decode(), 16))
            i += 3
        else:
            out.append(s[i])
            i += 1
    return bytes(out)


def ref_hasdd(p):
    return b".." in p.split(b"/")


# ------------------------------------------------------------------ encoders (raw request paths)
def _hx(b, rng, case=None):
    s = "%02x" % b
    k = case if case is not None else rng.below(3)
    if k == 1:
        s = s.upper()
    elif k == 2:
        s = s[0].upper() + s[1]
    return b"%" + s.encode()


def enc_full(s, rng):
    return b"".join(_hx(b, rng) for b in s)


def enc_partial(s, rng):
    return b"".join(_hx(b, rng) if rng.chance(1, 3) else bytes([b]) for b in s)


def enc_special(s, rng):
    return b"".join(_hx(b, rng) if b in b"./%\\" else bytes([b]) for b in s)


def enc_min(s):
    """what a careful client sends: only `%` itself escaped"""
    return s.replace(b"%", b"%25")


SHAPES = ["plain", "full", "partial", "special", "double", "double-special", "trunc", "nul", "backslash", "lead-slash", "plus", "dotdot", "triple"]


def encode_shape(name, shape, rng):
    if shape == "plain":
        return enc_min(name)
    if shape == "full":
        return enc_full(name, rng)
    if shape == "partial":
        return enc_partial(enc_min(name), rng) if rng.chance(1, 2) else enc_partial(name, rng).replace(b"%%", b"%25%")
    if shape == "special":
        return enc_special(name, rng)
    if shape == "double":
        return enc_min(enc_full(name, rng))
    if shape == "double-special":
        return enc_min(enc_special(name, rng))
    if shape == "triple":
        return enc_min(enc_min(enc_special(name, rng)))
    if shape == "trunc":
        return enc_min(name) + rng.choice([b"%", b"%2", b"%zz", b"%g0", b"%2g", b"%%", b"%%41", b"% 41"])
    if shape == "nul":
        return enc_min(name) + rng.choice([b"%00", b"%00.png", b"%00/../x"])
    if shape == "backslash":
        return rng.choice([b"..%5c..%5c", b"%5c", b"..%5C"]) + enc_min(name)
    if shape == "lead-slash":
        return rng.choice([b"%2F", b"%2f", b"/", b"%2f%2f"]) + enc_min(name)
    if shape == "plus":
        return enc_min(name).replace(b" ", b"+") if b" " in name else enc_min(name) + b"+"
    if shape == "dotdot":
        up = rng.choice([b"%2e%2e%2f", b"%2E%2E/", b"..%2f", b"%2e./", b".%2e/", b"%252e%252e%252f", b"%252e%252e/", b"../", b"%2e%2e%5c"])
        return up * rng.range(1, 3) + enc_min(name)
    raise ValueError(shape)


# ------------------------------------------------------------------ case generation
def _is_dir(t, p):
    return p is not None and p in t.ent and t.ent[p][0] == "d"


def gen_serve_case(rng, idx):
    from props import c20 as P
    H, abs_of = P.H, P.abs_of
    t, cfg = P.gen_tree(rng)
    sroot, troot = cfg["static"], cfg["templates"]
    secret = (b"outside", b"secret.txt")
    # ---- static root: names that need decoding, links that escape, gzip siblings of every kind
    if _is_dir(t, sroot):
        depth_up = b"../" * len(sroot)
        t.add_file(sroot + (b"%2e%2e",))                 # a file literally named %2e%2e  (request: %252e%252e)
        t.add_file(sroot + (b"pct%41.txt",))             # literal escape in a name       (request: pct%2541.txt)
        t.add_file(sroot + (b"pctA.txt",))               # what a SECOND decode of the above would name
        t.add_file(sroot + (b"sp ace+plus.txt",))
        t.add_dir(sroot + (b"sub",))
        t.add_file(sroot + (b"sub", b"ok.css"))
        t.add_file(sroot + (b"sub", b"ok.css.gz"))
        t.add_link(sroot + (b"evil.txt",), depth_up + b"outside/secret.txt")
        t.add_link(sroot + (b"evilabs.txt",), abs_of(secret))
        t.add_link(sroot + (b"evildir",), rng.choice([depth_up + b"outside", abs_of((b"outside",))]))
        t.add_link(sroot + (b"inlink.css",), b"sub/ok.css")
        t.add_file(sroot + (b"gzl.txt",))
        t.add_link(sroot + (b"gzl.txt.gz",), rng.choice([depth_up + b"outside/a.txt.gz", abs_of((b"outside", b"a.txt.gz"))]))
        t.add_file(sroot + (b"gzd.txt",))
        t.add_dir(sroot + (b"gzd.txt.gz",))
    # ---- template root: template TEXT with partial references
    tmpl_names = [b"nope"]
    tmpl_texts = {}
    if _is_dir(t, troot):
        depth_up = b"../" * len(troot)
        t.add_dir(troot + (b"sub",))
        t.add_file(troot + (b"sub", b"ok"))
        t.add_link(troot + (b"evil",), depth_up + b"outside/secret.txt")
        t.add_link(troot + (b"evildir",), depth_up + b"outside")
        texts = {
            b"p_ok.html": b"<1>{{> sub/ok}}<2>{{>sub/ok}}<3>",
            b"p_up.html": b"<1>{{> ../../outside/secret.txt}}<2>",
            b"p_up2.html": b"<1>{{> sub/../../../outside/secret.txt}}<2>",
            b"p_abs.html": b"<1>{{> " + abs_of(secret) + b"}}<2>",
            b"p_evil.html": b"<1>{{> evil}}<2>",
            b"p_evildir.html": b"<1>{{> evildir/secret.txt}}<2>",
            b"p_pct.html": b"<1>{{> %2e%2e/%2e%2e/outside/secret.txt}}<2>",
            b"p_bs.html": b"<1>{{> ..\\..\\outside\\secret.txt}}<2>",
            b"p_mix.html": b"<1>{{> sub/ok}}<2>{{> evil}}<3>",
            b"p_nest.html": b"<1>{{> p_ok.html}}<2>",
            b"p_nest_evil.html": b"<1>{{> p_evil.html}}<2>",
            b"plain.html": b"<no partial>",
        }
        for n, txt in texts.items():
            if t.add_file(troot + (n,), txt):
                tmpl_names.append(n)
                tmpl_texts[n] = txt
        tmpl_names += [b"evil", b"sub/ok", b"../../outside/secret.txt", b"evildir/secret.txt", b"%2e%2e/%2e%2e/outside/secret.txt"]
    cwd_p = rng.choice([(), (b"app",), (b"outside",)])
    sops = [P.tree_op(t, abs_of(cwd_p))]
    shapes = {}
    embedded = rng.chance(1, 5)
    emb_contents = []
    if embedded:
        names = [b"a.txt", b"sub/ok.css", b"e1.txt", b"%2e%2e", b"pct%41.txt", b"evil.txt", b"evildir/secret.txt", b"gzl.txt", b"sp ace+plus.txt"]
        emb = sorted([b"e1.txt", b"dir/e2.css", b"%2e%2e"])
        statics = [[n, b"EMB%d:" % i + n, (b"EMBGZ%d" % i) if i % 2 == 0 else None] for i, n in enumerate(emb)]
        templates = sorted([[b"t.html", b"EMBT<{{> p/q.html}}>"], [b"p/q.html", b"EMBQ"], [b"bad.html", b"EMBB<{{> ../x}}>"]], key=lambda r: r[0])
        externals = sorted(set(names))
        extdir = rng.choice([abs_of(sroot) if sroot else abs_of((b"ext",)), abs_of((b"ext",)), abs_of((b"extlink",))])
        sops.append(["newemb", H(extdir), ("l", statics), ("l", templates), ("l", [[x] for x in externals])])
        emb_contents = [s[1] for s in statics] + [s[2] for s in statics if s[2]] + [x[1] for x in templates]
        base = None
        for sp, phys in ((abs_of(sroot) if sroot else None, sroot), (abs_of((b"ext",)), (b"ext",)), (abs_of((b"extlink",)), (b"ext",))):
            if sp == extdir:
                base = phys
        cands = names + [b"dir/e2.css"] + (P.rel_names(t, base) if _is_dir(t, base) else [])
        tmpl_names = [b"t.html", b"p/q.html", b"bad.html", b"nope"]
        tmpl_texts = {r[0]: r[1] for r in templates}
    else:
        root = rng.choice([abs_of((b"app",)), abs_of((b"app",)) + b"/", abs_of((b"approot",)), abs_of((b"outside", b"..", b"app"))])
        per = rng.chance(1, 3)
        sops.append(["newfs", H(root), "1" if per else "0"])
        base = sroot
        cands = (P.rel_names(t, base) if _is_dir(t, base) else []) + [b"a.txt", b"sub/ok.css", b"nope.txt"]
    through = [b"evildir/secret.txt", b"evildir/a.txt", b"evildir/a.txt.gz", b"evildir/dir/secret2.txt", b"evil.txt", b"evilabs.txt", b"gzl.txt", b"gzd.txt",
               b"inlink.css", b"%2e%2e", b"pct%41.txt", b"sp ace+plus.txt", b"sub/ok.css"]
    hostile = [b"../outside/secret.txt", b"../../outside/secret.txt", b"../static2/a.txt", b"../top.txt", b"sub/../../top.txt", abs_of(secret),
               b"/etc/passwd", b"..", b".", b"", b"sub/..", b"sub/../sub/ok.css", b"./a.txt", b"sub//ok.css", b"..\\..\\outside\\secret.txt", b"a.txt\0.png"]
    n_serve = 45
    for i in range(n_serve):
        k = rng.below(10)
        name = rng.choice(through) if k < 4 else rng.choice(hostile) if k < 6 else rng.choice(cands)
        shape = rng.choice(SHAPES) if not rng.chance(1, 4) else "plain"
        raw = encode_shape(name, shape, rng)
        if len(raw) > 1500:
            raw = enc_min(name)
            shape = "plain"
        acc = "1" if rng.chance(1, 2) else "0"
        shapes[len(sops)] = shape
        sops.append(["serve", H(raw), acc])
        if rng.chance(1, 8):
            shapes[len(sops)] = shape
            sops.append(["serve", H(raw), "0" if acc == "1" else "1"])     # the other representation, cache hit in cached mode
        if rng.chance(1, 20):
            sops.append(["static", H(ref_decode(raw))])                   # the layer below, same decoded name
        if rng.chance(1, 25):
            sops.append(["reload"])
    alphabet = [b"%", b"%", b"2", b"e", b"E", b"f", b"5", b"c", b"0", b"g", b"z", b".", b"/", b"+", b" ", b"a", b"\\", b"\0", b"\xff", b"%25", b"%2e", b"%2F", b".."]
    for _ in range(14):
        s = b"".join(rng.choice(alphabet) for _ in range(rng.range(0, 12)))
        sops.append([rng.choice(["pdec", "pdec", "hasdd"]), H(s)])
        if rng.chance(1, 3):
            sops.append(["hasdd", H(ref_decode(s))])
    for n in tmpl_names:
        if rng.chance(2, 3):
            sops.append(["render", H(n)])
    return {"sops": sops, "tree_obj": t, "cfg": cfg, "cat": "serve-emb" if embedded else "serve-fs", "tree": idx, "shapes": shapes,
            "emb_contents": emb_contents, "tmpl_texts": tmpl_texts, "static_base": base if not embedded else None}


# ------------------------------------------------------------------ monitor (implementation output + what the generator created)
class _Pic:
    """the physical tree as the `tree` op describes it: tuple of names below the sandbox -> ('d',) | ('f', content) | ('l', target)"""
    def __init__(self):
        self.ent = {(): ("d",)}


def _expect(t, base, d, acc):
    """What the physical tree says about the once-decoded name `d` when it is a plain relative name whose every ancestor below the
    root is a real directory: ('200', content) / ('404', None); None = no expectation (links on the way, odd spellings)."""
    comps = d.split(b"/")
    if not d or any(c in (b"", b".", b"..") or len(c) > 255 for c in comps) or b"\0" in d or b"\\" in d:
        return None
    p = base
    for i, c in enumerate(comps):
        p = p + (c,)
        e = t.ent.get(p)
        last = i == len(comps) - 1
        if e is None:
            return ("404", None)
        if e[0] == "l":
            return None
        if e[0] == "f":
            if not last:
                return ("404", None)
            content = e[1]
            if acc:
                g = t.ent.get(p[:-1] + (p[-1] + b".gz",))
                if g is not None and g[0] == "f" and len(p[-1]) + 3 <= 255:
                    content = g[1]
                elif g is not None and g[0] == "l":
                    return ("200", None)       # sibling is a link: identity or (inside link) its bytes — judged by the location check only
            return ("200", content)
        if last:
            return ("404", None)               # a directory is not served
    return None


def monitor_serve(c, impl, W):
    from props import c20 as P
    from vlib.core import unhex
    bad = []
    contents = {}
    emb_ok = set(c.get("emb_contents", []))
    Wc = P.comps_of(W)
    roots = {"static": None, "template": None}
    t = None                   # the physical tree, rebuilt from the `tree` op itself (replays carry no generator object)
    base = None                # the static root relative to the sandbox, from the OS oracle of `newfs`
    pristine = True            # the picture of the tree is exact until the first put/rm
    fsmode = False
    for idx, (sop, line) in enumerate(zip(c["sops"], impl)):
        main, orc = P.split_oracle(line)
        op = sop[0]
        if (main.startswith("throw") and not (op == "newfs" and main == "throw")) or main.startswith("crash:"):
            bad.append((idx, "C20-serve: %s throws/crashes: %s" % (op, main[:100])))
            continue
        if op == "tree":
            contents = {}
            t = _Pic()
            pristine = True
            for tok in sop:
                if isinstance(tok, tuple) and tok[0] == "e":
                    where = tuple(P.comps_of(tok[2].replace(P.W_TOKEN, b"")))
                    t.ent[where] = ("d",) if tok[1] == "d" else (tok[1], tok[3])
                    if tok[1] == "f":
                        contents.setdefault(tok[3], []).append(where)
        if op in ("put", "rm"):
            pristine = False
            if op == "put" and sop[1] == "f":
                contents.setdefault(sop[3][1], []).append(tuple(P.comps_of(sop[2][1].replace(P.W_TOKEN, b""))))
        if op == "newfs":
            roots = {"static": None, "template": None}
            fsmode = True
            f = main.split()
            if f and f[0] == "ok":
                rp = orc.get("rp")
                for k, sub, key in (("static", b"static", "srp"), ("template", b"templates", "trp")):
                    if orc.get(key, "~") != "~":
                        roots[k] = P.comps_of(unhex(orc[key]))
                    elif rp and rp != "~":
                        roots[k] = P.comps_of(unhex(rp)) + [sub]
                r = roots["static"]
                base = tuple(r[len(Wc):]) if r is not None and P.under(Wc, r) else None
        if op == "newemb":
            fsmode = False
            erp = orc.get("erp", "~")
            roots = {"static": (P.comps_of(unhex(erp)) if erp != "~" else None), "template": None}

        def outside(g, kind):
            """g is the content of a generated file and NONE of its copies lies strictly inside the root of `kind`"""
            wh = contents.get(g)
            if wh is None:
                return False
            r = roots.get(kind)
            return r is None or not any(P.under(r, Wc + list(w)) and Wc + list(w) != r for w in wh)

        if op == "serve":
            f = main.split()
            raw = sop[1][1].replace(P.W_TOKEN, W)
            acc = sop[2] == "1"
            if main == "no-instance":
                continue
            if len(f) != 4 or not f[0].isdigit():
                bad.append((idx, "C20-serve: unparsable answer %r" % main[:80]))
                continue
            status, body, gz = f[0], unhex(f[1]), f[2] == "1"
            d = ref_decode(raw)
            if orc.get("pr") == "0":
                bad.append((idx, "C20-serve: HttpServer's pathRest is not the raw wildcard suffix for %r" % raw[:80]))
            if orc.get("cl") == "0":
                bad.append((idx, "C20-serve: Content-Length disagrees with the body for %r" % raw[:80]))
            if status == "200":
                if body in emb_ok:
                    pass
                elif body not in contents:
                    bad.append((idx, "C20-serve: 200 for %r with a body that is no file's content: %r" % (raw[:80], body[:60])))
                elif outside(body, "static"):
                    bad.append((idx, "C20-serve: 200 for %r (decoded %r) returned the content of %r which is OUTSIDE the static root" %
                                (raw[:80], d[:80], [b"/".join(w) for w in contents[body]][:3])))
                r = roots.get("static")
                if body not in emb_ok and "rp" in orc:
                    if orc["rp"] == "~":
                        bad.append((idx, "C20-serve: 200 for %r but the OS cannot resolve <root>/<once-decoded path> %r" % (raw[:80], d[:80])))
                    elif r is not None and not P.under(r, P.comps_of(unhex(orc["rp"]))):
                        bad.append((idx, "C20-serve: 200 for %r but realpath(<root>/<decoded>) = %r is outside the root" % (raw[:80], unhex(orc["rp"])[-80:])))
                if gz and not acc:
                    bad.append((idx, "C20-serve: Content-Encoding gzip although the client did not accept it (%r)" % raw[:80]))
            else:
                hit = [g for g in contents if g and g in body]
                if hit or b"SECRET" in body:
                    bad.append((idx, "C20-serve: status %s for %r carries file bytes %r" % (status, raw[:80], body[:60])))
                if status not in ("400", "404"):
                    bad.append((idx, "C20-serve: unexpected status %s for %r" % (status, raw[:80])))
            if P.ref_lexrej(d) and status != "400":
                bad.append((idx, "C20-serve: status %s for %r whose once-decoded form %r must be refused (leading '/', NUL, backslash or '..' segment)" %
                            (status, raw[:80], d[:80])))
            # reference oracle on the physical tree: decode EXACTLY once, right status, right representation
            if fsmode and pristine and t is not None and base is not None and _is_dir(t, base) and not P.ref_lexrej(d):
                ex = _expect(t, base, d, acc)
                if ex is not None:
                    if ex[0] != status:
                        bad.append((idx, "C20-serve: status %s for %r; the physical tree says %s for the once-decoded name %r" % (status, raw[:80], ex[0], d[:80])))
                    elif ex[0] == "200" and ex[1] is not None and body != ex[1]:
                        bad.append((idx, "C20-serve: 200 for %r (accept gzip=%s) serves %r, the once-decoded name %r holds %r" %
                                    (raw[:80], acc, body[:50], d[:80], ex[1][:50])))
        if op == "static":
            f = main.split()
            if f and f[0] == "found":
                for g in [unhex(f[1])] + ([unhex(f[2].replace("!gzflag", ""))] if not f[2].startswith("~") else []):
                    if g not in emb_ok and (g not in contents or outside(g, "static")):
                        bad.append((idx, "C20-serve: static %r returned bytes from outside the root" % sop[1][1][:80]))
        if op == "pdec":
            s = sop[1][1].replace(P.W_TOKEN, W)
            if unhex(main) != ref_decode(s):
                bad.append((idx, "S1: urlDecode(%r) = %r, the reference one-level decoder says %r" % (s[:60], unhex(main)[:60], ref_decode(s)[:60])))
        if op == "hasdd":
            s = sop[1][1].replace(P.W_TOKEN, W)
            if main not in ("0", "1") or (main == "1") != ref_hasdd(s):
                bad.append((idx, "S5: hasDotDotSegment(%r) = %s, reference says %s" % (s[:60], main, ref_hasdd(s))))
        if op == "render":
            out = orc.get("out", "~")
            if main != "render":
                bad.append((idx, "C20-serve: render answered %r" % main[:60]))
            if out != "~":
                o = unhex(out)
                leaks = [g for g in contents if g and g in o and g not in emb_ok and outside(g, "template")]
                if leaks:
                    bad.append((idx, "C20-serve: render %r produced output containing the content of %r, OUTSIDE the template root" %
                                (sop[1][1][:80], [b"/".join(w) for g in leaks[:2] for w in contents[g]][:3])))
    return bad


# ------------------------------------------------------------------ evaluation
def load_serve_corpus():
    """corpus/C20/serve/*.json (a sub-directory: the files of corpus/C20 itself go to harness/c20_assets.cpp, which has no serve ops)"""
    import json
    from props import c20 as P
    d = os.path.join(os.path.dirname(os.path.dirname(os.path.abspath(__file__))), "corpus", "C20", "serve")
    out = []
    if os.path.isdir(d):
        for fn in sorted(os.listdir(d)):
            if fn.endswith(".json"):
                c = json.load(open(os.path.join(d, fn)))
                c["sops"] = [P.sop_from_json(x) for x in c["sops"]]
                c.setdefault("cat", "serve-corpus")
                c.setdefault("shapes", {})
                out.append(c)
    return out


def _count(acc, key, sub):
    d = acc.setdefault(key, {})
    d[sub] = d.get(sub, 0) + 1


def run_serve(ctx, env, W, n_cases, acc, hb=None):
    """builds harness/c20_serve.cpp, runs the serve cases in lockstep against the model driver, applies the monitor"""
    from props import c20 as P
    from vlib.core import unhex, ModelBuildError
    hb = hb or ctx.build_harness("harness/c20_serve.cpp", sanitize=True)
    if not hb:
        return None
    rng = ctx.rng.fork("serve")
    cases = load_serve_corpus() + [gen_serve_case(rng, i) for i in range(n_cases)]
    for c in cases:
        c["ops"] = P.render_case(c["sops"], W)
    try:
        res = ctx.lockstep("assets", hb, cases, impl_env=env, timeout=2400)
    except ModelBuildError:
        res = []
        for c in cases:
            out, rc, err = ctx.run_lines([hb], c["ops"], timeout=300, env=env)
            res.append((c, out + ["crash:%s" % rc] * (len(c["ops"]) - len(out)), None))
    acc.setdefault("serve_mismatch", 0)
    for c, impl, model in res:
        acc["dist"][c["cat"]] = acc["dist"].get(c["cat"], 0) + 1
        core = P.strip_oracles(impl)
        any200 = False
        for i, (sop, l, full) in enumerate(zip(c["sops"], core, impl)):
            if sop[0] == "serve":
                st = l.split()[0] if l else "?"
                any200 = any200 or st == "200"
                _count(acc, "serve_status", "%s:%s" % (c["cat"], st))
                _count(acc, "serve_shape", "%s:%s" % (c["shapes"].get(i, "?"), st))
                if st == "200" and len(l.split()) == 4 and l.split()[2] == "1":
                    _count(acc, "serve_status", "%s:200-gzip" % c["cat"])
            elif sop[0] == "render":
                o = P.split_oracle(full)[1].get("out", "~")
                if o == "~":
                    _count(acc, "render", "no-output(throw)")
                else:
                    partial = b"{{>" in c.get("tmpl_texts", {}).get(sop[1][1], b"")
                    _count(acc, "render", "output-with-partial" if partial else "output-without-partial")
            elif sop[0] in ("pdec", "hasdd"):
                _count(acc, "serve_probe", sop[0])
        ctx.count_case("\n".join(c["ops"]), nontrivial=any200)
        if len(ctx.cov["samples"]) < 8 and ctx.rng.chance(1, 6):
            ctx.sample({"cat": c["cat"], "ops": [P.describe(o) for o in c["sops"][2:7]], "impl": [l[:160] for l in impl[2:7]]})
        fails = monitor_serve(c, impl, W)
        mism = [(i, a, b) for i, (a, b) in enumerate(zip(core, model)) if a != b] if model is not None else []
        if fails:
            idx, msg = fails[0]
            if not ctx.violation_budget("property", msg):
                ctx.violation("property", msg)
            else:
                keep = [s for s in c["sops"][:idx] if s[0] in P.STATEFUL] + [c["sops"][idx]]
                ctx.violation("property", msg, {"sops": [P.sop_to_json(s) for s in keep], "ops_readable": [P.describe(s) for s in keep][-6:],
                                                "failures": [m for _, m in fails[:5]], "category": c["cat"], "observed": impl[idx][:400],
                                                "expected_by_model": (model[idx] if model else None), "harness": "harness/c20_serve.cpp"}, found_input=True)
        elif mism:
            acc["serve_mismatch"] += 1
            if acc["serve_mismatch"] <= 3:
                i, a, b = mism[0]
                keep = [s for s in c["sops"][:i] if s[0] in P.STATEFUL] + [c["sops"][i]]
                ctx.violation("correspondence", "serve layer: model and implementation disagree (no property monitor fails on this case): op `%s` impl=`%s` model=`%s`"
                              % (P.describe(c["sops"][i]), a[:140], b[:140]),
                              {"broken": {"correspondence": "assets lockstep (harness/c20_serve.cpp vs Model/AssetsServe.lean)", "detail": "first differing op index %d" % i},
                               "sops": [P.sop_to_json(s) for s in keep], "observed": a, "expected_by_model": b, "category": c["cat"], "harness": "harness/c20_serve.cpp"},
                              found_input=False)
        c.pop("ops", None)
        c.pop("tree_obj", None)
    return hb


def is_serve_replay(obj):
    return obj.get("harness") == "harness/c20_serve.cpp" or any(isinstance(s, list) and s and s[0] in ("serve", "render", "pdec", "hasdd") for s in obj.get("sops", []))


def replay_serve(ctx, obj, env, W):
    """re-run a serve-layer replay / corpus object on the real code (harness/c20_serve.cpp) and the model; True = still failing"""
    from props import c20 as P
    from vlib.core import ModelBuildError
    hb = ctx.build_harness("harness/c20_serve.cpp", sanitize=True)
    if not hb:
        return True
    c = {"cat": obj.get("category", "replay"), "sops": [P.sop_from_json(x) for x in obj["sops"]], "shapes": {}}
    c["ops"] = P.render_case(c["sops"], W)
    try:
        (c, impl, model), = ctx.lockstep("assets", hb, [c], impl_env=env)
    except ModelBuildError:
        out, rc, err = ctx.run_lines([hb], c["ops"], timeout=300, env=env)
        impl, model = out + ["crash:%s" % rc] * (len(c["ops"]) - len(out)), None
    for i, sop in enumerate(c["sops"]):
        print("op    %s\n impl  %s\n model %s" % (P.describe(sop), impl[i][:200], (model[i][:200] if model else "-")))
    fails = monitor_serve(c, impl, W)
    for _, f in fails:
        print("PROPERTY FAILS:", f[:300])
    return bool(fails) or (model is not None and P.strip_oracles(impl) != model)
