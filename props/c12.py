"""C12 — The key-value store is a map with absolute expiry, across restarts (DESIGN §7 C12)."""
import os, json
from vlib.core import Ctx, hexs, unhex, ddmin
from props import kv_shared as K

ID = "C12"
MODULES = ["IoraModel.Props.C12"]
OBLIGATIONS = [
    {"id": "C12_gen_limits", "theorem": "Iora.C12.gen_limits_ok", "kind": "proved",
     "statement": "Gen obligation: the limits extracted from kvstore.hpp satisfy Lim.OK (load re-admits every key/value/record the API admits; widths fit)"},
    {"id": "C12_gen_format", "theorem": "Iora.C12.gen_format_ok", "kind": "proved",
     "statement": "Gen obligation: op letters, field widths, snapshot versions, sentinel, and the two load() shape facts (torn tail cut, single expiry sweep) are the ones the model hard-wires"},
    {"id": "C12_M1", "theorem": "Iora.C12.M1_refinement", "kind": "proved",
     "statement": "refinement: for every config, start time, cache-victim choices and history (incl. clock advances, eviction callbacks with any key/generation, compaction, close/reopen) abs(run) = reference map after the same history, every result allowed by the reference map, invariants hold"},
    {"id": "C12_M1_step", "theorem": "Iora.Kv.step_ok", "kind": "proved",
     "statement": "one-step simulation for every operation from every state satisfying the invariant (cache coherence, _expiry within _kv, files replay to memory)"},
    {"id": "C12_M1_reads", "theorem": "Iora.C12.M1_reads", "kind": "proved",
     "statement": "exists / ttl / getBatch / keys / keysWithPrefix / size equal the reference-map reads at the read's now in every reachable state"},
    {"id": "C12_M2_evict", "theorem": "Iora.C12.M2_eviction_invisible", "kind": "proved",
     "statement": "the eviction callback (STALE/RE-ARM/EVICT) for any key and timer generation leaves the abstract state unchanged and never removes a live key"},
    {"id": "C12_M2_clock", "theorem": "Iora.C12.M2_clock", "kind": "proved",
     "statement": "a clock advance of any size prunes exactly the entries whose expiry has passed, with no eviction step"},
    {"id": "C12_M3", "theorem": "Iora.C12.M3_overwrite", "kind": "proved",
     "statement": "after set k v the key holds exactly v with no expiry whatever it held before; get returns v byte for byte"},
    {"id": "C12_M3_ttl", "theorem": "Iora.C12.M3_ttl_deadline", "kind": "proved",
     "statement": "after set k v ttl with ANY ttl > 0 (seconds::max() included) the key holds v with deadline min(now + ttl, last representable instant) > now: the deadline saturates instead of wrapping into the past"},
    {"id": "C12_M4", "theorem": "Iora.C12.M4_restart", "kind": "proved",
     "statement": "clean close + reopen at the current time (after any clock advance) preserves the abstract state and the invariants"},
    {"id": "C12_M5", "theorem": "Iora.C12.M5_compaction", "kind": "proved",
     "statement": "compaction changes nothing visible, leaves no expired key in memory, and the new snapshot alone holds exactly the live entries"},
    {"id": "C12_gen_locks", "theorem": "Iora.C12.gen_locks_ok", "kind": "proved",
     "statement": "Gen obligation (lock scopes extracted from kvstore.hpp): get() looks the key up and refills the cache inside one guard on _mutex, its fast path holds _cacheMutex only, "
                  "every writer changes _cache/_kv/_expiry while holding _mutex exclusively, every access to _cache holds _cacheMutex (writes exclusively), "
                  "every READ of _kv/_expiry outside the constructor-only functions (exists, ttl, size, getBatch, keys, ...) holds _mutex (readersHoldStoreLock)"},
    {"id": "C12_M6_race", "theorem": "Iora.C12.M6_get_miss_race", "kind": "proved",
     "statement": "for the extracted lock scopes: get() on a cache miss interleaved with any writer of the same key (set, set+ttl, setBatch, remove, expireAt, persist, clear, eviction), "
                  "for EVERY schedule of their lock / read / write steps stopped anywhere, leaves the key's cache entry absent or equal to the stored entry (value and expiry) whenever the writer is not "
                  "between its two assignments; after the writer returned _kv holds what it stored"},
    {"id": "C12_M6_progress", "theorem": "Iora.C12.M6_progress", "kind": "proved",
     "statement": "under the same lock scopes the two calls never deadlock (in every reachable state with a call in flight some thread can move) and a schedule on which both return exists from every initial state"},
    {"id": "C12_M6_refuted", "theorem": "Iora.C12.M6_unlocked_refill_refuted", "kind": "proved",
     "statement": "the lock-scope hypothesis is needed: if get() releases _mutex before the cache refill, a schedule exists after which both calls returned, the key is removed and the cache still serves its old value"},
    {"id": "C12_M6_threads", "theorem": "Iora.C12.M6_any_threads", "kind": "proved",
     "statement": "the same lock skeleton for ANY number of threads, each making any sequence of calls (get(k) on the miss path, any writer of k, any erasure of k's cache entry under _cacheMutex such as the LRU victim "
                  "of a call on another key), for EVERY schedule stopped anywhere: k's cache entry is absent or equal to the stored entry whenever no writer stands between its two assignments, in particular whenever "
                  "no call is in flight (quiescence); _mutex has at most one exclusive holder and then no shared holder; _cacheMutex has at most one holder"},
    {"id": "C12_M6_threads_refuted", "theorem": "Iora.C12.M6_any_threads_unlocked_refill_refuted", "kind": "proved",
     "statement": "in the n-thread skeleton too the refill must be under the store lock: with it outside, two threads reach a quiescent state in which the key is removed and its cache entry still holds the old value"},
    {"id": "C12_M6_writer_scope_refuted", "theorem": "Iora.C12.M6_any_threads_unlocked_writer_refuted", "kind": "proved",
     "statement": "the writers' lock scope is needed too: if a writer releases _mutex before it updates the cache, set(k,v) || remove(k) (two writers, no reader) end quiescent with the key gone and the cache serving v"},
    {"id": "C12_M6_linearizable", "theorem": "Iora.C12.M6_linearizable", "kind": "proved",
     "statement": "linearizability of the calls on one key to an atomic register (ghost St.lin), any number of threads, every schedule, every reachable state: the fast path of get() reads nothing or the register's value, "
                  "the miss path loads the register's value, and the register equals _kv[k] whenever no writer stands between its two assignments (in particular at rest)"},
    {"id": "C12_M6_threads_progress", "theorem": "Iora.C12.M6_any_threads_progress", "kind": "proved",
     "statement": "no deadlock for any number of threads: in every reachable state of the n-thread skeleton in which a call is in flight some thread is not blocked (lock order _mutex before _cacheMutex)"},
    {"id": "C12_M6_register_steps", "theorem": "Iora.C12.M6_register_steps", "kind": "proved",
     "statement": "the register changes in exactly one step of each writer's call (its assignment to _cache[k], with _mutex and _cacheMutex held, strictly inside the call) and becomes what that writer stores; no other action changes it"},
]
ANCHOR_FILES = ["include/iora/storage/kvstore.hpp", "include/iora/core/timing_wheel.hpp"]
HARNESS = "harness/c12_kv.cpp"


def corpus_dir():
    return os.path.join(os.path.dirname(os.path.dirname(os.path.abspath(__file__))), "corpus", ID)


def load_corpus():
    out = []
    d = corpus_dir()
    if os.path.isdir(d):
        for fn in sorted(os.listdir(d)):
            if fn.endswith(".json"):
                c = json.load(open(os.path.join(d, fn)))
                c.setdefault("cat", "corpus")
                c["corpus_file"] = fn
                out.append(c)
    return out


def gen_cases(ctx, rng, quick):
    cases = []
    n_det = 700 if quick else 14000
    n_free = 60 if quick else 1200
    for i in range(n_det):
        r = rng.fork("det%d" % i)
        cfg = {"maxCache": r.choice([1, 1, 2, 3, 4, 1000, 0]), "maxLog": r.choice([60, 200, 1000, 10 ** 7, 10 ** 7]),
               "inline": r.choice([1, 1, 0]), "now": r.choice([1000, 1, 1700000000000, 5, 1700000000000, K.MAXMS - 7000, K.MAXMS - 1500])}
        n_ops = r.range(5, 50)
        ops, meta = K.gen_history(r, n_ops, cfg, free=False, allow_big=(i % 40 == 7), race=True)
        cases.append({"cat": "history", "ops": ops, "cfg": cfg, "dist": meta["dist"]})
    for i in range(n_free):
        r = rng.fork("free%d" % i)
        cfg = {"maxCache": r.choice([1, 2, 3]), "maxLog": r.choice([80, 300, 10 ** 7]), "inline": r.choice([1, 0]),
               "now": 1700000000000}
        if i % 3 == 0:
            cfg["maxCache"] = r.choice([3, 8, 1000])     # (a stale entry must survive until the round's quiescent check)
        ops, meta = K.gen_history(r, r.range(5, 30), cfg, free=True)
        if i % 3 == 0:
            # concurrent readers + writer + clock racing the real wheel and eviction worker, in rounds that end in a quiescent
            # coherence check (implementation-only monitors); every third seed uses 1 MiB values
            ops.append("stress %d %d" % (r.below(10 ** 6), r.choice([30, 60, 100])))
            meta["dist"]["stress"] = 1
        cases.append({"cat": "free-running", "ops": ops, "cfg": cfg, "dist": meta["dist"]})
    return cases


def check_stats(ctx, st, crashed=False):
    """Machinery self-checks and the two clock constants of the tie."""
    if not st:
        if crashed:
            return          # the harness kept crashing (reported as violations by the monitors): no counters to check
        raise RuntimeError("harness did not answer `stats`")
    # the deterministic configuration relies on the pthread_cond_clockwait interposer (long timed waits are sliced): if libstdc++ stops
    # using that entry point the harness can hang or spin; that is a failure of the machinery, not of the property
    # (the counters are per harness process: after a harness crash the last process may have run free-running cases only)
    if not crashed and (int(st.get("sliced_waits", "0")) == 0 or int(st.get("clock_monotonic", "0")) == 0 or int(st.get("clock_realtime", "0")) == 0):
        raise RuntimeError("interposers not hit (sliced_waits=%s clock_monotonic=%s clock_realtime=%s): the deterministic clock/wait control is not in effect"
                           % (st.get("sliced_waits"), st.get("clock_monotonic"), st.get("clock_realtime")))
    # the `racegate` schedule relies on the pthread_rwlock_wrlock interposer (std::shared_mutex::lock): if the gate is never reached the
    # deterministic get-miss || writer schedule is not being exercised at all
    if not crashed and int(st.get("gate_ops", "0")) > 20 and int(st.get("gate_hits", "0")) == 0:
        raise RuntimeError("racegate: %s ops but get() never reached the gate (pthread_rwlock_wrlock interposer not in effect?)" % st.get("gate_ops"))
    if not crashed and int(st.get("wgate_ops", "0")) > 20 and int(st.get("wgate_hits", "0")) == 0:
        raise RuntimeError("wracegate: %s ops but set() never reached the gate (pthread_rwlock_wrlock interposer not in effect?)" % st.get("wgate_ops"))
    if int(st.get("gate_timeouts", "0")) > 0:
        raise RuntimeError("racegate: the writer neither returned nor blocked within 10 s (%s times)" % st.get("gate_timeouts"))
    import translate
    try:
        _, text = translate.generate("kv", ctx.repo)
    except Exception:
        return
    import re
    # tie of the lock-scope fact to the running code: Gen says get() refills the cache while it still holds _mutex, so a writer released
    # at the refill must block; a writer that RETURNED there contradicts the extracted scope
    mg = re.search(r"def getRefillsCacheUnderStoreLock : Bool := (\w+)", text)
    if mg and mg.group(1) == "true" and int(st.get("gate_writer_passed", "0")) > 0:
        ctx.violation("translator", "Gen getRefillsCacheUnderStoreLock=true but in %s of %s gated get() calls a writer of the same key ran to completion between "
                      "get()'s lookup and its cache refill" % (st.get("gate_writer_passed"), st.get("gate_hits")),
                      {"broken": {"translator": "kv", "detail": "lock scope of get() (updateCache under the guard on _mutex)"}})
    mw = re.search(r"def writersTouchCacheUnderStoreLock : Bool := (\w+)", text)
    if mw and mw.group(1) == "true" and int(st.get("wgate_writer_passed", "0")) > 0:
        ctx.violation("translator", "Gen writersTouchCacheUnderStoreLock=true but in %s of %s gated set() calls a second writer of the same key ran to completion between "
                      "set()'s store to _kv and its cache update" % (st.get("wgate_writer_passed"), st.get("wgate_hits")),
                      {"broken": {"translator": "kv", "detail": "lock scope of the writers (updateCache under the exclusive guard on _mutex)"}})
    gen = {m.group(1): int(m.group(2)) for m in re.finditer(r"def (maxPlausibleEpochMs|timePointMaxMs) : Int := (-?\d+)", text)}
    if gen.get("timePointMaxMs") != int(st.get("tp_max_ms", "-1")):
        ctx.violation("translator", "Gen timePointMaxMs=%s but the compiler computes toEpochMs(system_clock::time_point::max())=%s"
                      % (gen.get("timePointMaxMs"), st.get("tp_max_ms")), {"broken": {"translator": "kv", "detail": "time_point range assumption (int64 ns)"}})
    if gen.get("maxPlausibleEpochMs") != int(st.get("max_plausible_ms", "-1")):
        ctx.violation("translator", "Gen maxPlausibleEpochMs=%s but KVStore::kMaxPlausibleEpochMs=%s" % (gen.get("maxPlausibleEpochMs"), st.get("max_plausible_ms")),
                      {"broken": {"translator": "kv", "detail": "kMaxPlausibleEpochMs evaluation"}})
    if gen.get("maxPlausibleEpochMs") == K.MAXMS and gen.get("timePointMaxMs") != K.MAXMS:
        raise RuntimeError("props/kv_shared.py MAXMS is out of date")


def compare_case(c, impl, model):
    """Correspondence: model line vs implementation line, canonicalised; free-running cases compare results and reads only."""
    free = c["cat"] == "free-running" or c.get("free")
    mism = []
    for i, (op, a, b) in enumerate(zip(c["ops"], impl, model)):
        t = op.split()[0]
        if free:
            if t == "state":
                continue
            a2, b2 = K.result_of(a), K.result_of(b)
        else:
            a2, b2 = K.canon_line(a), K.canon_line(b)
        if t == "read":
            a2 = a2.split(" inv=")[0]
        if a2 != b2:
            mism.append((i, a2, b2))
    return mism


def replay(ctx):
    """Re-run the op list of a replay file on the real KVStore and on the model; exit 1 if it still fails."""
    obj = json.load(open(ctx.replay))
    ops = obj.get("ops") or []
    ctx.translate(["kv"])
    ctx.lake_build(MODULES)
    hb = ctx.build_harness(HARNESS, sanitize=True, flags=["-fno-sanitize=nonnull-attribute"])
    if not hb or not ops:
        print("replay: nothing to run (kind=%s)" % obj.get("kind"))
        return 1 if ctx.violations else 0
    kvwork = os.path.join(ctx.work, "kvdirs")
    os.makedirs(kvwork, exist_ok=True)
    c = {"cat": obj.get("category", "history"), "ops": ops}
    (c, impl, model), = K.lockstep(ctx, hb, [c], impl_env={"KV_WORK": kvwork})
    for o, a, b in zip(ops, impl, model):
        print("op    %s\n impl  %s\n model %s" % (o[:200], a[:200], b[:200]))
    fails = K.monitor_reads(ops, impl)
    for f in fails:
        print("PROPERTY FAILS:", f[:300])
    still = bool(fails) or bool(compare_case(c, impl, model))
    print("replay: %s" % ("still failing" if still else "no longer failing"))
    import shutil
    shutil.rmtree(ctx.work, ignore_errors=True)
    return 1 if still else 0


def run(ctx: Ctx):
    if ctx.replay:
        return replay(ctx)
    quick = ctx.tier == "quick"
    rng = ctx.rng
    ctx.translate(["kv"])
    ok_build = ctx.lake_build(MODULES + ["iora_model"])
    if ok_build:
        ctx.audit(MODULES, OBLIGATIONS)
        if not quick:
            ctx.leanchecker(MODULES + ["IoraModel.Lemmas.KvFiles", "IoraModel.Lemmas.KvStore", "IoraModel.Lemmas.KvLog", "IoraModel.Lemmas.KvMap",
                                       "IoraModel.Model.KvSpec", "IoraModel.Model.KvStore", "IoraModel.Model.KvLog", "IoraModel.Model.KvMap",
                                       "IoraModel.Model.KvRace", "IoraModel.Lemmas.KvRace", "IoraModel.Model.KvRaceN", "IoraModel.Lemmas.KvRaceN"])
    else:
        ctx.cov["obligations"] = len(OBLIGATIONS)
    # memcpy(value.data(), ptr, 0) on an empty vector in load() passes a null pointer with length 0: flagged by UBSan's
    # nonnull-attribute check, harmless on every implementation and unrelated to the property; that one check is off.
    hb = ctx.build_harness(HARNESS, sanitize=True, flags=["-fno-sanitize=nonnull-attribute"])
    dist = {}
    opdist = {}
    if hb:
        kvwork = os.path.join(ctx.work, "kvdirs")
        os.makedirs(kvwork, exist_ok=True)
        cases = load_corpus() + gen_cases(ctx, rng.fork("gen"), quick) + [{"cat": "stats", "ops": ["stats"]}]
        res = K.lockstep(ctx, hb, cases, impl_env={"KV_WORK": kvwork}, timeout=3000)
        n_mismatch = 0
        deferred = []
        for c, impl, model in res:
            if c["cat"] == "stats":
                st = dict(x.split("=") for x in impl[0].split()[1:]) if impl[0].startswith("stats ") else {}
                ctx.extra["interposer_counts"] = st or impl[0]
                check_stats(ctx, st, crashed=any("crash" in cc for cc, _, _ in res))
                continue
            dist[c["cat"]] = dist.get(c["cat"], 0) + 1
            for k, v in c.get("dist", {}).items():
                opdist[k] = opdist.get(k, 0) + v
            ctx.count_case("\n".join(c["ops"]), nontrivial=any(l.startswith("size=") and not l.startswith("size=0 ") for l in impl))
            if len(ctx.cov["samples"]) < 6 and rng.chance(1, 40):
                ctx.sample({"cat": c["cat"], "ops": [o[:120] for o in c["ops"][:8]], "impl": [l[:160] for l in impl[:8]]})
            fails = K.monitor_reads(c["ops"], impl)
            if c.get("expect_fail"):
                # corpus witness of a repaired defect: must NOT fail any more (a failure is reported like any other)
                pass
            if fails:
                if all(f.startswith("M1(cache)") for f in fails):
                    deferred.append((c, impl, model, fails))       # only the harness's internal-invariant probe objects: reported after the public divergences
                else:
                    report_property(ctx, hb, kvwork, c, impl, model, fails)
                continue
            mism = compare_case(c, impl, model)
            if mism:
                n_mismatch += 1
                i, a, b = mism[0]
                ctx.violation("correspondence", "model and implementation disagree (the reference-map monitor passes on this case): op `%s` impl=`%s` model=`%s`"
                              % (c["ops"][i][:120], K.short(a, 200), K.short(b, 200)),
                              {"broken": {"correspondence": "kv lockstep (harness/c12_kv.cpp vs Model/KvStore.lean, Model/KvLog.lean)",
                                          "detail": "first differing op index %d of %d" % (i, len(c["ops"]))},
                               "ops": c["ops"], "observed": impl, "expected_by_model": model}, found_input=False)
        for c, impl, model, fails in deferred:
            report_property(ctx, hb, kvwork, c, impl, model, fails)
        ctx.extra["lockstep_mismatching_cases"] = n_mismatch
    ctx.extra["input_distribution"] = {"cases": dist, "ops": opdist}
    ctx.extra["repo_tree_sha"] = ctx.repo_tree_sha(ANCHOR_FILES)
    ctx.extra["not_proved"] = [
        "concurrent callers: every public method is one atomic step of the sequential model (it holds _mutex for its whole body); get()'s cache fast path runs under "
        "_cacheMutex only. The sequential theorems cover every order of those sections. PROVED for every schedule (M6, over the lock scopes the translator extracts and an obligation pins): "
        "get() on a cache miss against ONE writer of the same key keeps the cache entry coherent and cannot deadlock (M6_get_miss_race, M6_progress); and for ANY number of threads making any sequences of "
        "get(k) / writers of k (the eviction worker and the compaction thread are such writers) / erasures of k's cache entry (LRU victim of a call on another key), k's cache entry is coherent whenever no writer stands "
        "between its two assignments, in particular at quiescence (M6_any_threads). The VALUES get() returns while calls are in flight are linearizable to an atomic register per key (M6_linearizable + M6_register_steps: fast-path read and miss-path load return the register, "
        "each writer changes it once inside its call). No deadlock for any number of threads is proved too (M6_any_threads_progress; fairness/termination of every call only for two threads, M6_progress). NOT proved: the skeleton is per key (cross-key atomicity of setBatch/clear/compaction is the sequential model's: "
        "they hold _mutex exclusively throughout); the fast path's shared hold of _cacheMutex is one atomic read step (argued in Model/KvRaceN.lean, not proved against a multi-step hold); "
        "and memory-model/data-race freedom (C++ accesses are taken as atomic steps under their locks). Those are exercised by the deterministic `racegate` schedule (get() held at its cache refill while a writer is released) "
        "and by the `stress` op (rounds of one writer + two readers + clock against the real wheel and worker, ending in a quiescent get/getString vs exists/getBatch + cache-coherence check; 1 MiB values every third seed), tested not proved",
        "bounded cache size (_cache.size() <= maxCacheSize) is checked by the implementation-side invariant monitor on every read, not stated as a theorem",
        "TimingWheel scheduling (clampDelay, levels, cascade) is not modelled: the eviction callback may arrive for any key, any generation, at any time, "
        "which covers every wheel behaviour (early, late, never)",
        "sub-millisecond expiries (persisted truncated to ms) and deadlines beyond the representable range of system_clock are outside the model (stated assumptions)"]
    ctx.assumptions += [
        "times are whole milliseconds (system_clock has ns resolution; expiries are persisted truncated to ms, so a sub-millisecond expiry can lapse up to 1 ms early after a restart — not modelled)",
        "the wall clock never goes backwards (the harness only advances CLOCK_REALTIME)",
        "0 < now <= last representable instant; the time_point handed to expireAt is representable (<= kMaxPlausibleEpochMs = last whole ms of system_clock::time_point after FC12b; explicit hypothesis StepOK); "
        "TTLs need NO side condition: the deadline saturates (theorem M3_ttl_deadline), and Gen's timePointMaxMs / maxPlausibleEpochMs are cross-checked against the values the compiled harness prints",
        "every public method is one atomic step of the model. Exceptions in the code, all modelled as ONE step: removeWithPrefix() is keysWithPrefix() followed by one remove() per key, "
        "each under its own lock; get()'s cache fast path runs under _cacheMutex only (never _mutex); set(key, value, ttl)/setBatch(batch, ttl) sample now() BEFORE taking _mutex",
        "the order in which keysWithPrefix() lists the keys (iteration order of a std::unordered_map) is an INPUT of the model (Op.removeWithPrefix p ord, used when it is a permutation of the model's matching live keys): "
        "the harness reports the order the real call used and the model is re-run with it, so the position of inline compactions between the delete records is compared exactly; every theorem holds for every order. "
        "Records of ONE critical section (setBatch, clear) and snapshot entries are still compared as sets (sorted on both sides)",
        "`racegate k <writer>`: the harness interposes pthread_rwlock_wrlock, stops get(k) at its exclusive acquisition of _cacheMutex and releases the writer on a second thread until it has returned or its first "
        "pthread_rwlock_trywrlock on _mutex failed (= it must wait for the reader); the model answers get-then-writer sequentially, which is the only outcome under the extracted lock scopes (M6); "
        "the counters (gate_hits, gate_writer_blocked, gate_writer_passed) are checked against Gen.getRefillsCacheUnderStoreLock. `wracegate k v1 <writer>` is the same gate with set(k, v1) as the gated call "
        "(it stands at the _cacheMutex acquisition of its updateCache; two writers, the schedule of M6_any_threads_unlocked_writer_refuted); counters wgate_* are checked against Gen.writersTouchCacheUnderStoreLock",
        "the wall clock is constant within one operation (the harness freezes CLOCK_REALTIME between ops) while the code reads it 2-3 times per call (e.g. deadline, then clampDelay in armTimerLocked; "
        "keysWithPrefix then each remove): a clock tick between those reads is not modelled",
        "maxCacheSize = 0 means cache off (after the FC12c repair; before it the first set/get was undefined behaviour); every other size, including 1, is covered by the theorems (cache-victim choice adversarial)",
        "deterministic cases: background compaction thread off or idle (compactionInterval 30 s), wheel tick 1 h and steady_clock frozen, so eviction happens only through the `evict` op (KVStore::evictionCallback called directly with the key's current / a stale / the invalid timer id) and through TimingWheel::drain at close; "
        "free-running cases: real wheel (1 ms tick), real eviction worker and 2 ms background compaction race the operations; only results and reads are compared there",
        "cache victim (`_cache.begin()`) is unspecified: the theorems hold for every choice; cache contents are checked by the implementation-side coherence monitor, not compared with the model",
    ]
    return ctx.finish(level="proof", rule="a case = one operation history on a fresh real KVStore (wall clock owned by the harness), every mutating op followed by a read of all seven read paths; "
                      "distinct = distinct op lists; non-trivial = at least one read with a non-empty store")


def report_property(ctx, hb, kvwork, c, impl, model, fails, extra=None):
    ops = c["ops"]
    if not ctx.violation_budget("property", fails[0]):
        ctx.violation("property", fails[0])
        return
    cls = fails[0].split(":")[0]
    free = c["cat"] == "free-running"

    def still(sub):
        if not sub or sub[0].split()[0] not in ("reset", "resetfree"):
            sub = [ops[0]] + sub
        out, rc, err = ctx.run_lines([hb], sub, timeout=120, env={"KV_WORK": kvwork})
        out = out + ["crash:" + str(rc)] * (len(sub) - len(out))
        return bool([f for f in K.monitor_reads(sub, out) if f.split(":")[0] == cls])
    small = ops
    try:
        if not free and still(ops):
            small = ddmin(ops[1:], still, max_tests=120)
            small = [ops[0]] + small
    except Exception:
        small = ops
    out, rc, err = ctx.run_lines([hb], small, timeout=120, env={"KV_WORK": kvwork})
    fl = K.monitor_reads(small, out + ["crash:" + str(rc)] * (len(small) - len(out)))
    obj = {"ops": small, "observed": out, "failures": (fl or fails)[:5], "category": c["cat"], "full_case_ops": len(ops)}
    if extra:
        obj.update(extra)
    ctx.violation("property", (fl or fails)[0], obj, found_input=True)
