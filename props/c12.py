"""C12 — The key-value store is a map with absolute expiry, across restarts (DESIGN §7 C12)."""
import os, json
from vlib.core import Ctx, hexs, unhex, ddmin
from props import kv_shared as K

ID = "C12"
MODULES = ["IoraModel.Props.C12"]
OBLIGATIONS = [
    {"id": "C12_gen_limits", "theorem": "Iora.C12.gen_limits_ok", "kind": "proved",
     "statement": "Gen obligation: the limits extracted from kvstore.hpp satisfy Lim.OK (load re-admits every key/value/record the API admits; widths fit)"},
    {"id": "C12_gen_format", "theorem": "Iora.C12.gen_format_ok", "kind": "proved",
     "statement": "Gen obligation: op letters, field widths, snapshot versions, sentinel, and the two load() shape facts (torn tail cut, single expiry sweep) are the ones the model hard-wires"},
    {"id": "C12_M1", "theorem": "Iora.C12.M1_refinement", "kind": "proved",
     "statement": "refinement: for every config, start time, cache-victim choices and history (incl. clock advances, eviction callbacks with any key/generation, compaction, close/reopen) abs(run) = reference map after the same history, every result allowed by the reference map, invariants hold"},
    {"id": "C12_M1_step", "theorem": "Iora.Kv.step_ok", "kind": "proved",
     "statement": "one-step simulation for every operation from every state satisfying the invariant (cache coherence, _expiry within _kv, files replay to memory)"},
    {"id": "C12_M1_reads", "theorem": "Iora.C12.M1_reads", "kind": "proved",
     "statement": "exists / ttl / getBatch / keys / keysWithPrefix / size equal the reference-map reads at the read's now in every reachable state"},
    {"id": "C12_M2_evict", "theorem": "Iora.C12.M2_eviction_invisible", "kind": "proved",
     "statement": "the eviction callback (STALE/RE-ARM/EVICT) for any key and timer generation leaves the abstract state unchanged and never removes a live key"},
    {"id": "C12_M2_clock", "theorem": "Iora.C12.M2_clock", "kind": "proved",
     "statement": "a clock advance of any size prunes exactly the entries whose expiry has passed, with no eviction step"},
    {"id": "C12_M3", "theorem": "Iora.C12.M3_overwrite", "kind": "proved",
     "statement": "after set k v the key holds exactly v with no expiry whatever it held before; get returns v byte for byte"},
    {"id": "C12_M3_ttl", "theorem": "Iora.C12.M3_ttl_deadline", "kind": "proved",
     "statement": "after set k v ttl with ANY ttl > 0 (seconds::max() included) the key holds v with deadline min(now + ttl, last representable instant) > now: the deadline saturates instead of wrapping into the past"},
    {"id": "C12_M4", "theorem": "Iora.C12.M4_restart", "kind": "proved",
     "statement": "clean close + reopen at the current time (after any clock advance) preserves the abstract state and the invariants"},
    {"id": "C12_M5", "theorem": "Iora.C12.M5_compaction", "kind": "proved",
     "statement": "compaction changes nothing visible, leaves no expired key in memory, and the new snapshot alone holds exactly the live entries"},
]
ANCHOR_FILES = ["include/iora/storage/kvstore.hpp", "include/iora/core/timing_wheel.hpp"]
HARNESS = "harness/c12_kv.cpp"


def corpus_dir():
    return os.path.join(os.path.dirname(os.path.dirname(os.path.abspath(__file__))), "corpus", ID)


def load_corpus():
    out = []
    d = corpus_dir()
    if os.path.isdir(d):
        for fn in sorted(os.listdir(d)):
            if fn.endswith(".json"):
                c = json.load(open(os.path.join(d, fn)))
                c.setdefault("cat", "corpus")
                c["corpus_file"] = fn
                out.append(c)
    return out


def gen_cases(ctx, rng, quick):
    cases = []
    n_det = 700 if quick else 14000
    n_free = 60 if quick else 1200
    for i in range(n_det):
        r = rng.fork("det%d" % i)
        cfg = {"maxCache": r.choice([1, 1, 2, 3, 4, 1000, 0]), "maxLog": r.choice([60, 200, 1000, 10 ** 7, 10 ** 7]),
               "inline": r.choice([1, 1, 0]), "now": r.choice([1000, 1, 1700000000000, 5, 1700000000000, K.MAXMS - 7000, K.MAXMS - 1500])}
        n_ops = r.range(5, 50)
        ops, meta = K.gen_history(r, n_ops, cfg, free=False, allow_big=(i % 40 == 7))
        cases.append({"cat": "history", "ops": ops, "cfg": cfg, "dist": meta["dist"]})
    for i in range(n_free):
        r = rng.fork("free%d" % i)
        cfg = {"maxCache": r.choice([1, 2, 3]), "maxLog": r.choice([80, 300, 10 ** 7]), "inline": r.choice([1, 0]),
               "now": 1700000000000}
        ops, meta = K.gen_history(r, r.range(5, 30), cfg, free=True)
        if i % 3 == 0:
            # concurrent readers + writer + clock racing the real wheel and eviction worker (implementation-only safety monitor)
            ops.append("stress %d %d" % (r.below(10 ** 6), r.choice([15, 30, 60])))
            meta["dist"]["stress"] = 1
        cases.append({"cat": "free-running", "ops": ops, "cfg": cfg, "dist": meta["dist"]})
    return cases


def check_stats(ctx, st, crashed=False):
    """Machinery self-checks and the two clock constants of the tie."""
    if not st:
        if crashed:
            return          # the harness kept crashing (reported as violations by the monitors): no counters to check
        raise RuntimeError("harness did not answer `stats`")
    # the deterministic configuration relies on the pthread_cond_clockwait interposer (long timed waits are sliced): if libstdc++ stops
    # using that entry point the harness can hang or spin; that is a failure of the machinery, not of the property
    # (the counters are per harness process: after a harness crash the last process may have run free-running cases only)
    if not crashed and (int(st.get("sliced_waits", "0")) == 0 or int(st.get("clock_monotonic", "0")) == 0 or int(st.get("clock_realtime", "0")) == 0):
        raise RuntimeError("interposers not hit (sliced_waits=%s clock_monotonic=%s clock_realtime=%s): the deterministic clock/wait control is not in effect"
                           % (st.get("sliced_waits"), st.get("clock_monotonic"), st.get("clock_realtime")))
    import translate
    try:
        _, text = translate.generate("kv", ctx.repo)
    except Exception:
        return
    import re
    gen = {m.group(1): int(m.group(2)) for m in re.finditer(r"def (maxPlausibleEpochMs|timePointMaxMs) : Int := (-?\d+)", text)}
    if gen.get("timePointMaxMs") != int(st.get("tp_max_ms", "-1")):
        ctx.violation("translator", "Gen timePointMaxMs=%s but the compiler computes toEpochMs(system_clock::time_point::max())=%s"
                      % (gen.get("timePointMaxMs"), st.get("tp_max_ms")), {"broken": {"translator": "kv", "detail": "time_point range assumption (int64 ns)"}})
    if gen.get("maxPlausibleEpochMs") != int(st.get("max_plausible_ms", "-1")):
        ctx.violation("translator", "Gen maxPlausibleEpochMs=%s but KVStore::kMaxPlausibleEpochMs=%s" % (gen.get("maxPlausibleEpochMs"), st.get("max_plausible_ms")),
                      {"broken": {"translator": "kv", "detail": "kMaxPlausibleEpochMs evaluation"}})
    if gen.get("maxPlausibleEpochMs") == K.MAXMS and gen.get("timePointMaxMs") != K.MAXMS:
        raise RuntimeError("props/kv_shared.py MAXMS is out of date")


def compare_case(c, impl, model):
    """Correspondence: model line vs implementation line, canonicalised; free-running cases compare results and reads only."""
    free = c["cat"] == "free-running" or c.get("free")
    mism = []
    for i, (op, a, b) in enumerate(zip(c["ops"], impl, model)):
        t = op.split()[0]
        if free:
            if t == "state":
                continue
            a2, b2 = K.result_of(a), K.result_of(b)
        else:
            a2, b2 = K.canon_line(a), K.canon_line(b)
        if t == "read":
            a2 = a2.split(" inv=")[0]
        if a2 != b2:
            mism.append((i, a2, b2))
    return mism


def replay(ctx):
    """Re-run the op list of a replay file on the real KVStore and on the model; exit 1 if it still fails."""
    obj = json.load(open(ctx.replay))
    ops = obj.get("ops") or []
    ctx.translate(["kv"])
    ctx.lake_build(MODULES)
    hb = ctx.build_harness(HARNESS, sanitize=True, flags=["-fno-sanitize=nonnull-attribute"])
    if not hb or not ops:
        print("replay: nothing to run (kind=%s)" % obj.get("kind"))
        return 1 if ctx.violations else 0
    kvwork = os.path.join(ctx.work, "kvdirs")
    os.makedirs(kvwork, exist_ok=True)
    c = {"cat": obj.get("category", "history"), "ops": ops}
    (c, impl, model), = ctx.lockstep("kv", hb, [c], impl_env={"KV_WORK": kvwork})
    for o, a, b in zip(ops, impl, model):
        print("op    %s\n impl  %s\n model %s" % (o[:200], a[:200], b[:200]))
    fails = K.monitor_reads(ops, impl)
    for f in fails:
        print("PROPERTY FAILS:", f[:300])
    still = bool(fails) or bool(compare_case(c, impl, model))
    print("replay: %s" % ("still failing" if still else "no longer failing"))
    import shutil
    shutil.rmtree(ctx.work, ignore_errors=True)
    return 1 if still else 0


def run(ctx: Ctx):
    if ctx.replay:
        return replay(ctx)
    quick = ctx.tier == "quick"
    rng = ctx.rng
    ctx.translate(["kv"])
    ok_build = ctx.lake_build(MODULES + ["iora_model"])
    if ok_build:
        ctx.audit(MODULES, OBLIGATIONS)
        if not quick:
            ctx.leanchecker(MODULES + ["IoraModel.Lemmas.KvFiles", "IoraModel.Lemmas.KvStore", "IoraModel.Lemmas.KvLog", "IoraModel.Lemmas.KvMap",
                                       "IoraModel.Model.KvSpec", "IoraModel.Model.KvStore", "IoraModel.Model.KvLog", "IoraModel.Model.KvMap"])
    else:
        ctx.cov["obligations"] = len(OBLIGATIONS)
    # memcpy(value.data(), ptr, 0) on an empty vector in load() passes a null pointer with length 0: flagged by UBSan's
    # nonnull-attribute check, harmless on every implementation and unrelated to the property; that one check is off.
    hb = ctx.build_harness(HARNESS, sanitize=True, flags=["-fno-sanitize=nonnull-attribute"])
    dist = {}
    opdist = {}
    if hb:
        kvwork = os.path.join(ctx.work, "kvdirs")
        os.makedirs(kvwork, exist_ok=True)
        cases = load_corpus() + gen_cases(ctx, rng.fork("gen"), quick) + [{"cat": "stats", "ops": ["stats"]}]
        res = ctx.lockstep("kv", hb, cases, impl_env={"KV_WORK": kvwork}, timeout=3000)
        n_mismatch = 0
        for c, impl, model in res:
            if c["cat"] == "stats":
                st = dict(x.split("=") for x in impl[0].split()[1:]) if impl[0].startswith("stats ") else {}
                ctx.extra["interposer_counts"] = st or impl[0]
                check_stats(ctx, st, crashed=any("crash" in cc for cc, _, _ in res))
                continue
            dist[c["cat"]] = dist.get(c["cat"], 0) + 1
            for k, v in c.get("dist", {}).items():
                opdist[k] = opdist.get(k, 0) + v
            ctx.count_case("\n".join(c["ops"]), nontrivial=any(l.startswith("size=") and not l.startswith("size=0 ") for l in impl))
            if len(ctx.cov["samples"]) < 6 and rng.chance(1, 40):
                ctx.sample({"cat": c["cat"], "ops": [o[:120] for o in c["ops"][:8]], "impl": [l[:160] for l in impl[:8]]})
            fails = K.monitor_reads(c["ops"], impl)
            if c.get("expect_fail"):
                # corpus witness of a repaired defect: must NOT fail any more (a failure is reported like any other)
                pass
            if fails:
                report_property(ctx, hb, kvwork, c, impl, model, fails)
                continue
            mism = compare_case(c, impl, model)
            if mism:
                n_mismatch += 1
                i, a, b = mism[0]
                ctx.violation("correspondence", "model and implementation disagree (the reference-map monitor passes on this case): op `%s` impl=`%s` model=`%s`"
                              % (c["ops"][i][:120], K.short(a, 200), K.short(b, 200)),
                              {"broken": {"correspondence": "kv lockstep (harness/c12_kv.cpp vs Model/KvStore.lean, Model/KvLog.lean)",
                                          "detail": "first differing op index %d of %d" % (i, len(c["ops"]))},
                               "ops": c["ops"], "observed": impl, "expected_by_model": model}, found_input=False)
        ctx.extra["lockstep_mismatching_cases"] = n_mismatch
    ctx.extra["input_distribution"] = {"cases": dist, "ops": opdist}
    ctx.extra["repo_tree_sha"] = ctx.repo_tree_sha(ANCHOR_FILES)
    ctx.extra["not_proved"] = [
        "concurrent callers: every public method is one atomic step of the model (it holds _mutex for its whole body); get()'s cache fast path runs under "
        "_cacheMutex only. The theorems cover every sequential order of those sections; readers racing a writer, the clock and the real eviction worker are "
        "exercised by the `stress` op with an implementation-side safety monitor (no torn or foreign value), not proved (DetSched schedules not built)",
        "bounded cache size (_cache.size() <= maxCacheSize) is checked by the implementation-side invariant monitor on every read, not stated as a theorem",
        "TimingWheel scheduling (clampDelay, levels, cascade) is not modelled: the eviction callback may arrive for any key, any generation, at any time, "
        "which covers every wheel behaviour (early, late, never)",
        "sub-millisecond expiries (persisted truncated to ms) and deadlines beyond the representable range of system_clock are outside the model (stated assumptions)"]
    ctx.assumptions += [
        "times are whole milliseconds (system_clock has ns resolution; expiries are persisted truncated to ms, so a sub-millisecond expiry can lapse up to 1 ms early after a restart — not modelled)",
        "the wall clock never goes backwards (the harness only advances CLOCK_REALTIME)",
        "0 < now <= last representable instant; the time_point handed to expireAt is representable (<= kMaxPlausibleEpochMs = last whole ms of system_clock::time_point after FC12b; explicit hypothesis StepOK); "
        "TTLs need NO side condition: the deadline saturates (theorem M3_ttl_deadline), and Gen's timePointMaxMs / maxPlausibleEpochMs are cross-checked against the values the compiled harness prints",
        "every public method is one atomic step of the model. Exceptions in the code, all modelled as ONE step: removeWithPrefix() is keysWithPrefix() followed by one remove() per key, "
        "each under its own lock; get()'s cache fast path runs under _cacheMutex only (never _mutex); set(key, value, ttl)/setBatch(batch, ttl) sample now() BEFORE taking _mutex",
        "the wall clock is constant within one operation (the harness freezes CLOCK_REALTIME between ops) while the code reads it 2-3 times per call (e.g. deadline, then clampDelay in armTimerLocked; "
        "keysWithPrefix then each remove): a clock tick between those reads is not modelled",
        "maxCacheSize = 0 means cache off (after the FC12c repair; before it the first set/get was undefined behaviour); every other size, including 1, is covered by the theorems (cache-victim choice adversarial)",
        "deterministic cases: background compaction thread off or idle (compactionInterval 30 s), wheel tick 1 h and steady_clock frozen, so eviction happens only through the `evict` op (KVStore::evictionCallback called directly with the key's current / a stale / the invalid timer id) and through TimingWheel::drain at close; "
        "free-running cases: real wheel (1 ms tick), real eviction worker and 2 ms background compaction race the operations; only results and reads are compared there",
        "cache victim (`_cache.begin()`) is unspecified: the theorems hold for every choice; cache contents are checked by the implementation-side coherence monitor, not compared with the model",
    ]
    return ctx.finish(level="proof", rule="a case = one operation history on a fresh real KVStore (wall clock owned by the harness), every mutating op followed by a read of all seven read paths; "
                      "distinct = distinct op lists; non-trivial = at least one read with a non-empty store")


def report_property(ctx, hb, kvwork, c, impl, model, fails, extra=None):
    ops = c["ops"]
    if not ctx.violation_budget("property", fails[0]):
        ctx.violation("property", fails[0])
        return
    cls = fails[0].split(":")[0]
    free = c["cat"] == "free-running"

    def still(sub):
        if not sub or sub[0].split()[0] not in ("reset", "resetfree"):
            sub = [ops[0]] + sub
        out, rc, err = ctx.run_lines([hb], sub, timeout=120, env={"KV_WORK": kvwork})
        out = out + ["crash:" + str(rc)] * (len(sub) - len(out))
        return bool([f for f in K.monitor_reads(sub, out) if f.split(":")[0] == cls])
    small = ops
    try:
        if not free and still(ops):
            small = ddmin(ops[1:], still, max_tests=120)
            small = [ops[0]] + small
    except Exception:
        small = ops
    out, rc, err = ctx.run_lines([hb], small, timeout=120, env={"KV_WORK": kvwork})
    fl = K.monitor_reads(small, out + ["crash:" + str(rc)] * (len(small) - len(out)))
    obj = {"ops": small, "observed": out, "failures": (fl or fails)[:5], "category": c["cat"], "full_case_ops": len(ops)}
    if extra:
        obj.update(extra)
    ctx.violation("property", (fl or fails)[0], obj, found_input=True)
