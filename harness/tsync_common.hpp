// Shared plumbing of the Transport sync-layer harnesses (C03 c03_syncrecv.cpp, C04 c04_connectsync.cpp, C05 c05_teardown.cpp):
// the real transport_impl.hpp with private members reachable, the scripted engine behind the repository's own seam,
// a mark log that is merged with the DetSched trace into model-step lines.
#pragma once
#include <algorithm>
#include <any>
#include <array>
#include <atomic>
#include <bitset>
#include <cassert>
#include <cctype>
#include <cerrno>
#include <charconv>
#include <chrono>
#include <cmath>
#include <condition_variable>
#include <csignal>
#include <cstdarg>
#include <cstddef>
#include <cstdint>
#include <cstdio>
#include <cstdlib>
#include <cstring>
#include <ctime>
#include <deque>
#include <exception>
#include <filesystem>
#include <fstream>
#include <functional>
#include <future>
#include <iomanip>
#include <iostream>
#include <iterator>
#include <limits>
#include <list>
#include <locale>
#include <map>
#include <memory>
#include <mutex>
#include <numeric>
#include <optional>
#include <queue>
#include <random>
#include <regex>
#include <set>
#include <shared_mutex>
#include <sstream>
#include <stdexcept>
#include <string>
#include <string_view>
#include <system_error>
#include <thread>
#include <tuple>
#include <type_traits>
#include <typeinfo>
#include <unordered_map>
#include <unordered_set>
#include <utility>
#include <variant>
#include <vector>
#include <cxxabi.h>
#include <sys/epoll.h>
#include <sys/eventfd.h>
#include <sys/socket.h>
#include <sys/timerfd.h>
#include <netinet/in.h>
#include <netinet/tcp.h>
#include <arpa/inet.h>
#include <netdb.h>
#include <fcntl.h>
#include <unistd.h>
#include <openssl/ssl.h>
#include <openssl/err.h>
#include <openssl/evp.h>
#include <openssl/x509.h>
#include <openssl/x509v3.h>
#include <openssl/sha.h>
#include <openssl/rand.h>
#include <openssl/hmac.h>
#include <openssl/bio.h>
#include <openssl/pem.h>
#define private public
#define protected public
#include "iora/network/transport.hpp"
#include "iora/network/transport_impl.hpp"
#undef private
#undef protected
#include "common/fake_engine.hpp"
#include "common/lineproto.hpp"
#include "detsched/detsched.hpp"

namespace ts {
using namespace iora::network;
using u64 = unsigned long long;

inline const char* errName(TransportError e)
{
  switch (e)
  {
    case TransportError::None: return "None";
    case TransportError::Socket: return "Socket";
    case TransportError::Resolve: return "Resolve";
    case TransportError::Connect: return "Connect";
    case TransportError::TLSHandshake: return "TLSHandshake";
    case TransportError::PeerClosed: return "PeerClosed";
    case TransportError::Cancelled: return "Cancelled";
    case TransportError::Timeout: return "Timeout";
    case TransportError::BufferOverflow: return "BufferOverflow";
    case TransportError::ShuttingDown: return "ShuttingDown";
    case TransportError::Config: return "Config";
    case TransportError::Unknown: return "Unknown";
    default: return "Other";
  }
}

inline std::string join(const std::vector<std::string>& v, const char* sep)
{
  if (v.empty()) return "-";
  std::string s;
  for (std::size_t i = 0; i < v.size(); ++i) { if (i) s += sep; s += v[i]; }
  return s;
}

// ------------------------------------------------------------------------------------------------------------------
// Marks: what a managed thread did between two DetSched events.  Only one managed thread runs at a time, so a plain
// vector is enough; `at` = number of DetSched trace events recorded before the mark.
struct Mark
{
  std::size_t at;
  long long vt;      // DetSched virtual nanoseconds when the mark was made (0 outside a run)
  int tid;
  char kind;         // 'B' op begins, 'E' op ends (text = result), 'C' a user callback ran (text = what)
  std::string text;
};
inline std::vector<Mark>& marks() { static std::vector<Mark> m; return m; }
inline void mark(char kind, const std::string& text)
{
  marks().push_back(Mark{ds::active() ? ds::trace().size() : 0, ds::active() ? ds::now_ns() : 0, ds::self(), kind, text});
}

// One model step with what the implementation was observed to do in it.
struct StepLine
{
  int tid;
  std::string step;      // e.g. "recvWake 1 0"
  std::string observed;  // e.g. "recvRet:1:ok:4142", "-" when nothing observable
};
} // namespace ts
