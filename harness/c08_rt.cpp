// Real-time part of the C08 check: the REAL TimerService (epoll thread) and the REAL TimingWheel (tick thread) under the real
// steady clock, driven by several client threads with millisecond-scale delays.  Nothing is compared with the model here; the
// harness only records what happened (call/return times and results of schedule / cancel / stop / drain, start/end times of
// handlers) and props/c08.py evaluates the SAFETY monitors of C08 on that history: never early, at most once, never after a
// successful cancel, nothing starts or runs after stop() returned, schedule after stop() is refused.
//
// stdin: one scenario per line  `<kind> <seed> <ms>`  (kind: svc | svcdrain | f23 | wheel); all scenarios run concurrently,
// each on its own service object; stdout: one line per scenario, in input order:  `<kind> <seed> | ev;ev;...`
//   S:<id>:<tcall>:<tret>:<delay_ns>:<P|O>   schedule (P periodic, O one-shot), id 0 = refused
//   C:<id>:<tcall>:<tret>:<0|1>               cancel          R:<id>:<tcall>:<tret>:<delay_ns>:<0|1>  wheel reschedule
//   H:<id>:<tstart>:<tend>                    handler ran
//   X:<what>:<tcall>:<tret>:<ok>              stop / drain returned
// times are steady-clock nanoseconds since the scenario began.
#include <algorithm>
#include <atomic>
#include <chrono>
#include <condition_variable>
#include <cstdint>
#include <cstdio>
#include <functional>
#include <iostream>
#include <memory>
#include <mutex>
#include <sstream>
#include <string>
#include <thread>
#include <vector>
#include "iora/core/timer.hpp"
#include "iora/core/timing_wheel.hpp"

using namespace std::chrono;
using Clock = steady_clock;

struct Rng
{
  std::uint64_t s;
  std::uint64_t next()
  {
    s += 0x9E3779B97F4A7C15ULL;
    std::uint64_t z = s;
    z = (z ^ (z >> 30)) * 0xBF58476D1CE4E5B9ULL;
    z = (z ^ (z >> 27)) * 0x94D049BB133111EBULL;
    return z ^ (z >> 31);
  }
  std::uint64_t below(std::uint64_t n) { return n ? next() % n : 0; }
};

struct Log
{
  Clock::time_point t0 = Clock::now();
  std::mutex m;
  std::vector<std::string> ev;
  long long now() { return duration_cast<nanoseconds>(Clock::now() - t0).count(); }
  void add(const std::string& e)
  {
    std::lock_guard<std::mutex> lk(m);
    ev.push_back(e);
  }
  std::string str()
  {
    std::lock_guard<std::mutex> lk(m);
    std::string o;
    for (std::size_t i = 0; i < ev.size(); ++i) { if (i) o += ";"; o += ev[i]; }
    return o.empty() ? "-" : o;
  }
};

static std::string L(long long v) { return std::to_string(v); }

// a handler that logs its start and end; `slowUs` > 0 makes it slow (stalls the single loop / tick thread)
static std::function<void()> mkHandler(Log* lg, std::shared_ptr<std::atomic<std::uint64_t>> id, long slowUs)
{
  return [lg, id, slowUs]() {
    long long a = lg->now();
    if (slowUs > 0) std::this_thread::sleep_for(microseconds(slowUs));
    long long b = lg->now();
    // the id is published by the scheduling thread right after schedule() returned; wait for it (sub-microsecond)
    std::uint64_t v = 0;
    for (int i = 0; i < 2000000 && (v = id->load(std::memory_order_acquire)) == 0; ++i) std::this_thread::yield();
    lg->add("H:" + L((long long)v) + ":" + L(a) + ":" + L(b));
  };
}

static std::string runService(const std::string& kind, std::uint64_t seed, long ms)
{
  Log lg;
  iora::core::TimerServiceConfig cfg;
  auto svc = std::make_unique<iora::core::TimerService>(cfg);
  std::mutex idm;
  std::vector<std::uint64_t> ids;
  std::atomic<bool> stopClients{false};
  auto client = [&](std::uint64_t s) {
    Rng r{s};
    while (!stopClients.load())
    {
      int k = (int)r.below(100);
      if (k < 55)
      {
        long delayUs = (long)r.below(6) == 0 ? 0 : (long)r.below(40000);
        long slow = r.below(12) == 0 ? (long)(2000 + r.below(7000)) : 0;
        auto idp = std::make_shared<std::atomic<std::uint64_t>>(0);
        long long a = lg.now();
        std::uint64_t id = svc->scheduleAfter(microseconds(delayUs), mkHandler(&lg, idp, slow));
        long long b = lg.now();
        idp->store(id ? id : ~0ULL, std::memory_order_release);
        lg.add("S:" + L((long long)id) + ":" + L(a) + ":" + L(b) + ":" + L(delayUs * 1000LL) + ":O");
        if (id) { std::lock_guard<std::mutex> lk(idm); ids.push_back(id); }
      }
      else if (k < 65)
      {
        long ivUs = 3000 + (long)r.below(9000);
        auto idp = std::make_shared<std::atomic<std::uint64_t>>(0);
        long long a = lg.now();
        std::uint64_t id = svc->schedulePeriodic(microseconds(ivUs), mkHandler(&lg, idp, r.below(6) == 0 ? 1500 : 0));
        long long b = lg.now();
        idp->store(id ? id : ~0ULL, std::memory_order_release);
        lg.add("S:" + L((long long)id) + ":" + L(a) + ":" + L(b) + ":" + L(ivUs * 1000LL) + ":P");
        if (id) { std::lock_guard<std::mutex> lk(idm); ids.push_back(id); }
      }
      else if (k < 92)
      {
        std::uint64_t id = 0;
        {
          std::lock_guard<std::mutex> lk(idm);
          if (!ids.empty()) id = ids[r.below(ids.size())];
        }
        if (id)
        {
          long long a = lg.now();
          bool ok = svc->cancel(id);
          long long b = lg.now();
          lg.add("C:" + L((long long)id) + ":" + L(a) + ":" + L(b) + ":" + (ok ? "1" : "0"));
        }
      }
      std::this_thread::sleep_for(microseconds(200 + r.below(3000)));
    }
  };
  std::vector<std::thread> th;
  if (kind == "f23")
  {
    // a handler that outlives stop()'s internal drain(5000): the drain times out and restores _accepting
    auto idp = std::make_shared<std::atomic<std::uint64_t>>(0);
    long long a = lg.now();
    std::uint64_t id = svc->scheduleAfter(milliseconds(5), mkHandler(&lg, idp, 5400000));
    long long b = lg.now();
    idp->store(id, std::memory_order_release);
    lg.add("S:" + L((long long)id) + ":" + L(a) + ":" + L(b) + ":5000000:O");
    std::this_thread::sleep_for(milliseconds(40));
  }
  else if (kind == "wakeup")
  {
    // the wake-up plumbing with the REAL epoll/timerfd/eventfd and nobody poking: timer B comes due while the loop thread is busy with
    // the slow handler of timer A, so the top of the loop programs the timerfd with the heap top already due (zero guard: 1 ns).
    // With the timerfd disarmed instead, nothing ever wakes the loop: B never fires (monitor RT6)
    long aMs = 10 + (long)(seed % 20), slowMs = 30 + (long)(seed % 40), bMs = aMs + 5 + (long)(seed % 20);
    for (auto [dMs, slowUs] : {std::pair<long, long>{aMs, slowMs * 1000}, std::pair<long, long>{bMs, 0L}})
    {
      auto idp = std::make_shared<std::atomic<std::uint64_t>>(0);
      long long a = lg.now();
      std::uint64_t id = svc->scheduleAfter(milliseconds(dMs), mkHandler(&lg, idp, slowUs));
      long long b = lg.now();
      idp->store(id ? id : ~0ULL, std::memory_order_release);
      lg.add("S:" + L((long long)id) + ":" + L(a) + ":" + L(b) + ":" + L(dMs * 1000000LL) + ":O");
    }
    std::this_thread::sleep_for(milliseconds(ms));
  }
  else
  {
    for (int i = 0; i < 3; ++i) th.emplace_back(client, seed * 31 + i);
    std::this_thread::sleep_for(milliseconds(ms));
    if (kind == "svc")
    {
      // a quiet tail: the clients stop (no more pokes), the loop thread has only its timerfd to wake it for what is still scheduled
      stopClients.store(true);
      for (auto& t : th) t.join();
      th.clear();
      std::this_thread::sleep_for(milliseconds(160));
    }
  }
  if (kind == "svcdrain")
  {
    long long a = lg.now();
    auto r = svc->drain(150);
    long long b = lg.now();
    lg.add(std::string("X:drain:") + L(a) + ":" + L(b) + ":" + (r.success ? "1" : "0"));
  }
  stopClients.store(true);
  for (auto& t : th) t.join();
  {
    long long a = lg.now();
    auto r = svc->stop();
    long long b = lg.now();
    lg.add(std::string("X:stop:") + L(a) + ":" + L(b) + ":" + (r.success ? "1" : "0"));
  }
  // scheduling on a stopped service must be refused, not accepted and lost
  for (int i = 0; i < 3; ++i)
  {
    auto idp = std::make_shared<std::atomic<std::uint64_t>>(0);
    long long a = lg.now();
    std::uint64_t id = svc->scheduleAfter(milliseconds(1), mkHandler(&lg, idp, 0));
    long long b = lg.now();
    idp->store(id ? id : ~0ULL, std::memory_order_release);
    lg.add("S:" + L((long long)id) + ":" + L(a) + ":" + L(b) + ":1000000:O");
  }
  std::this_thread::sleep_for(milliseconds(40));
  lg.add("Z:end:" + L(lg.now()));
  std::string out = lg.str();
  svc.reset();
  return out;
}

static std::string runWheel(std::uint64_t seed, long ms)
{
  Log lg;
  const long tickMs = 5;
  auto w = std::make_unique<iora::core::TimingWheel>(milliseconds(tickMs), 8, 2);
  w->start();
  std::mutex idm;
  std::vector<std::uint64_t> ids;
  std::atomic<bool> stopClients{false};
  auto client = [&](std::uint64_t s) {
    Rng r{s};
    while (!stopClients.load())
    {
      int k = (int)r.below(100);
      if (k < 55)
      {
        long delayMs = (long)r.below(5) == 0 ? (long)r.below(3) : (long)r.below(120);
        long slow = r.below(10) == 0 ? (long)(12000 + r.below(30000)) : 0;   // stalls the tick thread: catch-up follows
        auto idp = std::make_shared<std::atomic<std::uint64_t>>(0);
        long long a = lg.now();
        std::uint64_t id = w->schedule(milliseconds(delayMs), mkHandler(&lg, idp, slow));
        long long b = lg.now();
        idp->store(id ? id : ~0ULL, std::memory_order_release);
        lg.add("S:" + L((long long)id) + ":" + L(a) + ":" + L(b) + ":" + L(delayMs * 1000000LL) + ":O");
        if (id) { std::lock_guard<std::mutex> lk(idm); ids.push_back(id); }
      }
      else if (k < 90)
      {
        std::uint64_t id = 0;
        {
          std::lock_guard<std::mutex> lk(idm);
          if (!ids.empty()) id = ids[r.below(ids.size())];
        }
        if (id && k < 75)
        {
          long long a = lg.now();
          bool ok = w->cancel(id);
          long long b = lg.now();
          lg.add("C:" + L((long long)id) + ":" + L(a) + ":" + L(b) + ":" + (ok ? "1" : "0"));
        }
        else if (id)
        {
          long delayMs = (long)r.below(100);
          long long a = lg.now();
          bool ok = w->reschedule(id, milliseconds(delayMs));
          long long b = lg.now();
          lg.add("R:" + L((long long)id) + ":" + L(a) + ":" + L(b) + ":" + L(delayMs * 1000000LL) + ":" + (ok ? "1" : "0"));
        }
      }
      std::this_thread::sleep_for(microseconds(300 + r.below(4000)));
    }
  };
  std::vector<std::thread> th;
  for (int i = 0; i < 3; ++i) th.emplace_back(client, seed * 131 + i);
  std::this_thread::sleep_for(milliseconds(ms));
  stopClients.store(true);
  for (auto& t : th) t.join();
  {
    long long a = lg.now();
    if (seed % 2) w->stop(); else w->drain(milliseconds(200));
    long long b = lg.now();
    lg.add(std::string("X:stop:") + L(a) + ":" + L(b) + ":1");
  }
  for (int i = 0; i < 3; ++i)
  {
    auto idp = std::make_shared<std::atomic<std::uint64_t>>(0);
    long long a = lg.now();
    std::uint64_t id = w->schedule(milliseconds(1), mkHandler(&lg, idp, 0));
    long long b = lg.now();
    idp->store(id ? id : ~0ULL, std::memory_order_release);
    lg.add("S:" + L((long long)id) + ":" + L(a) + ":" + L(b) + ":1000000:O");
  }
  std::this_thread::sleep_for(milliseconds(40));
  lg.add("Z:end:" + L(lg.now()));
  std::string out = lg.str();
  w.reset();
  return out;
}

int main()
{
  struct Job { std::string kind; std::uint64_t seed; long ms; std::string out; };
  std::vector<Job> jobs;
  std::string line;
  while (std::getline(std::cin, line))
  {
    std::istringstream ss(line);
    Job j;
    if (ss >> j.kind >> j.seed >> j.ms) jobs.push_back(j);
  }
  std::vector<std::thread> th;
  for (auto& j : jobs)
    th.emplace_back([&j]() {
      try
      {
        if (j.kind == "wheel") j.out = runWheel(j.seed, j.ms);
        else j.out = runService(j.kind, j.seed, j.ms);
      }
      catch (const std::exception& e) { j.out = std::string("throw:") + e.what(); }
    });
  for (auto& t : th) t.join();
  for (auto& j : jobs) std::printf("%s %llu | %s\n", j.kind.c_str(), (unsigned long long)j.seed, j.out.c_str());
  return 0;
}
