// Correspondence harness for C10: the real RingBuffer<T,N> / DynamicRingBuffer<T> (sequential ops) and the real
// BlockingQueue<T> (one-caller ops, and 2-4 thread programs under DetSched), driven by the line protocol.
// Built against ${VERIF_REPO}/include on every check run; linked with harness/detsched/detsched.cpp.
#include <algorithm>
#include <array>
#include <atomic>
#include <cassert>
#include <chrono>
#include <condition_variable>
#include <cstddef>
#include <cstdint>
#include <cstdio>
#include <cstdlib>
#include <cstring>
#include <deque>
#include <functional>
#include <memory>
#include <mutex>
#include <new>
#include <sstream>
#include <stdexcept>
#include <string>
#include <thread>
#include <type_traits>
#include <typeinfo>
#include <utility>
#include <vector>

#define private public
#define protected public
#include "iora/core/blocking_queue.hpp"
#include "iora/core/ring_buffer.hpp"
#undef private
#undef protected

#include "common/lineproto.hpp"
#include "detsched/detsched.hpp"

using u64 = std::uint64_t;
using iora::core::BlockingQueue;
using iora::core::DynamicRingBuffer;
using iora::core::RingBuffer;

// ------------------------------------------------------------------------------------------------ rings
struct IRing
{
  virtual ~IRing() {}
  virtual bool push(const u64& v) = 0;
  virtual bool pushm(u64&& v) = 0;
  virtual bool pop(u64& v) = 0;
  virtual bool peek(u64& v) = 0;
  virtual std::size_t pushb(const u64* p, std::size_t n) = 0;
  virtual std::size_t popb(u64* p, std::size_t n) = 0;
  virtual std::size_t size() = 0;
  virtual bool empty() = 0;
  virtual bool full() = 0;
  virtual std::size_t capacity() = 0;
  virtual void clear() = 0;
  virtual bool resize(std::size_t n, std::size_t& dropped) = 0;
  virtual void seed(std::size_t base) = 0;
  virtual std::size_t head() = 0;
  virtual std::size_t tail() = 0;
};
template <class R, bool Dyn> struct RingT : IRing
{
  R r;
  template <class... A> explicit RingT(A&&... a) : r(std::forward<A>(a)...) {}
  bool push(const u64& v) override { return r.tryPush(v); }
  bool pushm(u64&& v) override { return r.tryPush(std::move(v)); }
  bool pop(u64& v) override { return r.tryPop(v); }
  bool peek(u64& v) override { return r.peek(v); }
  std::size_t pushb(const u64* p, std::size_t n) override { return r.tryPushBatch(p, n); }
  std::size_t popb(u64* p, std::size_t n) override { return r.tryPopBatch(p, n); }
  std::size_t size() override { return r.size(); }
  bool empty() override { return r.empty(); }
  bool full() override { return r.full(); }
  std::size_t capacity() override { return r.capacity(); }
  void clear() override { r.clear(); }
  bool resize(std::size_t n, std::size_t& dropped) override
  {
    if constexpr (Dyn) { dropped = r.resize(n); return true; }
    else { (void)n; (void)dropped; return false; }
  }
  void seed(std::size_t base) override { r._head.store(base); r._tail.store(base); }
  std::size_t head() override { return r._head.load(); }
  std::size_t tail() override { return r._tail.load(); }
};
template <std::size_t N> static IRing* mkS() { return new RingT<RingBuffer<u64, N>, false>(); }
static IRing* mkStatic(unsigned long long n)
{
  switch (n)
  {
    case 1: return mkS<1>();
    case 2: return mkS<2>();
    case 4: return mkS<4>();
    case 8: return mkS<8>();
    case 16: return mkS<16>();
    case 32: return mkS<32>();
    case 64: return mkS<64>();
    default: return nullptr;
  }
}

static std::string listStr(const std::vector<u64>& v)
{
  if (v.empty()) return "-";
  std::string s;
  for (std::size_t i = 0; i < v.size(); ++i) { if (i) s += ','; s += std::to_string(v[i]); }
  return s;
}
static bool parseList(const std::string& s, std::vector<u64>& out)
{
  out.clear();
  if (s == "-") return true;
  std::size_t i = 0;
  while (i <= s.size())
  {
    std::size_t j = s.find(',', i);
    if (j == std::string::npos) j = s.size();
    unsigned long long v;
    if (!vh::parseNat(s.substr(i, j - i), v)) return false;
    out.push_back(v);
    i = j + 1;
  }
  return true;
}

static std::unique_ptr<IRing> g_ring;
static std::string ringTail() { return " | h=" + std::to_string(g_ring->head()) + " t=" + std::to_string(g_ring->tail()); }

static std::string ringStep(const std::vector<std::string>& t)
{
  unsigned long long n = 0;
  if (t.size() == 4 && t[1] == "new" && vh::parseNat(t[3], n))
  {
    if (t[2] == "s")
    {
      IRing* r = mkStatic(n);
      if (!r) return "bad-op";
      g_ring.reset(r);
      return "ok cap=" + std::to_string(g_ring->capacity());
    }
    if (t[2] == "d")
    {
      if (n > (1ull << 20)) return "bad-op";   // the harness does not allocate gigabytes; the model has no such limit
      g_ring.reset(new RingT<DynamicRingBuffer<u64>, true>(static_cast<std::size_t>(n)));
      return "ok cap=" + std::to_string(g_ring->capacity());
    }
    return "bad-op";
  }
  if (!g_ring) return "bad-op";
  const std::string& op = t.size() > 1 ? t[1] : t[0];
  if (op == "seed" && t.size() == 3 && vh::parseNat(t[2], n)) { g_ring->seed(n); return "ok"; }
  if ((op == "push" || op == "pushm") && t.size() == 3 && vh::parseNat(t[2], n))
  {
    u64 v = n;
    bool b = op == "push" ? g_ring->push(v) : g_ring->pushm(std::move(v));
    return std::string(b ? "1" : "0") + ringTail();
  }
  if (op == "pop" && t.size() == 2)
  {
    u64 v = 0;
    bool b = g_ring->pop(v);
    return (b ? "1 " + std::to_string(v) : std::string("0")) + ringTail();
  }
  if (op == "peek" && t.size() == 2)
  {
    u64 v = 0;
    bool b = g_ring->peek(v);
    return (b ? "1 " + std::to_string(v) : std::string("0")) + ringTail();
  }
  if (op == "pushb" && t.size() == 3)
  {
    std::vector<u64> xs;
    if (!parseList(t[2], xs)) return "bad-op";
    std::size_t k = g_ring->pushb(xs.data(), xs.size());
    return std::to_string(k) + ringTail();
  }
  if (op == "popb" && t.size() == 3 && vh::parseNat(t[2], n))
  {
    if (n > (1ull << 20)) return "bad-op";
    std::vector<u64> out(static_cast<std::size_t>(n) + 1, 0);
    std::size_t k = g_ring->popb(out.data(), static_cast<std::size_t>(n));
    out.resize(k);
    return std::to_string(k) + " " + listStr(out) + ringTail();
  }
  if (op == "size" && t.size() == 2) return std::to_string(g_ring->size()) + ringTail();
  if (op == "empty" && t.size() == 2) return std::string(g_ring->empty() ? "1" : "0") + ringTail();
  if (op == "full" && t.size() == 2) return std::string(g_ring->full() ? "1" : "0") + ringTail();
  if (op == "capacity" && t.size() == 2) return std::to_string(g_ring->capacity()) + ringTail();
  if (op == "clear" && t.size() == 2) { g_ring->clear(); return "ok" + ringTail(); }
  if (op == "resize" && t.size() == 3 && vh::parseNat(t[2], n))
  {
    if (n > (1ull << 20)) return "bad-op";
    std::size_t dropped = 0;
    if (!g_ring->resize(static_cast<std::size_t>(n), dropped)) return "bad-op";
    return std::to_string(dropped) + " cap=" + std::to_string(g_ring->capacity()) + ringTail();
  }
  return "bad-op";
}

// ------------------------------------------------------------------------------------------------ blocking queue
using BQ = BlockingQueue<u64>;
static BQ* g_bq = nullptr;   // leaked when a caller stays blocked in it

static std::string bqTail(BQ* q) { return " | n=" + std::to_string(q->_queue.size()) + " c=" + (q->_closed.load() ? "1" : "0"); }

struct Call { char kind; u64 v; };   // q f t d e y c s  (+ E empty, U full for the one-caller ops)

static unsigned timeoutMsFor(u64 v) { return v % 3 == 0 ? 0u : 10u; }

static std::string doCall(BQ* q, const Call& c, bool move)
{
  u64 out = 0;
  switch (c.kind)
  {
    case 'q': { u64 v = c.v; return (move ? q->queue(std::move(v)) : q->queue(v)) ? "1" : "0"; }
    case 'f':
    {
      u64 v = c.v;
      auto to = std::chrono::milliseconds(timeoutMsFor(c.v));
      return (move ? q->tryQueue(std::move(v), to) : q->tryQueue(v, to)) ? "1" : "0";
    }
    case 't': { u64 v = c.v; return (move ? q->tryQueue(std::move(v)) : q->tryQueue(v)) ? "1" : "0"; }
    case 'd': return q->dequeue(out) ? "1 " + std::to_string(out) : std::string("0");
    case 'e': return q->dequeue(out, std::chrono::milliseconds(10)) ? "1 " + std::to_string(out) : std::string("0");
    case 'y': return q->tryDequeue(out) ? "1 " + std::to_string(out) : std::string("0");
    case 'c': q->close(); return "ok";
    case 's': return std::to_string(q->size());
    case 'E': return q->empty() ? "1" : "0";
    case 'U': return q->full() ? "1" : "0";
  }
  return "?";
}

// one-caller op: executed as a one-thread DetSched run, so that a timed wait times out in virtual time and a call
// that can never return is detected (`blocks`) instead of hanging the harness
static std::string seqCall(const Call& c, bool move, unsigned ms)
{
  if (!g_bq) return "no-queue";
  BQ* q = g_bq;
  auto* res = new std::string();
  ds::init(static_cast<u64>(1));
  bool ok = ds::run([q, c, move, ms, res] {
    if (c.kind == 'f')
    {
      u64 v = c.v;
      auto to = std::chrono::milliseconds(ms);
      *res = (move ? q->tryQueue(std::move(v), to) : q->tryQueue(v, to)) ? "1" : "0";
    }
    else if (c.kind == 'e')
    {
      u64 out = 0;
      *res = q->dequeue(out, std::chrono::milliseconds(ms)) ? "1 " + std::to_string(out) : std::string("0");
    }
    else *res = doCall(q, c, move);
  });
  if (!ok) { g_bq = nullptr; return ds::deadlocked() ? "blocks" : "steplimit"; }
  std::string r = *res + bqTail(q);
  delete res;
  return r;
}

static bool parseProg(const std::string& s, std::vector<Call>& out)
{
  out.clear();
  if (s == "-") return true;
  std::size_t i = 0;
  while (i <= s.size())
  {
    std::size_t j = s.find(',', i);
    if (j == std::string::npos) j = s.size();
    std::string w = s.substr(i, j - i);
    if (w.empty()) return false;
    Call c{w[0], 0};
    if (w[0] == 'q' || w[0] == 'f' || w[0] == 't')
    {
      unsigned long long v;
      if (!vh::parseNat(w.substr(1), v)) return false;
      c.v = v;
    }
    else if (!(w.size() == 1 && (w[0] == 'd' || w[0] == 'e' || w[0] == 'y' || w[0] == 'c' || w[0] == 's'))) return false;
    out.push_back(c);
    i = j + 1;
  }
  return true;
}

struct Sample { std::size_t traceLen; std::size_t n; bool closed; };
struct Shared
{
  BQ* q = nullptr;
  std::vector<std::vector<Call>> progs;
  std::vector<std::vector<std::string>> rets;
  std::vector<char> finished;
  std::vector<Sample> samples;
};
static void sampleHook(void* p)
{
  Shared* sh = static_cast<Shared*>(p);
  sh->samples.push_back(Sample{ds::trace().size(), sh->q->_queue.size(), sh->q->_closed.load()});
}

// bq sched <max> <progs> seed:<n>|ch:<list> [timeoutOneIn [spuriousOneIn]]
static std::string schedRun(const std::vector<std::string>& t)
{
  unsigned long long mx = 0;
  if (t.size() < 5 || !vh::parseNat(t[2], mx) || mx == 0) return "bad-op";
  auto* sh = new Shared();
  {
    std::size_t i = 0;
    const std::string& s = t[3];
    while (i <= s.size())
    {
      std::size_t j = s.find('/', i);
      if (j == std::string::npos) j = s.size();
      std::vector<Call> p;
      if (!parseProg(s.substr(i, j - i), p)) { delete sh; return "bad-op"; }
      sh->progs.push_back(p);
      i = j + 1;
    }
  }
  if (sh->progs.empty() || !sh->progs[0].empty() || sh->progs.size() > 9) { delete sh; return "bad-op"; }
  std::size_t nthr = sh->progs.size();
  sh->rets.resize(nthr);
  sh->finished.assign(nthr, 0);
  sh->q = new BQ(static_cast<std::size_t>(mx));
  ds::Options opt;
  unsigned long long x;
  if (t.size() > 5 && vh::parseNat(t[5], x)) opt.timeoutOneIn = static_cast<unsigned>(x);
  if (t.size() > 6 && vh::parseNat(t[6], x)) opt.spuriousOneIn = static_cast<unsigned>(x);
  opt.maxSteps = 20000;
  ds::options(opt);
  if (t[4].rfind("seed:", 0) == 0)
  {
    if (!vh::parseNat(t[4].substr(5), x)) { delete sh->q; delete sh; return "bad-op"; }
    ds::init(static_cast<u64>(x));
  }
  else if (t[4].rfind("ch:", 0) == 0)
  {
    std::vector<u64> v;
    if (!parseList(t[4].substr(3), v)) { delete sh->q; delete sh; return "bad-op"; }
    std::vector<std::uint32_t> ch(v.begin(), v.end());
    ds::init(ch);
  }
  else { delete sh->q; delete sh; return "bad-op"; }
  ds::set_step_hook(sampleHook, sh);
  bool ok = ds::run([sh, nthr] {
    std::vector<std::thread> ts;
    for (std::size_t k = 1; k < nthr; ++k)
      ts.emplace_back([sh, k] {
        for (const Call& c : sh->progs[k]) sh->rets[k].push_back(doCall(sh->q, c, (c.v & 1) != 0));
        sh->finished[k] = 1;
      });
    for (auto& th : ts) th.join();
  });
  ds::set_step_hook(nullptr, nullptr);
  sh->samples.push_back(Sample{ds::trace().size() + 1, sh->q->_queue.size(), sh->q->_closed.load()});
  std::string status = ok ? "ok" : ds::deadlocked() ? "deadlock" : ds::stepLimit() ? "steplimit" : "diverged";
  int iM = ds::object_index(sh->q->_mutex.native_handle());
  int iE = ds::object_index(sh->q->_condNotEmpty.native_handle());
  int iF = ds::object_index(sh->q->_condNotFull.native_handle());
  auto cvn = [&](int o) { return o == iE ? std::string("E") : o == iF ? std::string("F") : "?" + std::to_string(o); };
  std::string evs;
  const auto& tr = ds::trace();
  std::size_t si = 0;
  for (std::size_t i = 0; i < tr.size(); ++i)
  {
    const ds::Event& e = tr[i];
    if (e.tid == 0 || e.kind == ds::EXIT) continue;
    while (si < sh->samples.size() && sh->samples[si].traceLen <= i) ++si;
    std::string d;
    switch (e.kind)
    {
      case ds::START: case ds::TIMEOUT: case ds::SPURIOUS: d = "-"; break;
      case ds::LOCK: case ds::UNLOCK: d = (e.obj == iM) ? "-" : "?" + std::to_string(e.obj); break;
      case ds::WAIT: d = cvn(e.obj) + (e.detail ? "1" : "0"); break;
      case ds::REACQ: d = (e.obj == iM) ? (e.detail ? "1" : "0") : "?"; break;
      case ds::SIGNAL: d = cvn(e.obj) + (e.detail < 0 ? std::string("-") : std::to_string(e.detail)); break;
      case ds::BCAST: d = cvn(e.obj) + std::to_string(e.detail); break;
      default: d = "??"; break;
    }
    if (!evs.empty()) evs += ' ';
    evs += std::to_string(e.tid) + "." + std::string(1, e.kind) + "." + d + ".";
    if (si < sh->samples.size()) evs += std::to_string(sh->samples[si].n) + "." + (sh->samples[si].closed ? "1" : "0");
    else evs += "?.?";
  }
  if (evs.empty()) evs = "-";
  std::string rets;
  for (std::size_t k = 0; k < nthr; ++k)
  {
    if (k) rets += '/';
    std::string r;
    for (std::size_t i = 0; i < sh->rets[k].size(); ++i)
    {
      if (i) r += ',';
      std::string x = sh->rets[k][i];
      std::replace(x.begin(), x.end(), ' ', ':');
      r += x;
    }
    if (r.empty()) r = "-";
    if (k == 0 || !sh->finished[k]) r += "*";
    rets += r;
  }
  std::string out = status + " | " + evs + " | " + rets + " | " + ds::choicesString();
  if (ok) { delete sh->q; delete sh; }   // otherwise: abandoned threads still reference them
  return out;
}

static std::string bqStep(const std::vector<std::string>& t)
{
  unsigned long long n = 0;
  const std::string& op = t.size() > 1 ? t[1] : t[0];
  if (op == "new" && t.size() == 3 && vh::parseNat(t[2], n))
  {
    if (n > (1ull << 30)) return "bad-op";
    delete g_bq;
    g_bq = nullptr;
    g_bq = new BQ(static_cast<std::size_t>(n));
    return "ok";
  }
  if (op == "sched") return schedRun(t);
  if (op == "replay") return "bad-op";   // model-only op
  if ((op == "q" || op == "qm") && t.size() == 3 && vh::parseNat(t[2], n)) return seqCall(Call{'q', n}, op == "qm", 0);
  if ((op == "tq" || op == "tqm") && t.size() == 3 && vh::parseNat(t[2], n)) return seqCall(Call{'t', n}, op == "tqm", 0);
  unsigned long long ms = 0;
  if ((op == "tqf" || op == "tqfm") && t.size() == 4 && vh::parseNat(t[2], n) && vh::parseNat(t[3], ms))
    return seqCall(Call{'f', n}, op == "tqfm", static_cast<unsigned>(ms));
  if (op == "d" && t.size() == 2) return seqCall(Call{'d', 0}, false, 0);
  if (op == "df" && t.size() == 3 && vh::parseNat(t[2], ms)) return seqCall(Call{'e', 0}, false, static_cast<unsigned>(ms));
  if (op == "td" && t.size() == 2) return seqCall(Call{'y', 0}, false, 0);
  if (op == "close" && t.size() == 2) return seqCall(Call{'c', 0}, false, 0);
  if (op == "size" && t.size() == 2) return seqCall(Call{'s', 0}, false, 0);
  if (op == "empty" && t.size() == 2) return seqCall(Call{'E', 0}, false, 0);
  if (op == "full" && t.size() == 2) return seqCall(Call{'U', 0}, false, 0);
  if (op == "closed" && t.size() == 2) { if (!g_bq) return "no-queue"; return std::string(g_bq->isClosed() ? "1" : "0") + bqTail(g_bq); }
  if (op == "cap" && t.size() == 2) { if (!g_bq) return "no-queue"; return std::to_string(g_bq->capacity()) + bqTail(g_bq); }
  return "bad-op";
}

int main()
{
  return vh::runLines([&](const std::vector<std::string>& t) -> std::string {
    try
    {
      if (t.empty()) return "bad-op";
      if (t[0] == "ring") return ringStep(t);
      if (t[0] == "bq") return bqStep(t);
      return "bad-op";
    }
    catch (const std::invalid_argument&) { return "throw invalid_argument"; }
    catch (const std::bad_alloc&) { return "throw bad_alloc"; }
    catch (const std::exception& e) { return std::string("throw ") + typeid(e).name(); }
  });
}
